import Rain.Lemmas.Persist
/-
Every filesystem operation of the persisted system is accepted by the durability monitor and
keeps the relation between the LSM state and the image.
-/
namespace Rain.Persist.Lemmas
open Rain Rain.Lsm Rain.Durable Rain.Persist Rain.Lsm.Lemmas Rain.Durable.Lemmas

theorem apply_completeTable (d : Disk) (t : Nat) (es : List Entry) :
    apply d (.completeTable t es) = { d with tables := update d.tables t es } := rfl
theorem apply_removeTable (d : Disk) (t : Nat) :
    apply d (.removeTable t) = { d with tables := erase d.tables t } := rfl
theorem apply_removeWal (d : Disk) (n : Nat) :
    apply d (.removeWal n) = { d with wals := erase d.wals n } := rfl
theorem apply_createWal (d : Disk) (n : Nat) :
    apply d (.createWal n) = { d with wals := update d.wals n [] } := rfl
theorem apply_appendWal (d : Disk) (n : Nat) (b : WBatch) :
    apply d (.appendWal n b) = { d with wals := update d.wals n ((lookup d.wals n).getD [] ++ [b]) } := rfl
theorem apply_appendManifest (d : Disk) (m : Nat) (e : Edit) :
    apply d (.appendManifest m e) =
      { d with manifests := update d.manifests m ((lookup d.manifests m).getD [] ++ [e]) } := rfl

theorem version_nums_fresh {p : PState} (h : Rel p) {r : Recovered}
    (hv : ∀ q, q ∈ r.version ↔ InVersion p.s.levels q) (t : Nat)
    (hfresh : ∀ l f, f ∈ lv p.s.levels l → f.num ≠ t) :
    (!(r.version.map Prod.snd).contains t) = true := by
  simp only [Bool.not_eq_true', List.contains_eq_mem, decide_eq_false_iff_not, List.mem_map]
  rintro ⟨q, hq, hqt⟩
  obtain ⟨f, hf, hn⟩ := (hv q).mp hq
  exact hfresh q.1 f hf (hn.trans hqt)

/-! ### tables -/

theorem rel_completeTable {p : PState} (h : Rel p) (t : Nat) (es : List Entry)
    (hfresh : ∀ l f, f ∈ lv p.s.levels l → f.num ≠ t) :
    ok p.d (.completeTable t es) = true ∧
      Rel { s := p.s, d := apply p.d (.completeTable t es), c := p.c } := by
  obtain ⟨r, _, hr, _, _, _, hv, _⟩ := rel_recover h
  constructor
  · simp only [ok, hr]; exact version_nums_fresh h hv t hfresh
  · rw [apply_completeTable]
    exact { inv := h.inv, wf := ⟨h.wf.1, h.wf.2.1, nodup_update _ _ _ h.wf.2.2⟩, cur := h.cur,
            edits := h.edits,
            tables := fun l f hf => by
              show lookup (update p.d.tables t es) f.num = _
              rw [lookup_update, if_neg (hfresh l f hf)]; exact h.tables l f hf,
            walMem := h.walMem, walImm := h.walImm, others := h.others, walMax := h.walMax,
            manLe := h.manLe }

theorem rel_removeTable {p : PState} (h : Rel p) (t : Nat)
    (hfresh : ∀ l f, f ∈ lv p.s.levels l → f.num ≠ t) :
    ok p.d (.removeTable t) = true ∧ Rel { s := p.s, d := apply p.d (.removeTable t), c := p.c } := by
  obtain ⟨r, _, hr, _, _, _, hv, _⟩ := rel_recover h
  constructor
  · simp only [ok, hr]; exact version_nums_fresh h hv t hfresh
  · rw [apply_removeTable]
    exact { inv := h.inv, wf := ⟨h.wf.1, h.wf.2.1, nodup_erase _ _ h.wf.2.2⟩, cur := h.cur,
            edits := h.edits,
            tables := fun l f hf => by
              show lookup (erase p.d.tables t) f.num = _
              rw [lookup_erase, if_neg (hfresh l f hf)]; exact h.tables l f hf,
            walMem := h.walMem, walImm := h.walImm, others := h.others, walMax := h.walMax,
            manLe := h.manLe }

/-! ### write-ahead logs -/

theorem mem_erase {α : Type} {l : List (Nat × α)} {n : Nat} {x : Nat × α} (hx : x ∈ erase l n) : x ∈ l := by
  unfold erase at hx; exact (List.mem_filter.mp hx).1

theorem rel_removeWal {p : PState} (h : Rel p) (n : Nat) (hn : n < p.c.manWal) :
    ok p.d (.removeWal n) = true ∧ Rel { s := p.s, d := apply p.d (.removeWal n), c := p.c } := by
  obtain ⟨r, _, hr, _, _, hw, _, _⟩ := rel_recover h
  have hle := w0_le_wal h
  have hn0 : n < p.c.w0 := Nat.lt_of_lt_of_le hn h.manLe
  constructor
  · simp only [ok, hr, hw, decide_eq_true_eq]; exact hn
  · rw [apply_removeWal]
    refine { inv := h.inv, wf := ⟨h.wf.1, nodup_erase _ _ h.wf.2.1, h.wf.2.2⟩, cur := h.cur,
             edits := h.edits, tables := h.tables, walMem := ?_, walImm := ?_,
             others := fun x hx => h.others x (mem_erase hx),
             walMax := fun x hx => h.walMax x (mem_erase hx), manLe := h.manLe }
    · obtain ⟨bs, hl, hm⟩ := h.walMem
      refine ⟨bs, ?_, hm⟩
      show lookup (erase p.d.wals n) p.c.wal = _
      rw [lookup_erase, if_neg (by omega)]; exact hl
    · rcases h.walImm with hh | ⟨wi, im, bs, hwi, him, hlt, hl, hm⟩
      · exact Or.inl hh
      · refine Or.inr ⟨wi, im, bs, hwi, him, hlt, ?_, hm⟩
        show lookup (erase p.d.wals n) wi = _
        have : wi ≠ n := by
          have : p.c.w0 = wi := by simp [Ctx.w0, hwi]
          omega
        rw [lookup_erase, if_neg this]; exact hl

theorem maxSeq_le (es : List Entry) (n : Nat) (h : ∀ e ∈ es, e.seq ≤ n) : maxSeq es ≤ n := by
  unfold maxSeq
  suffices H : ∀ (l : List Entry) (m : Nat), m ≤ n → (∀ e ∈ l, e.seq ≤ n) →
      l.foldl (fun m e => if m < e.seq then e.seq else m) m ≤ n from H es 0 (Nat.zero_le _) h
  intro l
  induction l with
  | nil => intro m hm _; simpa using hm
  | cons a rest ih =>
    intro m hm hl
    simp only [List.foldl_cons]
    apply ih
    · split
      · exact hl a List.mem_cons_self
      · exact hm
    · exact fun e he => hl e (List.mem_cons_of_mem _ he)

theorem newE_eq_bEntries (ops : List (Bytes × Option Bytes)) (seq : Nat) : newE ops seq = bEntries seq ops := by
  induction ops generalizing seq with
  | nil => rfl
  | cons kv rest ih => simp only [newE, bEntries, ih]; rfl

theorem batchesFlat_snoc (bs : List WBatch) (b : WBatch) :
    batchesFlat (bs ++ [b]) = batchesFlat bs ++ batchEntries b := by
  simp [batchesFlat]

theorem mem_update {α : Type} {l : List (Nat × α)} {n : Nat} {v : α} {x : Nat × α} (hx : x ∈ update l n v) :
    x.1 = n ∨ x ∈ l := by
  by_cases hn : n ∈ l.map Prod.fst
  · rw [update_of_mem l n v hn] at hx
    obtain ⟨y, hy, rfl⟩ := List.mem_map.mp hx
    by_cases hyn : y.1 = n
    · left; rw [setAt_fst]; exact hyn
    · right; rw [setAt_of_ne n v y hyn]; exact hy
  · rw [update_of_not_mem l n v hn] at hx
    rcases List.mem_append.mp hx with hx | hx
    · exact Or.inr hx
    · simp at hx; subst hx; exact Or.inl rfl

/-- a write: the batch goes to the current WAL with the next sequence numbers -/
theorem rel_appendWal {p : PState} (h : Rel p) (ops : List (Bytes × Option Bytes)) :
    ok p.d (.appendWal p.c.wal { start := p.s.lastSeq + 1, ops := ops }) = true ∧
      Rel { s := stepWrite p.s ops,
            d := apply p.d (.appendWal p.c.wal { start := p.s.lastSeq + 1, ops := ops }), c := p.c } := by
  obtain ⟨r, _, hr, _, _, hw, _, hme⟩ := rel_recover h
  obtain ⟨bs, hl, hm⟩ := h.walMem
  have hle := w0_le_wal h
  constructor
  · simp only [ok, hr, hw, Bool.and_eq_true, decide_eq_true_eq, List.all_eq_true, Bool.or_eq_true]
    refine ⟨⟨⟨?_, ?_⟩, Nat.le_trans h.manLe hle⟩, ?_⟩
    · simp only [walNumbers, List.contains_eq_mem, decide_eq_true_eq, List.mem_map]
      exact ⟨(p.c.wal, bs), mem_of_lookup _ _ _ hl, rfl⟩
    · intro x hx
      rcases h.walMax x hx with h1 | h1
      · exact Or.inl h1
      · exact Or.inr (by simp [h1])
    · have := maxSeq_le r.entries p.s.lastSeq (fun e he => seq_le_last h.inv e ((hme e).mp he))
      show maxSeq r.entries < p.s.lastSeq + 1
      omega
  · rw [apply_appendWal, hl]
    simp only [Option.getD_some]
    refine { inv := write_inv' h.inv ops, wf := ⟨h.wf.1, nodup_update _ _ _ h.wf.2.1, h.wf.2.2⟩,
             cur := h.cur, edits := h.edits, tables := h.tables, walMem := ?_, walImm := ?_,
             others := ?_, walMax := ?_, manLe := h.manLe }
    · refine ⟨bs ++ [{ start := p.s.lastSeq + 1, ops := ops }], ?_, ?_⟩
      · show lookup (update p.d.wals p.c.wal _) p.c.wal = _
        rw [lookup_update, if_pos rfl]
      · intro e
        show _ ↔ e ∈ applyOps ops (p.s.lastSeq + 1) p.s.mem
        rw [batchesFlat_snoc, List.mem_append, mem_applyOps, batchEntries_eq, newE_eq_bEntries, hm e]
        exact Or.comm
    · rcases h.walImm with hh | ⟨wi, im, bs', hwi, him, hlt, hl', hm'⟩
      · exact Or.inl hh
      · refine Or.inr ⟨wi, im, bs', hwi, him, hlt, ?_, hm'⟩
        show lookup (update p.d.wals p.c.wal _) wi = _
        rw [lookup_update, if_neg (by omega)]; exact hl'
    · intro x hx
      rcases mem_update hx with hx | hx
      · exact Or.inl hx
      · exact h.others x hx
    · intro x hx
      rcases mem_update hx with hx | hx
      · left; show x.1 ≤ p.c.wal; omega
      · exact h.walMax x hx

/-- a rotation: the next WAL is created, the memtable (and its WAL) become immutable -/
theorem rel_createWal {p : PState} (h : Rel p) (w : Nat) (hw : ∀ x ∈ p.d.wals, x.1 < w)
    (s' : State) (hs : stepRotate p.s = some s') :
    ok p.d (.createWal w) = true ∧
      Rel { s := s', d := apply p.d (.createWal w), c := { p.c with wal := w, immWal := some p.c.wal } } := by
  obtain ⟨bs, hl, hm⟩ := h.walMem
  have hlt : p.c.wal < w := hw _ (mem_of_lookup _ _ _ hl)
  have himm : p.s.imm = none ∧ s' = { p.s with mem := [], imm := some p.s.mem } := by
    unfold stepRotate at hs
    cases hi : p.s.imm with
    | none => rw [hi] at hs; injection hs with hs; exact ⟨rfl, hs.symm⟩
    | some x => rw [hi] at hs; cases hs
  obtain ⟨hnone, rfl⟩ := himm
  have hcn : p.c.immWal = none := by
    rcases h.walImm with ⟨hh, _⟩ | ⟨_, im, _, _, him, _⟩
    · exact hh
    · rw [hnone] at him; cases him
  constructor
  · simp only [ok, Bool.or_eq_true, List.all_eq_true, decide_eq_true_eq, walNumbers, List.mem_map]
    left
    rintro n ⟨x, hx, rfl⟩
    exact hw x hx
  · rw [apply_createWal]
    refine { inv := rotate_inv' h.inv hs, wf := ⟨h.wf.1, nodup_update _ _ _ h.wf.2.1, h.wf.2.2⟩,
             cur := h.cur, edits := h.edits, tables := h.tables, walMem := ?_, walImm := ?_,
             others := ?_, walMax := ?_, manLe := ?_ }
    · refine ⟨[], ?_, ?_⟩
      · show lookup (update p.d.wals w []) w = _
        rw [lookup_update, if_pos rfl]
      · intro e; simp [batchesFlat]
    · refine Or.inr ⟨p.c.wal, p.s.mem, bs, rfl, rfl, hlt, ?_, hm⟩
      show lookup (update p.d.wals w []) p.c.wal = _
      rw [lookup_update, if_neg (by omega)]; exact hl
    · intro x hx
      rcases mem_update hx with hx | hx
      · exact Or.inl hx
      · rcases h.others x hx with h1 | h1 | h1 | h1
        · exact Or.inr (Or.inl (by rw [h1]))
        · rw [hcn] at h1; cases h1
        · exact Or.inr (Or.inr (Or.inl h1))
        · exact Or.inr (Or.inr (Or.inr h1))
    · intro x hx
      rcases mem_update hx with hx | hx
      · left; show x.1 ≤ w; omega
      · have := hw x hx; left; show x.1 ≤ w; omega
    · have := h.manLe
      simp only [Ctx.w0, hcn, Option.getD_none] at this
      show p.c.manWal ≤ (some p.c.wal).getD w
      simpa using this

end Rain.Persist.Lemmas
