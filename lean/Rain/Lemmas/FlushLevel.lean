import Rain.FlushLevel
import Rain.Lemmas.BinSearch
import Rain.Lemmas.LsmMove
/-
`some_file_overlaps_range` answers "no" only if no file overlaps; the level the flush loop returns
has been cleared, together with every shallower level.
-/
namespace Rain.FlushLevel.Lemmas
open Rain Rain.Lsm Rain.BinSearch Rain.BinSearch.Lemmas Rain.FlushLevel Rain.Lsm.Lemmas Rain.Table.Lemmas

/-- what `find_file_with_upper_bound_range` found, on a sorted level -/
theorem findFile_spec {fs : List File} (hf : ∀ f ∈ fs, FileOk f) (hl : LevelOk fs) (t : Bytes × Nat) :
    (findFile fs t = none ∧ ∀ g ∈ fs, kLt g.largest t = true) ∨
    (∃ i, ∃ hi : i < fs.length, findFile fs t = some i ∧ kLt fs[i].largest t = false ∧
      ∀ j (hj : j < fs.length), j < i → kLt fs[j].largest t = true) := by
  have hp := largest_pairwise hf hl
  obtain ⟨h1, h2, h3⟩ := search_spec (keyBelow (fs.map File.largest) t) (fs.map File.largest).length
    (lessAt_mono hp t)
  have hlen : (fs.map File.largest).length = fs.length := List.length_map _
  have hfind : findFile fs t =
      if search (keyBelow (fs.map File.largest) t) fs.length = fs.length then none
      else some (search (keyBelow (fs.map File.largest) t) fs.length) := by
    unfold findFile; rw [fileBelow_eq]
  rw [hlen] at h1 h2 h3
  have hat : ∀ j (hj : j < fs.length), keyBelow (fs.map File.largest) t j = kLt fs[j].largest t := by
    intro j hj
    have : j < (fs.map File.largest).length := by rw [hlen]; exact hj
    rw [show keyBelow (fs.map File.largest) t j = lessAt (fs.map File.largest) t j from rfl,
      lessAt_lt this]
    simp
  by_cases he : search (keyBelow (fs.map File.largest) t) fs.length = fs.length
  · left
    refine ⟨by rw [hfind, if_pos he], ?_⟩
    intro g hg
    obtain ⟨j, hj, rfl⟩ := List.getElem_of_mem hg
    rw [← hat j hj]
    exact h2 j (by omega)
  · right
    have hlt : search (keyBelow (fs.map File.largest) t) fs.length < fs.length := by omega
    refine ⟨_, hlt, by rw [hfind, if_neg he], ?_, ?_⟩
    · rw [← hat _ hlt]; exact h3 _ (Nat.le_refl _) hlt
    · intro j hj hji
      rw [← hat j hj]; exact h2 j hji

/-- below `(lo, MAX_SEQUENCE_NUMBER)` in internal-key order = user key below `lo` -/
theorem kLt_seek_iff {a : Bytes × Nat} (ha : a.2 ≤ maxSeqNo) (lo : Bytes) :
    kLt a (lo, maxSeqNo) = bytesLt a.1 lo := by
  cases hb : bytesLt a.1 lo with
  | true => rw [kLt_def]; exact Or.inl hb
  | false =>
    rw [kLt_false]
    exact ⟨hb, fun _ => ha⟩

theorem not_overlaps_of_before {g : File} {lo hi : Bytes} (h : bytesLt g.largest.1 lo = true) :
    userRangeOverlaps g lo hi = false := by
  simp [userRangeOverlaps, h]

theorem not_overlaps_of_after {g : File} {lo hi : Bytes} (h : bytesLt hi g.smallest.1 = true) :
    userRangeOverlaps g lo hi = false := by
  simp [userRangeOverlaps, h]

/-- **`some_file_overlaps_range` = false is sound**: then no file of the level overlaps the range -/
theorem no_overlap_of_false {disjoint : Bool} {fs : List File} {lo hi : Bytes}
    (hf : ∀ f ∈ fs, FileOk f) (hl : disjoint = true → LevelOk fs)
    (hseq : ∀ f ∈ fs, f.largest.2 ≤ maxSeqNo)
    (h : someFileOverlaps disjoint fs lo hi = false) : ∀ g ∈ fs, userRangeOverlaps g lo hi = false := by
  unfold someFileOverlaps at h
  by_cases he : fs.isEmpty = true
  · intro g hg
    have : fs = [] := List.isEmpty_iff.mp he
    subst this; cases hg
  · rw [if_neg he] at h
    cases disjoint with
    | false =>
      simp only [Bool.not_false, if_true, List.any_eq_false] at h
      intro g hg
      have hg' := h g hg
      cases h1 : bytesLt g.largest.1 lo with
      | true => exact not_overlaps_of_before h1
      | false =>
        cases h2 : bytesLt hi g.smallest.1 with
        | true => exact not_overlaps_of_after h2
        | false => simp [h1, h2] at hg'
    | true =>
      simp only [Bool.not_true, Bool.false_eq_true, if_false] at h
      have hl' := hl rfl
      rcases findFile_spec hf hl' (lo, maxSeqNo) with ⟨hn, hall⟩ | ⟨i, hi', hs, hge, hbefore⟩
      · intro g hg
        have := hall g hg
        rw [kLt_seek_iff (hseq g hg)] at this
        exact not_overlaps_of_before this
      · rw [hs] at h
        simp only [List.getElem?_eq_getElem hi', Bool.not_eq_false'] at h
        intro g hg
        obtain ⟨j, hj, rfl⟩ := List.getElem_of_mem hg
        rcases Nat.lt_trichotomy j i with hji | hji | hji
        · have := hbefore j hj hji
          rw [kLt_seek_iff (hseq _ (List.getElem_mem hj))] at this
          exact not_overlaps_of_before this
        · subst hji; exact not_overlaps_of_after h
        · -- a later file starts after file `i` ends, and file `i` starts after `hi`
          have hlt : kLt fs[i].largest fs[j].smallest = true :=
            List.pairwise_iff_getElem.mp hl' i j hi' hj hji
          have h1 : bytesLt fs[j].smallest.1 fs[i].largest.1 = false := kLt_fst_le hlt
          have h2 : bytesLt fs[i].largest.1 fs[i].smallest.1 = false :=
            (hf _ (List.getElem_mem hi')).ufst_le
          -- hi < smallest_i ≤ largest_i ≤ smallest_j
          have h3 : bytesLt hi fs[i].largest.1 = true := bytes_st.lt_of_lt_of_le h h2
          exact not_overlaps_of_after (bytes_st.lt_of_lt_of_le h3 h1)

/-- the loop only moves down over levels it has cleared, and never below `MAX_MEM_COMPACT_LEVEL` -/
theorem pickLoop_spec (size : Nat → Nat) (maxGp : Nat) (levels : List (List File)) (lo hi : Bytes) :
    ∀ fuel level, level ≤ Rain.Gen.MAX_MEM_COMPACT_LEVEL →
      (∀ l, l ≤ level → hasOverlapInLevel levels l lo hi = false) →
      pickLoop size maxGp levels lo hi fuel level ≤ Rain.Gen.MAX_MEM_COMPACT_LEVEL ∧
      ∀ l, l ≤ pickLoop size maxGp levels lo hi fuel level → hasOverlapInLevel levels l lo hi = false := by
  intro fuel
  induction fuel with
  | zero => intro level hle hc; exact ⟨hle, hc⟩
  | succ fuel ih =>
    intro level hle hc
    simp only [pickLoop]
    by_cases h1 : level < Rain.Gen.MAX_MEM_COMPACT_LEVEL
    · rw [if_pos h1]
      by_cases h2 : hasOverlapInLevel levels (level + 1) lo hi = true
      · rw [if_pos h2]; exact ⟨hle, hc⟩
      · rw [if_neg h2]
        split
        · exact ⟨hle, hc⟩
        · apply ih (level + 1) h1
          intro l hl
          by_cases hl' : l ≤ level
          · exact hc l hl'
          · have : l = level + 1 := by omega
            subst this; simpa using h2
    · rw [if_neg h1]; exact ⟨hle, hc⟩

theorem pickLevel_spec (size : Nat → Nat) (maxFileSize : Nat) (levels : List (List File)) (lo hi : Bytes) :
    pickLevel size maxFileSize levels lo hi = 0 ∨
    (pickLevel size maxFileSize levels lo hi ≤ Rain.Gen.MAX_MEM_COMPACT_LEVEL ∧
      ∀ l, l ≤ pickLevel size maxFileSize levels lo hi → hasOverlapInLevel levels l lo hi = false) := by
  unfold pickLevel
  by_cases h0 : hasOverlapInLevel levels 0 lo hi = true
  · left; rw [if_pos h0]
  · right
    rw [if_neg h0]
    apply pickLoop_spec size _ levels lo hi _ 0 (Nat.zero_le _)
    intro l hl
    have : l = 0 := by omega
    subst this; simpa using h0

end Rain.FlushLevel.Lemmas
