import Rain.Bytes
import Rain.Generated.Constants
/-
Model of `src/logs.rs`: `LogWriter::{new, append, emit_block}` and
`LogReader::{read_record, read_physical_record}` (initial offset 0, the only value the database
uses).  Parametric in the block size `B` and in the checksum function; the header length is the
4+2+1 layout of `BlockRecord`.

Deviations from the text of the code, each justified:
* `current_cursor_position` is not modelled.  It is only compared with the file length at the
  top of `read_record` to return end-of-file early; it never exceeds the number of bytes the
  file cursor has consumed, so whenever that early exit fires the cursor is at the end of the
  file and `read_physical_record` reports end-of-file as well.
* checksums are natural numbers below 2^32 and the two rotations are written with `/`, `%`, `*`
  on naturals (bit-disjoint `|` is `+`).
-/
namespace Rain.Log
open Rain

/-- header length: checksum (4) + length (2) + type (1) -/
def H : Nat := 7

structure Cfg where
  B : Nat
  crc : Bytes → Nat

def DELTA : Nat := Rain.Gen.CRC_MASKING_DELTA

/-- `utils/crc.rs mask_checksum` -/
def maskCrc (c : Nat) : Nat := ((c / 2^Rain.Gen.CRC_MASK_SHR + (c % 2^Rain.Gen.CRC_MASK_SHR) * 2^Rain.Gen.CRC_MASK_SHL) + DELTA) % 2^32

/-- `utils/crc.rs unmask_checksum` -/
def unmaskCrc (m : Nat) : Nat :=
  let r := (m + 2^32 - DELTA) % 2^32
  r / 2^Rain.Gen.CRC_UNMASK_SHR + (r % 2^Rain.Gen.CRC_UNMASK_SHR) * 2^Rain.Gen.CRC_UNMASK_SHL

/-- `From<&BlockRecord> for Vec<u8>` with the checksum of `BlockRecord::new` -/
def emit (c : Cfg) (ty : Nat) (chunk : Bytes) : Bytes :=
  leBytes 4 (maskCrc (c.crc chunk)) ++ leBytes 2 chunk.length ++ [ty.toUInt8] ++ chunk

def TFull : Nat := 0
def TFirst : Nat := 1
def TMiddle : Nat := 2
def TLast : Nat := 3

/--
`LogWriter::append`: the list of buffers handed to `write_all`, in order (zero padding of a
trailer and serialized block records are separate writes), and the writer's block offset
afterwards.  `fuel` bounds the number of loop iterations; `appendFuel` is always enough
(theorem `Rain.Log.appendLoop_fuel_irrelevant`).
-/
def appendLoop (c : Cfg) : Nat → Nat → Bytes → Bool → List Bytes × Nat
  | 0, off, _, _ => ([], off)
  | fuel+1, off, data, first =>
    let avail := c.B - off
    let pad : List Bytes := if avail < H ∧ 0 < avail then [List.replicate avail 0] else []
    let off1 := if avail < H then 0 else off
    let space := c.B - off1 - H
    let n := if data.length < space then data.length else space
    let last : Bool := data.length == n
    let ty := if first && last then TFull else if first then TFirst else if last then TLast else TMiddle
    let out := pad ++ [emit c ty (data.take n)]
    let rest := data.drop n
    if rest.isEmpty then (out, off1 + H + n)
    else
      let r := appendLoop c fuel (off1 + H + n) rest false
      (out ++ r.1, r.2)

def appendFuel (data : Bytes) : Nat := 2 * data.length + 2

/-- one `LogWriter::append` call -/
def appendWrites (c : Cfg) (off : Nat) (data : Bytes) : List Bytes × Nat :=
  appendLoop c (appendFuel data) off data true

/-- `LogWriter::new`: block offset of a writer opened on a file of the given length -/
def openOffset (c : Cfg) (fileLen : Nat) : Nat := fileLen % c.B

/-- all writes of a sequence of `append` calls -/
def appendAllWrites (c : Cfg) : Nat → List Bytes → List Bytes × Nat
  | off, [] => ([], off)
  | off, r :: rs =>
    let a := appendWrites c off r
    let b := appendAllWrites c a.2 rs
    (a.1 ++ b.1, b.2)

/-- a writer session: open (append mode) on `file`, append `recs`, close -/
def writeSession (c : Cfg) (file : Bytes) (recs : List Bytes) : Bytes :=
  file ++ (appendAllWrites c (openOffset c file.length) recs).1.flatten

def writeSessions (c : Cfg) (file : Bytes) (sessions : List (List Bytes)) : Bytes :=
  sessions.foldl (writeSession c) file

/-- a session whose process died after `k` calls to `write_all` -/
def writeSessionCut (c : Cfg) (file : Bytes) (recs : List Bytes) (k : Nat) : Bytes :=
  file ++ ((appendAllWrites c (openOffset c file.length) recs).1.take k).flatten

/-! ### Reader -/

inductive PRes where
  | eof
  | bad (rest : Bytes) (boff : Nat)
  | ok (ty : Nat) (data : Bytes) (rest : Bytes) (boff : Nat)
  deriving Repr, DecidableEq

/--
`LogReader::read_physical_record`. `rest` = bytes from the file cursor on, `boff` =
`current_block_offset`.
-/
def readPhysical (c : Cfg) (rest : Bytes) (boff : Nat) : PRes :=
  let t := c.B - boff
  let skip : Bool := t < H && 0 < t
  if skip && rest.length < t then .eof else
  let rest1 := if skip then rest.drop t else rest
  let boff1 := if skip then 0 else boff
  if rest1.length < H then .eof else
  let hdr := rest1.take H
  let len := leVal ((hdr.drop 4).take 2)
  let body := rest1.drop H
  if body.length < len then .eof else
  let data := body.take len
  let rest2 := body.drop len
  let ty := (hdr.getD 6 0).toNat
  let boff2 := (boff1 + H + len) % c.B
  if 3 < ty then .bad rest2 boff2
  else if unmaskCrc (leVal (hdr.take 4)) ≠ c.crc data then .bad rest2 boff2
  else .ok ty data rest2 boff2

inductive RRes where
  | eof
  | record (data : Bytes) (rest : Bytes) (boff : Nat)
  deriving Repr, DecidableEq

/--
`LogReader::read_record`: the fragment-assembly loop. `acc` is the buffer of fragments so far,
`frag` says whether a `First` fragment has been seen (`in_fragmented_record`).
-/
def readRecordLoop (c : Cfg) : Nat → Bytes → Nat → Bytes → Bool → RRes
  | 0, _, _, _, _ => .eof
  | fuel+1, rest, boff, acc, frag =>
    match readPhysical c rest boff with
    | .eof => .eof
    | .bad rest' boff' => readRecordLoop c fuel rest' boff' [] false
    | .ok ty data rest' boff' =>
      if ty = TFull then .record data rest' boff'
      else if ty = TFirst then readRecordLoop c fuel rest' boff' data true
      else if ty = TMiddle then
        (if frag then readRecordLoop c fuel rest' boff' (acc ++ data) true
         else readRecordLoop c fuel rest' boff' [] false)
      else
        (if frag then .record (acc ++ data) rest' boff'
         else readRecordLoop c fuel rest' boff' [] false)

def readRecord (c : Cfg) (rest : Bytes) (boff : Nat) : RRes :=
  readRecordLoop c (rest.length + 1) rest boff [] false

/-- every record until end of file -/
def readAllLoop (c : Cfg) : Nat → Bytes → Nat → List Bytes
  | 0, _, _ => []
  | fuel+1, rest, boff =>
    match readRecord c rest boff with
    | .eof => []
    | .record d rest' boff' => d :: readAllLoop c fuel rest' boff'

def readAll (c : Cfg) (file : Bytes) : List Bytes :=
  readAllLoop c (file.length + 1) file 0

/-! ### `was_read_cleanly_to_end` (decides whether recovery may append to the log) -/

inductive RResS where
  /-- end of file; `clean` = nothing left over, no unfinished record pending, nothing skipped -/
  | eof (clean : Bool)
  | record (data : Bytes) (rest : Bytes) (boff : Nat) (skipped : Bool)
  deriving Repr, DecidableEq

/-- `read_record` with the bookkeeping of `has_skipped_data`; at end of file the cursor equals
the file length exactly when no bytes remain after the last complete fragment or (completely
present) trailer -/
def readRecordLoopS (c : Cfg) : Nat → Bytes → Nat → Bytes → Bool → Bool → RResS
  | 0, _, _, _, _, _ => .eof false
  | fuel+1, rest, boff, acc, frag, skipped =>
    match readPhysical c rest boff with
    | .eof =>
      -- the cursor equals the file length iff nothing is left after a fully present trailer
      let t := c.B - boff
      let leftover := if t < H && 0 < t && decide (t ≤ rest.length) then rest.drop t else rest
      .eof (leftover.isEmpty && !frag && !skipped)
    | .bad rest' boff' => readRecordLoopS c fuel rest' boff' [] false true
    | .ok ty data rest' boff' =>
      if ty = TFull then .record data rest' boff' (skipped || frag)
      else if ty = TFirst then readRecordLoopS c fuel rest' boff' data true (skipped || frag)
      else if ty = TMiddle then
        (if frag then readRecordLoopS c fuel rest' boff' (acc ++ data) true skipped
         else readRecordLoopS c fuel rest' boff' [] false true)
      else
        (if frag then .record (acc ++ data) rest' boff' skipped
         else readRecordLoopS c fuel rest' boff' [] false true)

def readAllLoopS (c : Cfg) : Nat → Bytes → Nat → Bool → List Bytes × Bool
  | 0, _, _, _ => ([], false)
  | fuel+1, rest, boff, skipped =>
    match readRecordLoopS c (rest.length + 1) rest boff [] false skipped with
    | .eof clean => ([], clean)
    | .record d rest' boff' sk =>
      let r := readAllLoopS c fuel rest' boff' sk
      (d :: r.1, r.2)

/-- all records and the value of `was_read_cleanly_to_end` afterwards -/
def readAllS (c : Cfg) (file : Bytes) : List Bytes × Bool :=
  readAllLoopS c (file.length + 1) file 0 false

end Rain.Log
