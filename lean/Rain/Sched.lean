/-
Background-work scheduling protocol (C09): the flag / task-channel / condition-variable protocol
between clients and the compaction thread.

Code modelled (every step is one critical section of the database mutex):
* `DB::should_schedule_compaction` + `CompactionWorker::schedule_task`      → `maybeSchedule`
* `DB::make_room_for_write`: memtable rotation (requires no immutable memtable), the two waits
  (`maybe_immutable_memtable.is_some()` and `num_level_zero_files >= L0_STOP_WRITES_TRIGGER`)
* `DB::compact_range` → `force_level_compaction`: registers a manual compaction and waits for it
* a read that exhausts a file's seek allowance (`Version::update_stats`) adds compaction work
* the worker thread: takes a task from the channel, runs `compaction_task` (flush if there is an
  immutable memtable, else a manual / size / seek compaction, or nothing when shutting down or in
  a bad state), clears the flag, `notify_all`s, and re-schedules itself while work remains
* `Drop for DB`: sets the shutting-down flag and waits while the flag says work is scheduled

Abstractions: the amount of table-compaction work is a natural number `work`
(`needs_compaction ⇔ work > 0`); a flush may add at most `flushCost` to it, a table compaction
decreases it (the existence of such a potential is an ASSUMPTION about compaction picking, stated
in the trusted base); `l0` is the number of level-0 files and `l0 ≥ l0Trigger → work > 0`.
Blocked threads are counted, not identified: `waiters` threads sit in `Condvar::wait`.
-/
namespace Rain.Sched

/-- parameters: `L0_COMPACTION_TRIGGER`, `L0_STOP_WRITES_TRIGGER`, bounds on the compaction work one
flush / one round of a manual compaction can add -/
structure Params where
  l0Trigger : Nat
  l0Stop : Nat
  flushCost : Nat
  manualCost : Nat
  deriving Repr, DecidableEq

structure State where
  /-- `background_compaction_scheduled` -/
  scheduled : Bool
  /-- compaction tasks sent to the worker's channel and not yet started -/
  tasks : Nat
  /-- the worker is inside `compaction_task` -/
  running : Bool
  /-- an immutable memtable exists -/
  imm : Bool
  /-- rounds a registered manual compaction still needs (0 = none registered) -/
  manual : Nat
  /-- outstanding table-compaction work (0 ⇔ `!needs_compaction()`) -/
  work : Nat
  /-- number of level-0 files -/
  l0 : Nat
  /-- sticky background error -/
  bad : Bool
  shutting : Bool
  /-- threads blocked in `background_work_finished_signal.wait` -/
  waiters : Nat
  deriving Repr, DecidableEq

def init : State :=
  { scheduled := false, tasks := 0, running := false, imm := false, manual := 0, work := 0,
    l0 := 0, bad := false, shutting := false, waiters := 0 }

/-- is there anything for the background thread to do? -/
def hasWork (s : State) : Bool := s.imm || decide (0 < s.manual) || decide (0 < s.work)

/-- `should_schedule_compaction` followed by `schedule_task` -/
def maybeSchedule (s : State) : State :=
  if s.scheduled || s.shutting || s.bad || !hasWork s then s
  else { s with scheduled := true, tasks := s.tasks + 1 }

/-- the condition a writer in `make_room_for_write` waits on -/
def writerBlocked (p : Params) (s : State) : Bool :=
  !s.bad && (s.imm || decide (p.l0Stop ≤ s.l0))

/-- what one run of `coordinate_compaction` did -/
inductive Outcome where
  /-- the immutable memtable was written to a table: `dl0` new level-0 files (0 or 1), `dwork` ≤ flushCost -/
  | flushed (dl0 : Nat) (dwork : Nat)
  /-- one round of the registered manual compaction; it may add `dwork` ≤ manualCost and shrink level 0 -/
  | manualRound (dwork : Nat) (dl0 : Nat)
  /-- a size- or seek-triggered table compaction: `work` decreases by `dec ≥ 1`, level 0 shrinks by `dl0` -/
  | compacted (dec : Nat) (dl0 : Nat)
  /-- nothing was done (shutting down, bad state, or nothing to do) -/
  | nothing
  /-- an I/O error: sticky bad state -/
  | failed
  deriving Repr, DecidableEq

inductive Step where
  /-- `make_room_for_write`: rotate the memtable (only when there is no immutable memtable) -/
  | rotate
  /-- a reader used up a file's seek allowance -/
  | seekWork
  /-- `force_level_compaction`: register a manual compaction needing `rounds ≥ 1` rounds -/
  | requestManual (rounds : Nat)
  /-- any client calls `should_schedule_compaction` / `schedule_task` (e.g. at the end of `DB::open`) -/
  | poke
  /-- a thread enters `Condvar::wait` (writer blocked, manual compaction pending, or drop while scheduled) -/
  | wait
  /-- the worker takes a task from the channel -/
  | workerStart
  /-- the worker finishes `compaction_task` -/
  | workerFinish (o : Outcome)
  /-- `Drop for DB` sets the shutting-down flag -/
  | shutdown
  deriving Repr, DecidableEq

/-- may a thread be blocked in `wait` in this state? (the loop conditions around the three waits) -/
def mayWait (p : Params) (s : State) : Bool :=
  -- `Drop` runs when no client holds the database any more: after `shutdown` only the drop waits
  if s.shutting then s.scheduled
  else writerBlocked p s || (decide (0 < s.manual) && !s.bad)

/-- level-0 pressure counts as compaction work: outcomes keep `l0Trigger ≤ l0 → 0 < work` -/
def pressureOk (p : Params) (l0 work : Nat) : Bool := decide (p.l0Trigger ≤ l0 → 0 < work)

def enabled (p : Params) (s : State) : Step → Bool
  | .rotate => !s.imm && !s.bad && !s.shutting
  | .seekWork => !s.shutting
  | .requestManual rounds => decide (s.manual = 0) && decide (0 < rounds) && !s.shutting
  | .poke => true
  | .wait => mayWait p s
  | .workerStart => decide (0 < s.tasks) && !s.running
  | .workerFinish o =>
    s.running &&
    (if s.shutting || s.bad || !hasWork s then o == .nothing
     else match o with
      | .flushed dl0 dwork =>
        s.imm && decide (dl0 ≤ 1) && decide (dwork ≤ p.flushCost) && pressureOk p (s.l0 + dl0) (s.work + dwork)
      | .manualRound dwork dl0 =>
        !s.imm && decide (0 < s.manual) && decide (dwork ≤ p.manualCost) && decide (dl0 ≤ s.l0) &&
        pressureOk p (s.l0 - dl0) (s.work + dwork)
      | .compacted dec dl0 =>
        !s.imm && decide (s.manual = 0) && decide (0 < dec) && decide (dec ≤ s.work) && decide (dl0 ≤ s.l0) &&
        pressureOk p (s.l0 - dl0) (s.work - dec)
      | .nothing => false
      | .failed => true)
  | .shutdown => !s.shutting

/-- effect of `coordinate_compaction` -/
def coordinate (s : State) : Outcome → State
  | .flushed dl0 dwork => { s with imm := false, l0 := s.l0 + dl0, work := s.work + dwork }
  | .manualRound dwork dl0 => { s with manual := s.manual - 1, l0 := s.l0 - dl0, work := s.work + dwork }
  | .compacted dec dl0 => { s with work := s.work - dec, l0 := s.l0 - dl0 }
  | .nothing => s
  | .failed => { s with bad := true }

def apply (s : State) : Step → State
  | .rotate => maybeSchedule { s with imm := true }
  | .seekWork => maybeSchedule { s with work := s.work + 1 }
  | .requestManual rounds => maybeSchedule { s with manual := rounds }
  | .poke => maybeSchedule s
  | .wait => { s with waiters := s.waiters + 1 }
  | .workerStart => { s with tasks := s.tasks - 1, running := true }
  | .workerFinish o =>
    -- coordinate; clear the flag; notify_all; re-schedule while work remains
    maybeSchedule { coordinate s o with scheduled := false, running := false, waiters := 0 }
  | .shutdown => { s with shutting := true }

def run (p : Params) (s : State) : List Step → Option State
  | [] => some s
  | st :: rest => if enabled p s st then run p (apply s st) rest else none

inductive Reachable (p : Params) : State → Prop where
  | init : Reachable p init
  | step (s : State) (st : Step) : Reachable p s → enabled p s st = true → Reachable p (apply s st)

/-- the executable invariant -/
def inv (p : Params) (s : State) : Bool :=
  -- the flag is set exactly while a task is queued or running; at most one task is queued or running
  (s.scheduled == (decide (0 < s.tasks) || s.running)) && decide (s.tasks ≤ 1) &&
  !(decide (0 < s.tasks) && s.running) &&
  -- work is never left unscheduled
  (if !s.bad && !s.shutting && hasWork s then s.scheduled else true) &&
  -- level-0 pressure is compaction work
  pressureOk p s.l0 s.work &&
  -- nobody sleeps without somebody to wake them
  (if 0 < s.waiters then s.scheduled else true)

/-- the part of `inv` that is observable in a state dump of the real database (`verif_state`):
flag, immutable memtable, manual request, `needs_compaction`, bad state, shutting down -/
def invObservable (scheduled imm manual needs bad shutting : Bool) : Bool :=
  if !bad && !shutting && (imm || manual || needs) then scheduled else true

/-- the potential that the worker decreases -/
def potential (p : Params) (s : State) : Nat :=
  (if s.imm then p.flushCost + 1 else 0) + s.manual * (p.manualCost + 1) + s.work

def isWorkerStep : Step → Bool
  | .workerStart => true
  | .workerFinish _ => true
  | _ => false

/-- nothing is scheduled and nothing needs to be: every wait condition is false, or the error /
shutdown is what the waiter sees -/
def quiescent (s : State) : Bool := !s.scheduled && (s.bad || s.shutting || !hasWork s)

end Rain.Sched
