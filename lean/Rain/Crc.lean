import Rain.Bytes
/-
Concrete CRC-32C (Castagnoli, reflected, init/xorout 0xffffffff) — the `crc` crate's
`CRC_32_ISCSI`.  Used only by the driver for byte-exact comparison with the implementation;
the theorems take the checksum function as a parameter.
-/
namespace Rain

def crcStep (c : UInt32) : UInt32 :=
  if c &&& 1 == 1 then (c >>> 1) ^^^ 0x82F63B78 else c >>> 1

def crcByteTable : Array UInt32 :=
  (Array.range 256).map fun i =>
    let c := i.toUInt32
    crcStep (crcStep (crcStep (crcStep (crcStep (crcStep (crcStep (crcStep c)))))))

def crcUpdate (tbl : Array UInt32) (c : UInt32) (b : UInt8) : UInt32 :=
  (tbl[((c ^^^ b.toUInt32) &&& 0xff).toNat]!) ^^^ (c >>> 8)

def crc32cTable : Array UInt32 := crcByteTable

/-- CRC-32C of a byte list as a natural number below 2^32. -/
def crc32c (bs : Bytes) : Nat :=
  let tbl := crc32cTable
  ((bs.foldl (crcUpdate tbl) 0xFFFFFFFF) ^^^ 0xFFFFFFFF).toNat

end Rain
