import Rain.Durable
namespace Rain.Durable
open Rain Rain.Lsm

/-- no file number occurs twice in an image (the maps are association lists) -/
def WF (d : Disk) : Prop :=
  (d.manifests.map Prod.fst).Nodup ∧ (d.wals.map Prod.fst).Nodup ∧ (d.tables.map Prod.fst).Nodup

/-- the image recovers, and to exactly the contents the acknowledged batches `bs` describe -/
def Safe (d : Disk) (bs : List WBatch) : Prop :=
  WF d ∧ ∃ r, recover d = some r ∧ ∀ k, latest r.entries k = specOfBatches bs k

end Rain.Durable
