import Rain.Lsm
/-
Specification-level definitions over the LSM model used by the property theorems
(`Rain/Props/Lsm.lean`) and their lemmas.
-/
namespace Rain.Lsm

def Inv (s : State) : Prop := invB s = true

/-- smallest snapshot a rearranging action must respect (0 = none) -/
def Action.floor : Action → Nat
  | .compact c => c.smallestSnapshot
  | _ => 0

def Action.isWrite : Action → Bool
  | .write _ => true
  | _ => false

/-- the abstract map after the writes of an action list -/
def specOf (acts : List Action) : Bytes → Option Bytes :=
  acts.foldl (fun m a => match a with | .write ops => specApply m ops | _ => m) (fun _ => none)

/-- C10 as the property states it: what the invariant says about the reported shape -/
structure WellFormed (s : State) : Prop where
  seven : s.levels.length = 7
  bounds : ∀ f ∈ s.levels.flatten, f.entries ≠ [] ∧ sortedE f.entries = true ∧
    f.entries.head?.map Entry.key = some f.smallest ∧ lastKey f.entries = some f.largest ∧
    (kLt f.largest f.smallest = false)
  disjoint : ∀ fs ∈ s.levels.drop 1, levelSorted fs = true
  distinct : distinctNums (s.levels.flatten.map File.num) = true

end Rain.Lsm
