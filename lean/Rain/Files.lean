/-
Model of file retention (C11): the version list with reference counts
(`utils/linked_list.rs` + `VersionSet::{append_new_version, release_version, get_live_files}`),
the set of tables protected because they are being written (`tables_in_use`), and
`DB::remove_obsolete_files`.
-/
namespace Rain.Files

structure Version where
  id : Nat
  tables : List Nat
  /-- references held outside the version set: readers (`get`), iterators, compaction inputs -/
  refs : Nat
  deriving DecidableEq, Repr

structure Dir where
  tables : List Nat
  wals : List Nat
  manifests : List Nat
  temps : List Nat
  deriving DecidableEq, Repr

structure State where
  /-- linked versions, oldest first; the last one is the current version -/
  versions : List Version
  /-- `tables_in_use`: outputs of running flushes / compactions -/
  inUse : List Nat
  walNo : Nat
  prevWal : Option Nat
  manifestNo : Nat
  /-- sticky background error: deletion is skipped -/
  bad : Bool
  dir : Dir
  nextId : Nat
  deriving Repr

def current (s : State) : Option Version := s.versions.getLast?

inductive Step where
  /-- `get_current_version()` by a reader / iterator / compaction: one more external reference -/
  | acquire
  /-- `release_version(v)`: one reference fewer; a non-current version without references is unlinked -/
  | release (vid : Nat)
  /-- a version reference is dropped WITHOUT `release_version` (the defect D10, kept to state what
      goes wrong; the repaired code has no such step) -/
  | leak (vid : Nat)
  /-- `log_and_apply`: a new current version (tables `ts`, WAL number `w`); the previous current
      version is unlinked if nobody references it -/
  | install (ts : List Nat) (w : Nat) (prev : Option Nat)
  /-- a table starts being written: protected and present on disk -/
  | beginOutput (t : Nat)
  | endOutput (t : Nat)
  /-- `remove_obsolete_files` -/
  | removeObsolete
  deriving Repr

def liveTables (s : State) : List Nat := (s.versions.map Version.tables).flatten ++ s.inUse

def keepWal (s : State) (n : Nat) : Bool := decide (s.walNo ≤ n) || s.prevWal == some n

def clean (s : State) : Dir :=
  { tables := s.dir.tables.filter fun t => (liveTables s).contains t,
    wals := s.dir.wals.filter (keepWal s),
    manifests := s.dir.manifests.filter fun m => decide (s.manifestNo ≤ m),
    temps := s.dir.temps.filter fun t => (liveTables s).contains t }

def unlinkIfFree (vs : List Version) (vid : Nat) (isCurrent : Bool) : List Version :=
  vs.filter fun v => !(v.id == vid && v.refs == 0 && !isCurrent)

def step (s : State) : Step → Option State
  | .acquire =>
    match s.versions.reverse with
    | [] => none
    | c :: older => some { s with versions := (({ c with refs := c.refs + 1 }) :: older).reverse }
  | .release vid =>
    match s.versions.find? (fun v => v.id == vid) with
    | none => none
    | some v =>
      if v.refs = 0 then none else
      let isCur := (current s).map Version.id == some vid
      let vs := s.versions.map fun x => if x.id == vid then { x with refs := x.refs - 1 } else x
      some { s with versions := unlinkIfFree vs vid isCur }
  | .leak vid =>
    -- the reference disappears from the program but the count is never decremented
    if s.versions.any (fun v => v.id == vid && decide (0 < v.refs)) then some s else none
  | .install ts w prev =>
    match current s with
    | none => some { s with versions := [{ id := s.nextId, tables := ts, refs := 0 }], walNo := w, prevWal := prev, nextId := s.nextId + 1 }
    | some c =>
      let vs := unlinkIfFree s.versions c.id false
      some { s with versions := vs ++ [{ id := s.nextId, tables := ts, refs := 0 }], walNo := w, prevWal := prev,
                    nextId := s.nextId + 1 }
  | .beginOutput t =>
    some { s with inUse := s.inUse ++ [t], dir := { s.dir with tables := s.dir.tables ++ [t] } }
  | .endOutput t => some { s with inUse := s.inUse.filter (· ≠ t) }
  | .removeObsolete => if s.bad then some s else some { s with dir := clean s }

def run (s : State) : List Step → Option State
  | [] => some s
  | a :: rest => match step s a with
    | some s' => run s' rest
    | none => none

def noLeak : List Step → Bool
  | [] => true
  | .leak _ :: _ => false
  | _ :: rest => noLeak rest

end Rain.Files
