import Rain.Lsm
import Rain.Generated.Constants
/-
Model of `src/key.rs` (internal-key encoding, separator, successor), `src/utils/bytes.rs`
(`find_shortest_separator`, `find_shortest_successor`), `src/tables/block_builder.rs` and
`src/tables/block.rs` (`BlockReader::new`: eager decode).
-/
namespace Rain.Block
open Rain Rain.Lsm

/-- `MAX_SEQUENCE_NUMBER` = `u64::MAX` -/
def MAXSEQ : Nat := 2^64 - 1

/-! ### varint (LEB128, `integer-encoding`) -/

def varintFuel : Nat → Nat → Bytes
  | 0, _ => []
  | fuel+1, n => if n < 128 then [n.toUInt8] else (n % 128 + 128).toUInt8 :: varintFuel fuel (n / 128)

/-- `encode_var_vec`; 10 groups suffice for 64-bit values -/
def varint (n : Nat) : Bytes := varintFuel 10 n

/-- `decode_var`: value and number of bytes read; `none` if the buffer ends inside the number -/
def unvarint : Bytes → Option (Nat × Nat)
  | [] => none
  | b :: rest =>
    if b.toNat < 128 then some (b.toNat, 1)
    else match unvarint rest with
      | some (v, n) => some (b.toNat - 128 + 128 * v, n + 1)
      | none => none

/-! ### internal keys -/

/-- `InternalKey::as_bytes`: user key, 8-byte little-endian sequence number, operation tag -/
def encodeKey (e : Entry) : Bytes := e.ukey ++ leBytes 8 e.seq ++ [if e.put then 1 else 0]

/-- `InternalKey::try_from`: `(user key, seq, put)`; `none` for a short buffer or a bad tag -/
def decodeKey (b : Bytes) : Option (Bytes × Nat × Bool) :=
  if b.length < 9 then none else
  let u := b.take (b.length - 9)
  let s := leVal ((b.drop (b.length - 9)).take 8)
  let t := (b.getD (b.length - 1) 0).toNat
  if t = 1 then some (u, s, true) else if t = 0 then some (u, s, false) else none

/-- `find_shortest_separator` for byte strings -/
def sepLoop : Bytes → Bytes → Bytes → Bytes
  | a :: as, b :: bs, acc =>
    if a == b then sepLoop as bs (acc ++ [a])
    else if a.toNat < 255 ∧ a.toNat + 1 < b.toNat then acc ++ [(a.toNat + 1).toUInt8]
    else acc ++ a :: as
  | as, _, acc => acc ++ as    -- one is a prefix of the other: return `smaller`

def bytesSep (smaller greater : Bytes) : Bytes := sepLoop smaller greater []

/-- `find_shortest_successor` for byte strings -/
def bytesSucc : Bytes → Bytes
  | [] => []
  | b :: rest => if b.toNat ≠ 255 then [(b.toNat + 1).toUInt8] else b :: bytesSucc rest

/-- `find_shortest_separator` for internal keys, as a `(user key, seq)` pair -/
def keySep (a b : Bytes × Nat) : Bytes × Nat :=
  let s := bytesSep a.1 b.1
  if s.length < a.1.length ∧ bytesLt a.1 s then (s, MAXSEQ) else a

/-- `find_shortest_successor` for internal keys -/
def keySucc (a : Bytes × Nat) : Bytes × Nat :=
  let s := bytesSucc a.1
  if s.length < a.1.length ∧ bytesLt a.1 s then (s, MAXSEQ) else a

/-! ### block builder -/

def commonPrefix : Bytes → Bytes → Nat
  | a :: as, b :: bs => if a == b then commonPrefix as bs + 1 else 0
  | _, _ => 0

structure Builder where
  buf : Bytes := []
  restarts : List Nat := [0]
  count : Nat := 0
  lastKey : Bytes := []

/-- `BlockBuilder::add_entry` with restart interval `r` -/
def addEntry (r : Nat) (b : Builder) (key val : Bytes) : Builder :=
  let restart := !(decide (b.count < r))
  let shared := if restart then 0 else commonPrefix b.lastKey key
  let restarts := if restart then b.restarts ++ [b.buf.length] else b.restarts
  let count := if restart then 0 else b.count
  { buf := b.buf ++ varint shared ++ varint (key.length - shared) ++ varint val.length ++
      key.drop shared ++ val,
    restarts := restarts, count := count + 1, lastKey := key }

/-- `BlockBuilder::finalize` -/
def finalize (b : Builder) : Bytes :=
  b.buf ++ (b.restarts.map (leBytes 4)).flatten ++ leBytes 4 b.restarts.length

/-- `approximate_size` -/
def approxSize (b : Builder) : Nat := b.buf.length + 4 * b.restarts.length + 4

/-- serialized block for a list of (key bytes, value) pairs -/
def encodeRaw (r : Nat) (kvs : List (Bytes × Bytes)) : Bytes :=
  finalize (kvs.foldl (fun b kv => addEntry r b kv.1 kv.2) {})

def encodeBlock (r : Nat) (es : List Entry) : Bytes :=
  encodeRaw r (es.map fun e => (encodeKey e, e.val))

/-! ### block reader -/

/-- `deserialize_entries`: `fuel` bounds the number of entries; restart bookkeeping is checked
the way the code does (offset equals the next recorded restart offset and shared = 0) -/
def decodeLoop : Nat → Bytes → Nat → Bytes → List Nat → List (Bytes × Bytes) →
    Option (List (Bytes × Bytes) × List Nat)
  | 0, buf, _, _, rs, acc => if buf.isEmpty then some (acc.reverse, rs) else none
  | fuel+1, buf, off, last, rs, acc =>
    if buf.isEmpty then some (acc.reverse, rs) else
    match unvarint buf with
    | none => none
    | some (shared, n1) =>
      match unvarint (buf.drop n1) with
      | none => none
      | some (unshared, n2) =>
        match unvarint (buf.drop (n1 + n2)) with
        | none => none
        | some (vlen, n3) =>
          let hdr := n1 + n2 + n3
          if buf.length < hdr + unshared + vlen then none else
          let delta := (buf.drop hdr).take unshared
          let key := last.take shared ++ delta
          let val := (buf.drop (hdr + unshared)).take vlen
          let rs' := match rs with
            | r :: rest => if off = r ∧ shared = 0 then rest else rs
            | [] => []
          decodeLoop fuel (buf.drop (hdr + unshared + vlen)) (off + hdr + unshared + vlen) key rs'
            ((key, val) :: acc)

def chunks4 : Nat → Bytes → List Nat
  | 0, _ => []
  | n+1, bs => leVal (bs.take 4) :: chunks4 n (bs.drop 4)

/-- `BlockReader::new` on raw bytes: the (key bytes, value) pairs; `none` = parse error -/
def decodeRaw (raw : Bytes) : Option (List (Bytes × Bytes)) :=
  if raw.length < 4 then none else
  let nres := leVal (raw.drop (raw.length - 4))
  if raw.length < (1 + nres) * 4 then none else
  let restartOff := raw.length - (1 + nres) * 4
  let restarts := chunks4 nres ((raw.drop restartOff).take (nres * 4))
  match decodeLoop (restartOff + 1) (raw.take restartOff) 0 [] restarts [] with
  | some (kvs, []) => some kvs          -- every recorded restart offset was matched
  | _ => none

/-- data / index block: keys must parse as internal keys -/
def decodeBlock (raw : Bytes) : Option (List Entry) :=
  match decodeRaw raw with
  | none => none
  | some kvs =>
    kvs.mapM fun kv =>
      match decodeKey kv.1 with
      | some (u, s, p) => some { ukey := u, seq := s, put := p, val := kv.2 }
      | none => none

end Rain.Block
