import Rain.Pick
import Rain.FlushLevel
import Rain.Generated.Constants
/-
Model of MANUAL compaction, `DB::compact_range(lo..hi)`:

* `db.rs DB::compact_range`: the deepest level (1 ..= 6) holding a file that overlaps the range
  (`Version::has_overlap_in_level` with optional bounds, `maxLevelWithOverlap`), then — after the
  forced memtable flush, which is the `rotate`/`flush` pair of the LSM model — one
  `force_level_compaction(level, range)` for every level below it (`manualLevels`);
* `db.rs DB::force_level_compaction`: the request `ManualReq` (`ManualCompactionConfiguration`:
  level, `begin` = `(lo, MAX_SEQUENCE_NUMBER)`, `end` = `(hi, 0)`, `done`) is handed to the
  compaction thread again and again until it is `done`;
* `compaction/worker.rs` (manual branch) + `version_set.rs VersionSet::compact_range`: one ROUND —
  the files of the level overlapping `begin..end` (`Rain.Pick.overlapping`), at a level ≥ 1 cut
  to the shortest prefix whose sizes reach `max_file_size` (`sizeCut`), completed by
  `finalize_compaction_inputs` (`Rain.Pick.setupOtherInputs`); no file = the request is done;
  otherwise the compaction runs and `begin` becomes the largest key of the LAST level-`L` input.

`Rain/Props/Manual.lean`: every round's compaction is a valid compaction of the LSM model (so it
changes no read: C07), a request finishes after at most as many rounds as the level has files and
can always make its next round (C09), and the levels handed to `force_level_compaction` satisfy
its assertion `level + 1 < MAX_NUM_LEVELS` (C09).
-/
namespace Rain.Manual
open Rain Rain.Lsm Rain.FlushLevel Rain.BinSearch

/-- `Version::some_file_overlaps_range` with optional bounds (`None` = before / after all keys) -/
def someFileOverlapsO (disjoint : Bool) (fs : List File) (lo hi : Option Bytes) : Bool :=
  if fs.isEmpty then false
  else if !disjoint then
    fs.any fun f =>
      !((match lo with | some l => bytesLt f.largest.1 l | none => false) ||
        (match hi with | some h => bytesLt h f.smallest.1 | none => false))
  else
    let idx : Option Nat :=
      match lo with
      | some l => findFile fs (l, maxSeqNo)
      | none => some 0
    match idx with
    | none => false
    | some i =>
      match hi with
      | none => true
      | some h =>
        match fs[i]? with
        | some f => !bytesLt h f.smallest.1
        | none => false

/-- `Version::has_overlap_in_level(level, lo, hi)` -/
def hasOverlapInLevelO (levels : List (List File)) (l : Nat) (lo hi : Option Bytes) : Bool :=
  someFileOverlapsO (decide (0 < l)) (levels.getD l []) lo hi

/-- the first loop of `DB::compact_range`: `max_level_with_files_for_compaction`, starting at 1,
over `1 .. MAX_NUM_LEVELS` -/
def maxLevelWithOverlap (levels : List (List File)) (lo hi : Option Bytes) : Nat :=
  ((List.range (Rain.Gen.MAX_NUM_LEVELS - 1)).map (· + 1)).foldl
    (fun best l => if hasOverlapInLevelO levels l lo hi then l else best) 1

/-- the levels `force_level_compaction` is called with, in order -/
def manualLevels (levels : List (List File)) (lo hi : Option Bytes) : List Nat :=
  List.range (maxLevelWithOverlap levels lo hi)

/-- `ManualCompactionConfiguration` -/
structure ManualReq where
  level : Nat
  begin_ : Option (Bytes × Nat)
  end_ : Option (Bytes × Nat)
  done : Bool
  deriving Repr, DecidableEq

/-- the request `force_level_compaction(level, lo..hi)` builds -/
def ManualReq.start (level : Nat) (lo hi : Option Bytes) : ManualReq :=
  { level, begin_ := lo.map (·, maxSeqNo), end_ := hi.map (·, 0), done := false }

/-- the size cut of `VersionSet::compact_range` (levels ≥ 1): files are taken until the sizes
taken so far reach `limit`; `acc` = bytes taken before this list -/
def sizeCut (size : Nat → Nat) (limit : Nat) : Nat → List File → List File
  | _, [] => []
  | acc, f :: fs =>
    if limit ≤ acc + size f.num then [f] else f :: sizeCut size limit (acc + size f.num) fs

/-- what `VersionSet::compact_range` hands to `set_compaction_level_files` -/
def manualSeed (size : Nat → Nat) (maxFileSize : Nat) (levels : List (List File)) (m : ManualReq) :
    List File :=
  let xs := overlapping (levels.getD m.level []) (m.level == 0)
    (m.begin_.map Prod.fst) (m.end_.map Prod.fst)
  if m.level = 0 then xs else sizeCut size maxFileSize 0 xs

/-- `VersionSet::compact_range`: `none` = nothing overlaps the range any more; otherwise the
level-`L` and level-`L+1` inputs of the round -/
def manualInputs (size : Nat → Nat) (maxFileSize : Nat) (levels : List (List File)) (m : ManualReq) :
    Option (List File × List File) :=
  match manualSeed size maxFileSize levels m with
  | [] => none
  | f :: fs => some (setupOtherInputs size levels m.level (f :: fs) maxFileSize)

/-- what the worker writes back into the request (`done` right after the selection, `begin` after
the compaction) -/
def manualAdvance (m : ManualReq) : Option (List File × List File) → ManualReq
  | none => { m with done := true }
  | some sel =>
    match sel.1.getLast? with
    | some f => { m with begin_ := some f.largest }
    | none => m

/-- A run of one request to its end: the compactions it performed, each with the inputs the
selection dictates (outputs — where the merged run is cut, which numbers the files get — and the
smallest snapshot are whatever the LSM model accepts), and the state it leaves. -/
inductive ManualRun (size : Nat → Nat) (maxFileSize : Nat) :
    State → ManualReq → List Compaction → State → Prop
  | done {s : State} {m : ManualReq} :
      manualInputs size maxFileSize s.levels m = none → ManualRun size maxFileSize s m [] s
  | round {s s1 s' : State} {m : ManualReq} {sel : List File × List File} {c : Compaction}
      {cs : List Compaction} :
      manualInputs size maxFileSize s.levels m = some sel →
      c.level = m.level → c.inputs0 = sel.1.map File.num → c.inputs1 = sel.2.map File.num →
      stepCompact s c = some s1 →
      ManualRun size maxFileSize s1 (manualAdvance m (some sel)) cs s' →
      ManualRun size maxFileSize s m (c :: cs) s'

/-- any number of rounds of one request, finished or not (for the bound on the number of rounds) -/
inductive ManualRounds (size : Nat → Nat) (maxFileSize : Nat) :
    State → ManualReq → List Compaction → State → Prop
  | here {s : State} {m : ManualReq} : ManualRounds size maxFileSize s m [] s
  | round {s s1 s' : State} {m : ManualReq} {sel : List File × List File} {c : Compaction}
      {cs : List Compaction} :
      manualInputs size maxFileSize s.levels m = some sel →
      c.level = m.level → c.inputs0 = sel.1.map File.num → c.inputs1 = sel.2.map File.num →
      stepCompact s c = some s1 →
      ManualRounds size maxFileSize s1 (manualAdvance m (some sel)) cs s' →
      ManualRounds size maxFileSize s m (c :: cs) s'

/-- `DB::compact_range` after its forced flush: one finished request per level, in order -/
inductive RangeRun (size : Nat → Nat) (maxFileSize : Nat) (lo hi : Option Bytes) :
    State → List Nat → List Compaction → State → Prop
  | nil {s : State} : RangeRun size maxFileSize lo hi s [] [] s
  | cons {s s1 s' : State} {l : Nat} {ls : List Nat} {cs cs' : List Compaction} :
      ManualRun size maxFileSize s (ManualReq.start l lo hi) cs s1 →
      RangeRun size maxFileSize lo hi s1 ls cs' s' →
      RangeRun size maxFileSize lo hi s (l :: ls) (cs ++ cs') s'

end Rain.Manual
