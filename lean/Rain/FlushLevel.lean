import Rain.BinSearch
import Rain.Pick
import Rain.Generated.Constants
/-
Model of the LEVEL a flushed memtable is placed at: `versioning/version.rs`
`Version::pick_level_for_memtable_output(smallest_user_key, largest_user_key)` with
`has_overlap_in_level` = `some_file_overlaps_range` (linear scan for level 0, the binary search
`find_file_with_upper_bound_range` for the sorted, disjoint deeper levels) and the grandparent
limit `max_file_size * 10` (`compaction/utils.rs max_grandparent_overlap_bytes_from_options`) on
the bytes of level `l + 2` overlapping the new table.

`Rain/Lsm.lean stepFlush` accepts ANY level satisfying its admissibility condition (no file of
levels `0 ..= lvl` overlaps the new table's user-key range); `Rain/Props/FlushLevel.lean` proves that
the level the code computes satisfies it, for every version satisfying the invariant.

A memtable flushed from inside a running table compaction is kept at level 0 without asking this
function (repair of D22); recovery places its tables at level 0 as well.
-/
namespace Rain.FlushLevel
open Rain Rain.Lsm Rain.BinSearch

/-- `MAX_SEQUENCE_NUMBER` (`key.rs`): `new_for_seeking(k, MAX_SEQUENCE_NUMBER)` sorts before every
entry of user key `k` -/
def maxSeqNo : Nat := 18446744073709551615

/-- `Version::some_file_overlaps_range(disjoint_sorted_files, files, Some(lo), Some(hi))` -/
def someFileOverlaps (disjoint : Bool) (fs : List File) (lo hi : Bytes) : Bool :=
  if fs.isEmpty then false
  else if !disjoint then
    fs.any fun f => !(bytesLt f.largest.1 lo || bytesLt hi f.smallest.1)
  else
    match findFile fs (lo, maxSeqNo) with
    | none => false
    | some i =>
      match fs[i]? with
      | some f => !bytesLt hi f.smallest.1
      | none => false

/-- `Version::has_overlap_in_level` -/
def hasOverlapInLevel (levels : List (List File)) (l : Nat) (lo hi : Bytes) : Bool :=
  someFileOverlaps (decide (0 < l)) (levels.getD l []) lo hi

/-- the `while level < MAX_MEM_COMPACT_LEVEL` loop; `size` = file size by number, `maxGp` = the
grandparent limit -/
def pickLoop (size : Nat → Nat) (maxGp : Nat) (levels : List (List File)) (lo hi : Bytes) :
    Nat → Nat → Nat
  | 0, level => level
  | fuel + 1, level =>
    if level < Rain.Gen.MAX_MEM_COMPACT_LEVEL then
      if hasOverlapInLevel levels (level + 1) lo hi then level
      else if level + 2 < Rain.Gen.MAX_NUM_LEVELS ∧
          maxGp < sumSizes size
            (overlapping (levels.getD (level + 2) []) false (some lo) (some hi)) then level
      else pickLoop size maxGp levels lo hi fuel (level + 1)
    else level

/-- `Version::pick_level_for_memtable_output` -/
def pickLevel (size : Nat → Nat) (maxFileSize : Nat) (levels : List (List File)) (lo hi : Bytes) : Nat :=
  if hasOverlapInLevel levels 0 lo hi then 0
  else pickLoop size (maxFileSize * Rain.Gen.GRANDPARENT_OVERLAP_MULTIPLIER) levels lo hi Rain.Gen.MAX_MEM_COMPACT_LEVEL 0

end Rain.FlushLevel
