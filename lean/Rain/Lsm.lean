import Rain.Bytes
/-
Model of RainDB's LSM read path and of the state transitions that rearrange data:
`db.rs` (`DB::get`), `memtable.rs` (`get`), `versioning/version.rs` (`Version::get`,
`get_overlapping_files`), `versioning/utils.rs` (`find_file_with_upper_bound_range`),
`compaction/worker.rs` (`compact_memtable`, `compact_tables` drop rule, trivial move),
`compaction/manifest.rs` (`is_base_level_for_key`), `versioning/version_builder.rs` (where new
files are inserted).

A table file is modelled by the sorted list of its entries; `lookupSorted` is the specification of
`Table::get` and `MemTable::get` (that the byte-level table meets it is property C13; that filters
never cut a lookup short is C14).  Thresholds (memtable, file and block sizes) are NOT in the
model: a step may rotate, flush, cut output files or pick inputs in any way that satisfies the
validity predicates below, so the theorems cover every `DbOptions`.

Deviation: `find_file_with_upper_bound_range` is a binary search over `largest`; the model takes
the first file whose `largest` is not below the target.  The two agree whenever the level is
sorted, which is part of the invariant.
-/
namespace Rain.Lsm
open Rain

/-- lexicographic `<` on byte strings -/
def bytesLt (a b : Bytes) : Bool := cmpBytes a b == .lt

structure Entry where
  ukey : Bytes
  seq : Nat
  /-- `true` = Put, `false` = Delete -/
  put : Bool
  val : Bytes
  deriving DecidableEq, Repr

/-- internal-key order: user key ascending, sequence number descending (`InternalKey::cmp`) -/
def kLt (a b : Bytes × Nat) : Bool :=
  bytesLt a.1 b.1 || (a.1 == b.1 && decide (b.2 < a.2))

def Entry.key (e : Entry) : Bytes × Nat := (e.ukey, e.seq)

def ikLt (a b : Entry) : Bool := kLt a.key b.key

/-- strictly sorted by the internal-key order -/
def sortedE : List Entry → Bool
  | [] => true
  | [_] => true
  | a :: b :: rest => ikLt a b && sortedE (b :: rest)

/-- `e` is at or after the seek target `(k, snap)` -/
def geTarget (e : Entry) (k : Bytes) (snap : Nat) : Bool := !kLt e.key (k, snap)

inductive Lookup where
  | found (v : Bytes)
  | deleted
  | absent
  deriving DecidableEq, Repr

/-- specification of `MemTable::get` / `Table::get`: seek to the first entry at or after
`(k, snap)`; same user key ⇒ its value or "deleted", otherwise "not here" -/
def lookupSorted (es : List Entry) (k : Bytes) (snap : Nat) : Lookup :=
  match es.find? (fun e => geTarget e k snap) with
  | some e => if e.ukey == k then (if e.put then .found e.val else .deleted) else .absent
  | none => .absent

structure File where
  num : Nat
  smallest : Bytes × Nat
  largest : Bytes × Nat
  entries : List Entry
  deriving DecidableEq, Repr

structure State where
  mem : List Entry
  imm : Option (List Entry)
  /-- level 0 … 6 -/
  levels : List (List File)
  lastSeq : Nat
  deriving Repr

/-- insertion sort of level-0 candidates by file number, newest (largest number) first -/
def insertDesc (f : File) : List File → List File
  | [] => [f]
  | g :: gs => if g.num < f.num then f :: g :: gs else g :: insertDesc f gs

def sortDesc : List File → List File
  | [] => []
  | f :: fs => insertDesc f (sortDesc fs)

/-- `get_overlapping_files`, level 0: files whose user-key range contains `k`, newest first -/
def l0Candidates (fs : List File) (k : Bytes) : List File :=
  sortDesc (fs.filter fun f => !bytesLt k f.smallest.1 && !bytesLt f.largest.1 k)

/-- `get_overlapping_files`, level ≥ 1: the first file whose largest key is ≥ the target, if its
smallest user key is ≤ `k` -/
def levelCandidate (fs : List File) (k : Bytes) (snap : Nat) : Option File :=
  match fs.find? (fun f => !kLt f.largest (k, snap)) with
  | some f => if !bytesLt k f.smallest.1 then some f else none
  | none => none

def firstHit : List Lookup → Lookup
  | [] => .absent
  | .absent :: rest => firstHit rest
  | r :: _ => r

/-- `Version::get` -/
def versionGet (levels : List (List File)) (k : Bytes) (snap : Nat) : Lookup :=
  match levels with
  | [] => .absent
  | l0 :: deeper =>
    firstHit (((l0Candidates l0 k).map fun f => lookupSorted f.entries k snap) ++
      deeper.map fun fs =>
        match levelCandidate fs k snap with
        | some f => lookupSorted f.entries k snap
        | none => .absent)

/-- `DB::get` at sequence bound `snap`: memtable, immutable memtable, current version -/
def dbGet (s : State) (k : Bytes) (snap : Nat) : Option Bytes :=
  match firstHit [lookupSorted s.mem k snap,
                  (match s.imm with | some es => lookupSorted es k snap | none => .absent),
                  versionGet s.levels k snap] with
  | .found v => some v
  | _ => none

/-! ### specification: the newest entry per user key at or below the bound -/

def allEntries (s : State) : List Entry :=
  s.mem ++ (s.imm.getD []) ++ (s.levels.flatten.map File.entries).flatten

/-- newest (largest sequence number) of a list of entries -/
def newest : List Entry → Option Entry
  | [] => none
  | e :: es =>
    match newest es with
    | none => some e
    | some b => if b.seq < e.seq then some e else some b

/-- what a read of `k` at bound `snap` must return, given every stored entry -/
def view (es : List Entry) (snap : Nat) (k : Bytes) : Option Bytes :=
  match newest (es.filter fun e => e.ukey == k && decide (e.seq ≤ snap)) with
  | some e => if e.put then some e.val else none
  | none => none

/-! ### invariant (executable: the driver evaluates it on dumped states) -/

def lastKey : List Entry → Option (Bytes × Nat)
  | [] => none
  | [e] => some e.key
  | _ :: rest => lastKey rest

def fileOk (f : File) : Bool :=
  !f.entries.isEmpty && sortedE f.entries &&
  (f.entries.head?.map Entry.key == some f.smallest) && (lastKey f.entries == some f.largest)

/-- consecutive files of a level ≥ 1: `largest` of one strictly below `smallest` of the next -/
def levelSorted : List File → Bool
  | [] => true
  | [_] => true
  | f :: g :: rest => kLt f.largest g.smallest && levelSorted (g :: rest)

/-- every entry of `newer` for a user key that also occurs in `older` has the larger sequence -/
def newerThan (newer older : List Entry) : Bool :=
  newer.all fun a => older.all fun b => !(a.ukey == b.ukey) || decide (b.seq < a.seq)

/-- the sources in the order `DB::get` consults them -/
def sources (s : State) : List (List Entry) :=
  match s.levels with
  | [] => [s.mem, s.imm.getD []]
  | l0 :: deeper =>
    [s.mem, s.imm.getD []] ++ (sortDesc l0).map File.entries ++
      deeper.map fun fs => (fs.map File.entries).flatten

def pairwiseNewer : List (List Entry) → Bool
  | [] => true
  | a :: rest => rest.all (fun b => newerThan a b) && pairwiseNewer rest

def distinctNums : List Nat → Bool
  | [] => true
  | n :: rest => !rest.contains n && distinctNums rest

def invB (s : State) : Bool :=
  s.levels.length == 7 &&
  sortedE s.mem && sortedE (s.imm.getD []) &&
  s.levels.flatten.all fileOk &&
  (s.levels.drop 1).all levelSorted &&
  pairwiseNewer (sources s) &&
  distinctNums (s.levels.flatten.map File.num) &&
  (allEntries s).all (fun e => decide (e.seq ≤ s.lastSeq))

/-! ### transitions -/

/-- insert into a sorted entry list (memtable insert) -/
def insertE (e : Entry) : List Entry → List Entry
  | [] => [e]
  | a :: rest => if ikLt e a then e :: a :: rest else a :: insertE e rest

/-- `apply_batch_to_memtable`: operation `i` of the batch gets sequence `base + i + 1` -/
def applyOps : List (Bytes × Option Bytes) → Nat → List Entry → List Entry
  | [], _, m => m
  | (k, v) :: rest, seq, m =>
    applyOps rest (seq + 1) (insertE { ukey := k, seq := seq, put := v.isSome, val := v.getD [] } m)

def stepWrite (s : State) (ops : List (Bytes × Option Bytes)) : State :=
  { s with mem := applyOps ops (s.lastSeq + 1) s.mem, lastSeq := s.lastSeq + ops.length }

/-- memtable rotation (only when there is no immutable memtable) -/
def stepRotate (s : State) : Option State :=
  match s.imm with
  | some _ => none
  | none => some { s with mem := [], imm := some s.mem }

def userRangeOverlaps (f : File) (lo hi : Bytes) : Bool :=
  !bytesLt hi f.smallest.1 && !bytesLt f.largest.1 lo

/-- insert a file into a level ≥ 1 keeping it ordered by smallest key (`VersionBuilder`) -/
def insertFile (f : File) : List File → List File
  | [] => [f]
  | g :: gs => if kLt f.smallest g.smallest then f :: g :: gs else g :: insertFile f gs

def setLevel (levels : List (List File)) (i : Nat) (fs : List File) : List (List File) :=
  levels.set i fs

def addToLevel (levels : List (List File)) (lvl : Nat) (f : File) : List (List File) :=
  if lvl = 0 then setLevel levels 0 ((levels.getD 0 []) ++ [f])
  else setLevel levels lvl (insertFile f (levels.getD lvl []))

def mkFile (num : Nat) (es : List Entry) : File :=
  { num := num, smallest := (es.head?.map Entry.key).getD ([], 0),
    largest := (lastKey es).getD ([], 0), entries := es }

/-- `compact_memtable`: the immutable memtable becomes table `num` at level `lvl`
(`pick_level_for_memtable_output` may choose a level > 0 only if no file of levels 0..lvl
overlaps the new file's user-key range; the number must be newer than every level-0 file).
An empty immutable memtable produces no file. -/
def stepFlush (s : State) (num lvl : Nat) : Option State :=
  match s.imm with
  | none => none
  | some [] => some { s with imm := none }
  | some (e :: es) =>
    let f := mkFile num (e :: es)
    let lo := f.smallest.1
    let hi := f.largest.1
    let shallower := (s.levels.take (lvl + 1)).flatten
    let okLevel : Bool := lvl == 0 || (decide (lvl < 7) && shallower.all fun g => !userRangeOverlaps g lo hi)
    let okNum : Bool := s.levels.flatten.all fun g => decide (g.num < num)
    if okLevel && okNum then some { s with imm := none, levels := addToLevel s.levels lvl f }
    else none

/-- merge of sorted entry lists (what `MergingIterator` yields) -/
def mergeTwo : List Entry → List Entry → List Entry
  | [], bs => bs
  | as, [] => as
  | a :: as, b :: bs =>
    if ikLt b a then b :: mergeTwo (a :: as) bs else a :: mergeTwo as (b :: bs)
termination_by as bs => as.length + bs.length

def mergeAll : List (List Entry) → List Entry
  | [] => []
  | l :: ls => mergeTwo l (mergeAll ls)

/-- `compact_tables` drop rule over the merged input, `q` = smallest snapshot,
`isBase k` = no deeper level may hold `k`. `prev` = (user key, sequence) of the previous entry. -/
def dropLoop (q : Nat) (isBase : Bytes → Bool) : Option (Bytes × Nat) → List Entry → List Entry
  | _, [] => []
  | prev, e :: rest =>
    let lastSeqForKey : Option Nat :=
      match prev with
      | some (pk, ps) => if pk == e.ukey then some ps else none
      | none => none
    let drop : Bool :=
      (match lastSeqForKey with | some ps => decide (ps ≤ q) | none => false) ||
      (!e.put && decide (e.seq ≤ q) && isBase e.ukey)
    let tail := dropLoop q isBase (some (e.ukey, e.seq)) rest
    if drop then tail else e :: tail

/-- `is_base_level_for_key`: no file of levels ≥ `lvl + 2` has `k` inside its user-key range -/
def isBaseLevel (levels : List (List File)) (lvl : Nat) (k : Bytes) : Bool :=
  ((levels.drop (lvl + 2)).flatten).all fun f => !userRangeOverlaps f k k

structure Compaction where
  level : Nat
  inputs0 : List Nat
  inputs1 : List Nat
  smallestSnapshot : Nat
  /-- output files in key order (file numbers, entries) -/
  outputs : List (Nat × List Entry)
  deriving Repr

def pick (fs : List File) (nums : List Nat) : List File := fs.filter fun f => nums.contains f.num
def unpick (fs : List File) (nums : List Nat) : List File := fs.filter fun f => !nums.contains f.num

/-- user-key hull of a non-empty file list -/
def hull : List File → Option (Bytes × Bytes)
  | [] => none
  | f :: fs =>
    match hull fs with
    | none => some (f.smallest.1, f.largest.1)
    | some (lo, hi) =>
      some (if bytesLt f.smallest.1 lo then f.smallest.1 else lo,
            if bytesLt hi f.largest.1 then f.largest.1 else hi)

def minKey : List File → Option (Bytes × Nat)
  | [] => none
  | f :: fs => match minKey fs with
    | none => some f.smallest
    | some m => some (if kLt f.smallest m then f.smallest else m)

def maxKey : List File → Option (Bytes × Nat)
  | [] => none
  | f :: fs => match maxKey fs with
    | none => some f.largest
    | some m => some (if kLt m f.largest then f.largest else m)

/-- every file of `rest` lies entirely before `lo` or entirely after `hi` (internal-key order) -/
def outside (rest : List File) (lo hi : Bytes × Nat) : Bool :=
  rest.all fun g => kLt g.largest lo || kLt hi g.smallest

/-- what makes a table compaction safe (evaluated on every compaction the real worker performs):
* level in range, inputs exist and are distinct, at least one level-`L` input; the smallest
  snapshot is not above the last published sequence number;
* level 0: a remaining level-0 file overlaps the user-key hull of the level-0 inputs only if its
  number is larger than every input's (it was flushed while the compaction ran);
* level ≥ 1: every remaining file of level `L` lies entirely before or entirely after each input,
  and one that lies after an input does not start with the user key that input ends with
  (boundary files);
* the remaining files of level `L+1` lie outside the internal-key span of ALL inputs, do not
  overlap the user-key hull of the level-`L` inputs, and none of them starts with the user key
  the inputs end with (needed when a tombstone is dropped);
* the outputs are a cut, into non-empty runs, of the merged inputs after the drop rule, with
  file numbers used by no other file (they were allocated when the output was opened, so a
  memtable flushed meanwhile may carry a larger number). -/
def validCompaction (s : State) (c : Compaction) : Bool :=
  let lv := s.levels.getD c.level []
  let lp := s.levels.getD (c.level + 1) []
  let i0 := pick lv c.inputs0
  let i1 := pick lp c.inputs1
  let r0 := unpick lv c.inputs0
  let r1 := unpick lp c.inputs1
  let merged := mergeAll ((i0 ++ i1).map File.entries)
  let kept := dropLoop c.smallestSnapshot (isBaseLevel s.levels c.level) none merged
  decide (c.level + 1 < 7) && !i0.isEmpty && decide (c.smallestSnapshot ≤ s.lastSeq) &&
  decide (i0.length = c.inputs0.length) && decide (i1.length = c.inputs1.length) &&
  distinctNums c.inputs0 && distinctNums c.inputs1 &&
  (match hull i0, minKey (i0 ++ i1), maxKey (i0 ++ i1) with
   | some (lo, hi), some loAll, some hiAll =>
     (if c.level = 0 then
        -- a remaining level-0 file may overlap the inputs only if it is newer than all of them
        -- (a memtable flushed while the compaction was running)
        r0.all fun g => !userRangeOverlaps g lo hi || i0.all fun f => decide (f.num < g.num)
      else
        -- level ≥ 1: a remaining file lies entirely before an input (then it holds the newer
        -- versions), or entirely after it without sharing the boundary user key; it may sit in a gap
        -- between two inputs (a memtable flushed to this level while the compaction ran)
        r0.all fun g => i0.all fun f =>
          kLt g.largest f.smallest || (kLt f.largest g.smallest && !(g.smallest.1 == f.largest.1))) &&
     outside r1 loAll hiAll &&
     (r1.all fun g => !userRangeOverlaps g lo hi) &&
     (r1.all fun g => !(g.smallest.1 == hiAll.1))
   | _, _, _ => false) &&
  c.outputs.all (fun o => !o.2.isEmpty) &&
  decide ((c.outputs.map Prod.snd).flatten = kept) &&
  distinctNums (c.outputs.map Prod.fst) &&
  c.outputs.all (fun o => !(s.levels.flatten.map File.num).contains o.1)

def removeNums (levels : List (List File)) (lvl : Nat) (nums : List Nat) : List (List File) :=
  setLevel levels lvl (unpick (levels.getD lvl []) nums)

def stepCompact (s : State) (c : Compaction) : Option State :=
  if validCompaction s c then
    let l1 := removeNums s.levels c.level c.inputs0
    let l2 := removeNums l1 (c.level + 1) c.inputs1
    let outs := c.outputs.map fun o => mkFile o.1 o.2
    some { s with levels := outs.foldl (fun ls f => addToLevel ls (c.level + 1) f) l2 }
  else none

/-- trivial move of file `num` from `lvl` to `lvl + 1`: allowed when nothing in `lvl + 1` overlaps
it and, at level 0, no other level-0 file overlaps it; at a level ≥ 1, no file AFTER it starts with
the user key it ends with (that file would hold older versions of the key and stay above) -/
def stepTrivialMove (s : State) (num lvl : Nat) : Option State :=
  match pick (s.levels.getD lvl []) [num] with
  | [f] =>
    let others := unpick (s.levels.getD lvl []) [num]
    let ok : Bool := decide (lvl + 1 < 7) &&
      ((s.levels.getD (lvl + 1) []).all fun g => !userRangeOverlaps g f.smallest.1 f.largest.1) &&
      (lvl != 0 || others.all fun g => !userRangeOverlaps g f.smallest.1 f.largest.1) &&
      (lvl == 0 || others.all fun g => !(kLt f.largest g.smallest && g.smallest.1 == f.largest.1))
    if ok then some { s with levels := addToLevel (removeNums s.levels lvl [num]) (lvl + 1) f } else none
  | _ => none

inductive Action where
  | write (ops : List (Bytes × Option Bytes))
  | rotate
  | flush (num lvl : Nat)
  | compact (c : Compaction)
  | trivialMove (num lvl : Nat)
  deriving Repr

def step (s : State) : Action → Option State
  | .write ops => some (stepWrite s ops)
  | .rotate => stepRotate s
  | .flush num lvl => stepFlush s num lvl
  | .compact c => stepCompact s c
  | .trivialMove num lvl => stepTrivialMove s num lvl

def run (s : State) : List Action → Option State
  | [] => some s
  | a :: rest => match step s a with
    | some s' => run s' rest
    | none => none

def init : State := { mem := [], imm := none, levels := List.replicate 7 [], lastSeq := 0 }

/-- the abstract map after a list of batches (the specification of `put/delete/apply`) -/
def specApply (m : Bytes → Option Bytes) (ops : List (Bytes × Option Bytes)) : Bytes → Option Bytes :=
  ops.foldl (fun m (kv : Bytes × Option Bytes) => fun k => if k == kv.1 then kv.2 else m k) m

end Rain.Lsm
