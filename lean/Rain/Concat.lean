import Rain.Table
/-
Model of `FilesEntryIterator` (`src/versioning/file_iterators.rs`): the iterator over the files of
one level >= 1 (a level's files are disjoint and sorted, every file is a non-empty sorted table).

The Rust type has the shape of the table's two-level iterator - an outer position
(`current_file_index`, found by `find_file_with_upper_bound_range` on the files' LARGEST keys) and an
inner iterator (`current_table_iter`, kept when `set_table_iter` is asked for the file it already
has) with `skip_empty_table_files_forward / _backward` - so its model is the two-level step
function `Rain.Table.tlStep` over a `Table` whose blocks are the files' entry lists and whose
index keys are the files' last keys:

* `seek(t)`: `set_table_iter(find_file(t))` = `initData` at `lowerBound index t`, the table's
  `seek(t)` = `setPos (lowerBound …)`, then `skip_empty_table_files_forward` = `skipFwd`;
* `seek_to_first` / `seek_to_last`: file 0 / the last file, the table's own first / last, skip;
* `next` / `prev`: only when valid; the table iterator steps, and when it runs off the file the skip
  loop opens the neighbouring file at its first / last entry; off either end the iterator is dead.
  (Representation: after running off the FRONT the code keeps `current_file_index = 0` with no
  table iterator, the model's outer position is `length`; both are dead states from which only the
  three absolute positionings lead away.)

The merging iterator's model (`Rain/Merge.lean`) ASSUMES each child is a cursor over its sorted
entries; `Rain/Props/Concat.lean` proves it for this child.
-/
namespace Rain.Concat
open Rain Rain.Lsm Rain.Table

/-- the largest key of every file (`FileMetadata::largest_key`; `find_file_with_upper_bound_range`
    compares the target with these) -/
def lastKeys (files : List (List Entry)) : List (Bytes × Nat) :=
  files.map fun b => (lastKey b).getD ([], 0)

/-- the files of a level as the two-level structure the iterator walks -/
def mkLevel (files : List (List Entry)) : Table := { blocks := files, index := lastKeys files }

/-- one operation of `FilesEntryIterator` -/
def step (files : List (List Entry)) (s : TL) (op : COp) : TL := tlStep (mkLevel files) s op

def init (files : List (List Entry)) : TL := TL.init (mkLevel files)

end Rain.Concat
