import Rain.Table
/-
Model of the two BINARY SEARCHES of the code, as loops — the other models use their linear
specifications (`List.find?`, `lowerBound`); `Rain/Props/BinSearch.lean` proves that the loops
compute exactly those on sorted input, and what they compute on ANY input (bounds only).

* `versioning/utils.rs find_file_with_upper_bound_range(files, target)`:
    left = 0; right = len; while left < right { mid = (left + right) / 2;
      if files[mid].largest_key() < target { left = mid + 1 } else { right = mid } }
    if left == len { None } else { Some(left) }
  used by `Version::get_overlapping_files` (levels ≥ 1), `some_file_overlaps_range`,
  `FilesEntryIterator::seek`.
* `tables/block.rs BlockIter::seek(target)`: the same loop over the entries of a block with
  `entries[mid].key.cmp(target) == Less`, `current_index = left`.

`(left + right) / 2` cannot overflow: both are at most the length of an in-memory vector.
-/
namespace Rain.BinSearch
open Rain Rain.Lsm

/-- the loop: `less m` = "element `m` is below the target"; one unit of fuel per iteration -/
def loop (less : Nat → Bool) : Nat → Nat → Nat → Nat
  | 0, l, _ => l
  | fuel + 1, l, r =>
    if l < r then
      let mid := (l + r) / 2
      if less mid then loop less fuel (mid + 1) r else loop less fuel l mid
    else l

/-- `left` after the loop over `n` elements (`n` units of fuel: the interval shrinks every time) -/
def search (less : Nat → Bool) (n : Nat) : Nat := loop less n 0 n

/-- the number of iterations the loop performs (for the logarithmic bound) -/
def steps (less : Nat → Bool) : Nat → Nat → Nat → Nat
  | 0, _, _ => 0
  | fuel + 1, l, r =>
    if l < r then
      let mid := (l + r) / 2
      if less mid then steps less fuel (mid + 1) r + 1 else steps less fuel l mid + 1
    else 0

/-- `files[mid].largest_key() < target` -/
def fileBelow (fs : List File) (target : Bytes × Nat) (m : Nat) : Bool :=
  match fs[m]? with
  | some f => kLt f.largest target
  | none => false

/-- `entries[mid].key.cmp(target) == Less` -/
def keyBelow (keys : List (Bytes × Nat)) (t : Bytes × Nat) (m : Nat) : Bool :=
  match keys[m]? with
  | some k => kLt k t
  | none => false

/-- `find_file_with_upper_bound_range` -/
def findFile (fs : List File) (target : Bytes × Nat) : Option Nat :=
  let i := search (fileBelow fs target) fs.length
  if i = fs.length then none else some i

/-- `get_overlapping_files`, one level ≥ 1, with the binary search the code performs -/
def levelCandidateBin (fs : List File) (k : Bytes) (snap : Nat) : Option File :=
  match findFile fs (k, snap) with
  | some i =>
    (match fs[i]? with
     | some f => if !bytesLt k f.smallest.1 then some f else none
     | none => none)
  | none => none

/-- `BlockIter::seek`: the index the cursor is left on -/
def blockSeek (keys : List (Bytes × Nat)) (t : Bytes × Nat) : Nat :=
  search (keyBelow keys t) keys.length

end Rain.BinSearch
