import Rain.Merge
/-
Model of `DatabaseIterator` (`src/iterator.rs`): `find_next_client_entry`,
`find_prev_client_entry`, `seek`, `seek_to_first`, `seek_to_last`, `next`, `prev`, `current`,
generic in the inner cursor (the merging iterator in the code; a flat sorted list in the
specification-level instantiation).  Read sampling (`sample_read_stats_for_current_key`) only
schedules compactions and is not modelled.
-/
namespace Rain.DbIter
open Rain Rain.Lsm Rain.Table Rain.Merge

/-- what `DatabaseIterator` needs from its inner iterator -/
structure Inner (σ : Type) where
  step : σ → COp → σ
  cur : σ → Option Entry      -- `none` = invalid

structure DState (σ : Type) where
  inner : σ
  dir : Dir
  valid : Bool
  ckey : Option Bytes          -- `cached_user_key`
  cval : Option Bytes          -- `cached_value`

/-- user-facing operations -/
inductive UOp where
  | seek (k : Bytes)
  | first
  | last
  | next
  | prev
  deriving Repr

/-- `find_next_client_entry(is_skipping)`; the inner iterator must be valid. `fuel` bounds the
number of inner steps (at most the number of entries). -/
def findNext {σ} (I : Inner σ) (snap : Nat) : Nat → DState σ → Bool → DState σ
  | 0, s, _ => { s with valid := false, ckey := none }
  | fuel+1, s, skipping =>
    match I.cur s.inner with
    | none => { s with valid := false, ckey := none }
    | some e =>
      let visible := decide (e.seq ≤ snap)
      if visible && e.put &&
          !(skipping && (match s.ckey with | some c => !bytesLt c e.ukey | none => false)) then
        { s with valid := true, ckey := none }
      else
        let (skipping', ckey') :=
          if visible && !e.put then (true, some e.ukey) else (skipping, s.ckey)
        let inner' := I.step s.inner .next
        match I.cur inner' with
        | none => { s with inner := inner', valid := false, ckey := none }
        | some _ => findNext I snap fuel { s with inner := inner', ckey := ckey' } skipping'

/-- `find_prev_client_entry`; `lastPut` = `last_operation_type != Delete` -/
def findPrevLoop {σ} (I : Inner σ) (snap : Nat) : Nat → DState σ → Bool → DState σ × Bool
  | 0, s, lastPut => (s, lastPut)
  | fuel+1, s, lastPut =>
    match I.cur s.inner with
    | none => (s, lastPut)
    | some e =>
      if decide (e.seq ≤ snap) then
        if lastPut && (match s.ckey with | some c => bytesLt e.ukey c | none => false) then (s, lastPut)
        else
          let s1 := if e.put then { s with ckey := some e.ukey, cval := some e.val }
                    else { s with ckey := none, cval := none }
          let inner' := I.step s1.inner .prev
          match I.cur inner' with
          | none => ({ s1 with inner := inner' }, e.put)
          | some _ => findPrevLoop I snap fuel { s1 with inner := inner' } e.put
      else
        let inner' := I.step s.inner .prev
        match I.cur inner' with
        | none => ({ s with inner := inner' }, lastPut)
        | some _ => findPrevLoop I snap fuel { s with inner := inner' } lastPut

def findPrev {σ} (I : Inner σ) (snap fuel : Nat) (s : DState σ) : DState σ :=
  let (s1, lastPut) := findPrevLoop I snap fuel s false
  if lastPut then { s1 with valid := true }
  else { s1 with valid := false, ckey := none, cval := none, dir := .fwd }

/-- `prev()` in forward mode: walk the inner iterator back to before the current user key.
Returns the inner state and whether an entry with a smaller user key was reached. -/
def backOff {σ} (I : Inner σ) : Nat → σ → Bytes → σ × Bool
  | 0, inner, _ => (inner, false)
  | fuel+1, inner, key =>
    let inner' := I.step inner .prev
    match I.cur inner' with
    | none => (inner', false)
    | some e => if bytesLt e.ukey key then (inner', true) else backOff I fuel inner' key

/-- one user operation (`next`/`prev` assert validity in the code; the model leaves an invalid
iterator unchanged). `fuel` must be at least the number of entries + 1. -/
def dbStep {σ} (I : Inner σ) (snap fuel : Nat) (s : DState σ) : UOp → DState σ
  | .seek k =>
    let s1 := { s with dir := .fwd, cval := none, ckey := some k, inner := I.step s.inner (.seek (k, snap)) }
    (match I.cur s1.inner with
     | some _ => findNext I snap fuel s1 false
     | none => { s1 with valid := false })
  | .first =>
    let s1 := { s with dir := .fwd, cval := none, inner := I.step s.inner .first }
    (match I.cur s1.inner with
     | some _ => findNext I snap fuel s1 false
     | none => { s1 with valid := false })
  | .last =>
    let s1 := { s with dir := .bwd, cval := none, inner := I.step s.inner .last }
    findPrev I snap fuel s1
  | .next =>
    if !s.valid then s else
    if s.dir == .bwd then
      let inner' := match I.cur s.inner with
        | none => I.step s.inner .first
        | some _ => I.step s.inner .next
      let s1 := { s with dir := .fwd, inner := inner' }
      match I.cur inner' with
      | none => { s1 with valid := false, ckey := none }
      | some _ => findNext I snap fuel s1 true
    else
      match I.cur s.inner with
      | none => s
      | some e =>
        let inner' := I.step s.inner .next
        let s1 := { s with ckey := some e.ukey, inner := inner' }
        match I.cur inner' with
        | none => { s1 with valid := false, ckey := none }
        | some _ => findNext I snap fuel s1 true
  | .prev =>
    if !s.valid then s else
    if s.dir == .fwd then
      match I.cur s.inner with
      | none => s
      | some e =>
        match backOff I fuel s.inner e.ukey with
        | (inner', false) =>
          -- ran off the front: invalid, direction stays forward (as coded)
          { s with valid := false, ckey := none, cval := none, inner := inner' }
        | (inner', true) => findPrev I snap fuel { s with ckey := some e.ukey, inner := inner', dir := .bwd }
    else findPrev I snap fuel s

/-- `current()` (only defined on a valid iterator) -/
def dbCurrent {σ} (I : Inner σ) (s : DState σ) : Option (Bytes × Bytes) :=
  if !s.valid then none else
  match s.dir with
  | .fwd => (I.cur s.inner).map fun e => (e.ukey, e.val)
  | .bwd => match s.ckey, s.cval with
    | some k, some v => some (k, v)
    | _, _ => none

def dbInit {σ} (inner : σ) : DState σ :=
  { inner := inner, dir := .fwd, valid := false, ckey := none, cval := none }

/-- inner = the merging iterator over children -/
def mergeInner (children : List (List Entry)) : Inner MState :=
  { step := mergeStep children, cur := fun s => s.current children }

/-- inner = a cursor over one flat sorted list -/
def flatInner (es : List Entry) : Inner Nat :=
  { step := flatStep es, cur := fun p => es[p]? }

/-! ### specification: a cursor over the visible key/value pairs -/

/-- the visible pairs at bound `snap` of a list sorted by internal key: per user key the newest
entry with `seq ≤ snap`, kept if it is a put -/
def visible (snap : Nat) : List Entry → Option Bytes → List (Bytes × Bytes)
  | [], _ => []
  | e :: rest, done =>
    if (match done with | some k => k == e.ukey | none => false) then visible snap rest done
    else if decide (e.seq ≤ snap) then
      (if e.put then [(e.ukey, e.val)] else []) ++ visible snap rest (some e.ukey)
    else visible snap rest done

def lowerBoundU (kvs : List (Bytes × Bytes)) (k : Bytes) : Nat :=
  match kvs with
  | [] => 0
  | kv :: rest => if bytesLt kv.1 k then lowerBoundU rest k + 1 else 0

/-- sorted-map cursor: `length` = invalid; `next`/`prev` on an invalid cursor do nothing -/
def specStep (kvs : List (Bytes × Bytes)) (pos : Nat) : UOp → Nat
  | .seek k => lowerBoundU kvs k
  | .first => 0
  | .last => kvs.length - 1
  | .next => if kvs.length ≤ pos then pos else pos + 1
  | .prev => if kvs.length ≤ pos then pos else if pos = 0 then kvs.length else pos - 1

end Rain.DbIter
