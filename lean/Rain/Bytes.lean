/-
Byte-level helpers shared by every model file.  No imports: the compiled driver links only
because nothing under `Rain/` (outside `Lemmas/`, `Props/`, `Audit/`) imports Mathlib.
-/
namespace Rain

abbrev Bytes := List UInt8

/-- `n` little-endian bytes of `v` (integer-encoding's `encode_fixed`). -/
def leBytes : Nat → Nat → Bytes
  | 0, _ => []
  | n+1, v => (v % 256).toUInt8 :: leBytes n (v / 256)

/-- little-endian value of a byte list (`decode_fixed`). -/
def leVal : Bytes → Nat
  | [] => 0
  | b :: bs => b.toNat + 256 * leVal bs

/-- Lexicographic three-way comparison of byte strings: Rust's `<[u8] as Ord>::cmp`. -/
def cmpBytes : Bytes → Bytes → Ordering
  | [], [] => .eq
  | [], _ :: _ => .lt
  | _ :: _, [] => .gt
  | a :: as, b :: bs =>
    if a.toNat < b.toNat then .lt else if b.toNat < a.toNat then .gt else cmpBytes as bs

def hexDigit (n : Nat) : Char :=
  if n < 10 then Char.ofNat (48 + n) else Char.ofNat (87 + n)

def toHex (bs : Bytes) : String :=
  String.ofList (bs.foldr (fun b acc => hexDigit (b.toNat / 16) :: hexDigit (b.toNat % 16) :: acc) [])

def hexVal (c : Char) : Option Nat :=
  if '0' ≤ c ∧ c ≤ '9' then some (c.toNat - 48)
  else if 'a' ≤ c ∧ c ≤ 'f' then some (c.toNat - 87)
  else none

def ofHexChars : List Char → Option Bytes
  | [] => some []
  | [_] => none
  | a :: b :: rest =>
    match hexVal a, hexVal b, ofHexChars rest with
    | some x, some y, some r => some ((x * 16 + y).toUInt8 :: r)
    | _, _, _ => none

/-- `-` stands for the empty byte string so that every field of a request line is non-empty. -/
def ofHex (s : String) : Option Bytes :=
  if s == "-" then some [] else ofHexChars s.toList

def hexOut (bs : Bytes) : String := if bs.isEmpty then "-" else toHex bs

end Rain
