import Rain.Files
/-
The invariant of the file-retention model, shared by the property statements
(`Rain/Props/C11.lean`) and their proofs (`Rain/Lemmas/Files.lean`).
-/
namespace Rain.Files

/-- states the database can be in: at least one version, distinct ids below `nextId`, and (without
the defect D10) every linked non-current version is referenced by somebody -/
structure Good (s : State) : Prop where
  nonempty : s.versions ≠ []
  ids : (s.versions.map Version.id).Nodup ∧ ∀ v ∈ s.versions, v.id < s.nextId
  referenced : ∀ v ∈ s.versions, some v = current s ∨ 0 < v.refs

end Rain.Files
