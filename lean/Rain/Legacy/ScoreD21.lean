import Rain.Score
import Rain.Props.Score
/-
`Version::finalize` as it is before the repair (finding D21): the loop `for level in
0..MAX_NUM_LEVELS` gives a score to the LAST level too (LevelDB stops at `kNumLevels - 1`).  When
level 6 holds more than its limit (10 MiB * 10^5 = 1 048 576 000 000 bytes with the built-in
constants) and has the best score, `requires_size_compaction` is true with `compaction_level = 6`,
and `VersionSet::pick_compaction` fails `assert!(level_to_compact + 1 < MAX_NUM_LEVELS)`: the
background thread panics.  Kept to document, with a kernel-checked witness, that
`C09_size_compaction_level_is_compactable` is FALSE of that code.
-/
namespace Rain.Score.Legacy
open Rain Rain.Lsm Rain.Score

/-- the constants of the code with the loop bound as written: all 7 levels are scored -/
def legacyParams : Params := { l0Trigger := 4, levelOneMax := 10485760, scoredLevels := 7 }

/-- one file of 1 048 576 000 001 bytes in level 6, nothing elsewhere -/
def witness : List (Nat × Nat) :=
  [(0, 0), (0, 0), (0, 0), (0, 0), (0, 0), (0, 0), (1, 1048576000001)]

theorem D21_last_level_can_be_chosen :
    ∃ ls, (∀ c b, (c, b) ∈ ls → c = 0 → b = 0) ∧ needsSize legacyParams ls = true ∧
      (finalize legacyParams ls).1 + 1 = 7 := by
  refine ⟨witness, ?_, by decide, by decide⟩
  intro c b h hc
  simp only [witness, List.mem_cons, Prod.mk.injEq, List.not_mem_nil, or_false] at h
  omega

/-- `pick_compaction` on that layout: the assertion fails (the model's `lastLevelChosen`), with
the repaired bound nothing is picked -/
theorem D21_pick_compaction_panics :
    let f : File := { num := 9, smallest := ([97], 2), largest := ([98], 1), entries := [] }
    let levels : List (List File) := [[], [], [], [], [], [], [f]]
    let size : Nat → Nat := fun _ => 1048576000001
    pickOutcome legacyParams 2097152 size levels (List.replicate 7 none) = .lastLevelChosen 6 ∧
    pickOutcome { legacyParams with scoredLevels := 6 } 2097152 size levels (List.replicate 7 none)
      = .nothing := by
  decide +kernel

/-- the repaired bound excludes it for every input (`C09_size_compaction_level_is_compactable`) -/
example (ls : List (Nat × Nat)) :
    (finalize { legacyParams with scoredLevels := 6 } ls).1 + 1 < 7 :=
  C09_size_compaction_level_is_compactable _ (by decide) ls

end Rain.Score.Legacy
