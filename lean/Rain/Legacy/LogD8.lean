import Rain.Log
import Rain.Props.C12
/-
The reader loop of `LogReader::read_record` as it was before the repair `fix: log reader drops
unfinished or corrupted fragmented records …` (finding D8): every fragment is appended to the
buffer, a corrupted fragment is skipped while the buffer is kept, and nothing tracks whether a
`First` fragment was seen.  Kept to document, with a kernel-checked witness, that the property
`C12_partial_then_append` was FALSE of that code.
-/
namespace Rain.Log.Legacy
open Rain Rain.Log

def readRecordLoopOld (c : Cfg) : Nat → Bytes → Nat → Bytes → RRes
  | 0, _, _, _ => .eof
  | fuel+1, rest, boff, acc =>
    match readPhysical c rest boff with
    | .eof => .eof
    | .bad rest' boff' => readRecordLoopOld c fuel rest' boff' acc
    | .ok ty data rest' boff' =>
      if ty = TFull ∨ ty = TLast then .record (acc ++ data) rest' boff'
      else readRecordLoopOld c fuel rest' boff' (acc ++ data)

def readAllLoopOld (c : Cfg) : Nat → Bytes → Nat → List Bytes
  | 0, _, _ => []
  | fuel+1, rest, boff =>
    match readRecordLoopOld c (rest.length + 1) rest boff [] with
    | .eof => []
    | .record d rest' boff' => d :: readAllLoopOld c fuel rest' boff'

def readAllOld (c : Cfg) (file : Bytes) : List Bytes := readAllLoopOld c (file.length + 1) file 0

/-- the writer dies after the first fragment of a 20-byte record; a later writer appends `[9]`.
    The old reader delivers the dead fragment glued to the new record; the repaired one does not. -/
theorem old_reader_glues_partial_record :
    readAllOld tinyCfg (writeSession tinyCfg (writeSessionCut tinyCfg [] [List.replicate 20 7] 1) [[9]])
      = [List.replicate 9 7 ++ [9]] ∧
    readAll tinyCfg (writeSession tinyCfg (writeSessionCut tinyCfg [] [List.replicate 20 7] 1) [[9]])
      = [[9]] := by decide

end Rain.Log.Legacy
