import Rain.Block
/-
Model of `src/tables/table_builder.rs` (block partition, index entries) and `src/tables/table.rs`
(`Table::get`, `TwoLevelIterator`) at the level of decoded blocks.  Compression, checksums and
the footer are below this model (C15 deals with them); the filter is a parameter
`filt : block index → user key → Bool` (C14 shows the real one never rejects a stored key).
-/
namespace Rain.Table
open Rain Rain.Lsm Rain.Block

structure Table where
  blocks : List (List Entry)
  index : List (Bytes × Nat)
  deriving Repr

/-- index keys as `TableBuilder::add_entry` / `finalize` compute them: a separator between the
last key of a block and the first key of the next, a successor of the very last key -/
def indexKeys : List (List Entry) → List (Bytes × Nat)
  | [] => []
  | [b] => [keySucc ((lastKey b).getD ([], 0))]
  | b :: c :: rest =>
    keySep ((lastKey b).getD ([], 0)) ((c.head?.map Entry.key).getD ([], 0)) :: indexKeys (c :: rest)

def mkTable (blocks : List (List Entry)) : Table := { blocks := blocks, index := indexKeys blocks }

/-- the builder's partition rule: a block is emitted when its estimated size has reached
`maxBlock` at the moment the next entry arrives -/
def partLoop (maxBlock r : Nat) : Builder → List Entry → List Entry → List (List Entry)
  | _, cur, [] => if cur.isEmpty then [] else [cur.reverse]
  | b, cur, e :: rest =>
    if decide (maxBlock ≤ approxSize b) && !cur.isEmpty then
      cur.reverse :: partLoop maxBlock r (addEntry r {} (encodeKey e) e.val) [e] rest
    else partLoop maxBlock r (addEntry r b (encodeKey e) e.val) (e :: cur) rest

def partition (maxBlock : Nat) (es : List Entry) : List (List Entry) :=
  partLoop maxBlock Rain.Gen.RESTART_INTERVAL {} [] es

/-- first position whose key is ≥ the target (`BlockIter::seek`; the code binary-searches) -/
def lowerBound (keys : List (Bytes × Nat)) (t : Bytes × Nat) : Nat :=
  match keys with
  | [] => 0
  | k :: rest => if kLt k t then lowerBound rest t + 1 else 0

/-- `Table::get` (after the repair of D3: a target past the last index entry is "not in this
file").  `filt i u = false` means the filter of block `i` rejects user key `u`. -/
def tableGet (filt : Nat → Bytes → Bool) (t : Table) (k : Bytes) (snap : Nat) : Lookup :=
  let i := lowerBound t.index (k, snap)
  if t.index.length ≤ i then .absent else
  if !filt i k then .absent else
  let blk := t.blocks.getD i []
  let j := lowerBound (blk.map Entry.key) (k, snap)
  match blk[j]? with
  | some e => if e.ukey == k then (if e.put then .found e.val else .deleted) else .absent
  | none => .absent

/-! ### cursors -/

inductive COp where
  | seek (t : Bytes × Nat)
  | first
  | last
  | next
  | prev
  deriving Repr

/-- `BlockIter` over `n` entries: position `pos`, valid iff `pos < n` -/
def blockStep (keys : List (Bytes × Nat)) (pos : Nat) : COp → Nat
  | .seek t => lowerBound keys t
  | .first => 0
  | .last => keys.length - 1
  | .next => if keys.length ≤ pos then keys.length else pos + 1
  | .prev => if pos = 0 ∨ keys.length ≤ pos then keys.length else pos - 1

/-- `TwoLevelIterator` state: index position, loaded data block (its index) and position in it -/
structure TL where
  ipos : Nat
  data : Option (Nat × Nat)
  deriving Repr, DecidableEq

def TL.init (t : Table) : TL := { ipos := 0, data := none }   -- index iterator starts at 0, no block

def blockLen (t : Table) (b : Nat) : Nat := (t.blocks.getD b []).length

def TL.valid (t : Table) (s : TL) : Bool :=
  match s.data with
  | some (b, p) => decide (p < blockLen t b)
  | none => false

def TL.current (t : Table) (s : TL) : Option Entry :=
  match s.data with
  | some (b, p) => (t.blocks.getD b [])[p]?
  | none => none

/-- `init_data_block` -/
def initData (t : Table) (s : TL) : TL :=
  if t.index.length ≤ s.ipos then { s with data := none }
  else match s.data with
    | some (b, _) => if b = s.ipos then s else { s with data := some (s.ipos, 0) }
    | none => { s with data := some (s.ipos, 0) }

def setPos (s : TL) (f : Nat → Nat → Nat) : TL :=
  match s.data with
  | some (b, p) => { s with data := some (b, f b p) }
  | none => s

/-- `skip_empty_data_blocks_forward` -/
def skipFwd (t : Table) : Nat → TL → TL
  | 0, s => s
  | fuel+1, s =>
    if s.valid t then s else
    if t.index.length ≤ s.ipos then { s with data := none } else
    let s1 := initData t { s with ipos := blockStep t.index s.ipos .next }
    skipFwd t fuel (setPos s1 fun _ _ => 0)

/-- `skip_empty_data_blocks_backward` -/
def skipBwd (t : Table) : Nat → TL → TL
  | 0, s => s
  | fuel+1, s =>
    if s.valid t then s else
    if t.index.length ≤ s.ipos then { s with data := none } else
    let s1 := initData t { s with ipos := blockStep t.index s.ipos .prev }
    skipBwd t fuel (setPos s1 fun b _ => blockLen t b - 1)

def tlStep (t : Table) (s : TL) : COp → TL
  | .seek tg =>
    let s1 := initData t { s with ipos := lowerBound t.index tg }
    let s2 := setPos s1 fun b _ => lowerBound ((t.blocks.getD b []).map Entry.key) tg
    skipFwd t (t.index.length + 1) s2
  | .first =>
    let s1 := initData t { s with ipos := 0 }
    skipFwd t (t.index.length + 1) (setPos s1 fun _ _ => 0)
  | .last =>
    let s1 := initData t { s with ipos := t.index.length - 1 }
    skipBwd t (t.index.length + 1) (setPos s1 fun b _ => blockLen t b - 1)
  | .next =>
    if !s.valid t then s else
    let s1 := setPos s fun b p => blockStep ((t.blocks.getD b []).map Entry.key) p .next
    if s1.valid t then s1 else skipFwd t (t.index.length + 1) s1
  | .prev =>
    if !s.valid t then s else
    let s1 := setPos s fun b p => blockStep ((t.blocks.getD b []).map Entry.key) p .prev
    if s1.valid t then s1 else skipBwd t (t.index.length + 1) s1

/-- the specification: a cursor over the flat sorted entry list -/
def flatStep (es : List Entry) (pos : Nat) (op : COp) : Nat := blockStep (es.map Entry.key) pos op

end Rain.Table
