import Rain.Bloom
/-
Model of `src/tables/filter_block_builder.rs` and `src/tables/filter_block.rs`.
The filter policy is a parameter pair (`create`, `may`), instantiated with the Bloom model.
-/
namespace Rain.FilterBlock
open Rain

def EXP : Nat := Rain.Gen.FILTER_RANGE_SIZE_EXPONENT

structure Builder where
  keys : List Bytes := []        -- oldest first
  filters : List Bytes := []     -- oldest first
  deriving Repr

/-- `generate_filter` -/
def generate (create : List Bytes → Bytes) (b : Builder) : Builder :=
  if b.keys.isEmpty then { b with filters := b.filters ++ [[]] }
  else { keys := [], filters := b.filters ++ [create b.keys] }

def generateN (create : List Bytes → Bytes) : Nat → Builder → Builder
  | 0, b => b
  | n+1, b => generateN create n (generate create b)

/-- `notify_new_data_block`: `while filter_index > filters.len() { generate_filter() }` -/
def notify (create : List Bytes → Bytes) (b : Builder) (blockOffset : Nat) : Builder :=
  generateN create (blockOffset / 2^EXP - b.filters.length) b

def addKey (b : Builder) (key : Bytes) : Builder := { b with keys := b.keys ++ [key] }

/-- byte offsets of the filters inside the concatenation -/
def offsetsOf : List Bytes → Nat → List Nat
  | [], _ => []
  | f :: fs, o => o :: offsetsOf fs (o + f.length)

/-- `finalize` -/
def finalize (create : List Bytes → Bytes) (b : Builder) : Bytes :=
  let b1 := if b.keys.isEmpty then b else generate create b
  let body := b1.filters.flatten
  body ++ ((offsetsOf b1.filters 0).map (leBytes 4)).flatten ++ leBytes 4 body.length ++ [EXP.toUInt8]

/-- The table builder's call pattern: block `i` has start offset `oᵢ` (`o₀ = 0`; notifying offset 0 on a fresh builder is a no-op, and the code does not do it) and user keys `ksᵢ`; `notify oᵢ₊₁` follows the keys of block `i`. -/
def buildBlocks (create : List Bytes → Bytes) : Builder → List (Nat × List Bytes) → Builder
  | b, [] => b
  | b, (o, ks) :: rest =>
    let b1 := notify create b o   -- a no-op for the first block (offset 0)
    buildBlocks create (ks.foldl addKey b1) rest

/-! ### reader -/

structure Reader where
  filters : List Bytes
  exp : Nat
  deriving Repr

def chunks4 : Nat → Bytes → List Nat
  | 0, _ => []
  | n+1, bs => leVal (bs.take 4) :: chunks4 n (bs.drop 4)

/-- `split_filters_with_offset` -/
def splitFilters (raw : Bytes) : List Nat → List Bytes
  | [] => []
  | [o] => [raw.drop o]
  | o :: o' :: rest => ((raw.take o').drop o) :: splitFilters raw (o' :: rest)

/-- `FilterBlockReader::new`; `none` = parse error (the code panics on out-of-range slices, which
    the model also maps to `none`; the difference is exercised by C15, not here) -/
def parse (data : Bytes) : Option Reader :=
  if data.length < 5 then none else
  let exp := (data.getD (data.length - 1) 0).toNat
  let d := data.take (data.length - 1)
  let offStart := leVal (d.drop (d.length - 4))
  if d.length - 4 < offStart then none else
  let rawOffsets := (d.take (d.length - 4)).drop offStart
  if rawOffsets.length % 4 ≠ 0 then none else
  let offsets := chunks4 (rawOffsets.length / 4) rawOffsets
  let raw := d.take offStart
  if offsets.any (fun o => raw.length < o) then none else
  some { filters := splitFilters raw offsets, exp := exp }

/-- `FilterBlockReader::key_may_match` (`may` returns `none` on a policy error ⇒ match) -/
def keyMayMatch (may : Bytes → Bytes → Option Bool) (r : Reader) (blockOffset : Nat) (key : Bytes) : Bool :=
  if r.filters.isEmpty then true else
  let idx := blockOffset / 2^r.exp
  match r.filters[idx]? with
  | none => true
  | some f =>
    if f.isEmpty then false else
    match may key f with
    | none => true
    | some b => b

end Rain.FilterBlock
