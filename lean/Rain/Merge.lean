import Rain.Table
/-
Model of `MergingIterator` (`src/versioning/file_iterators.rs`) over child cursors.  A child is a
sorted entry list with a position (`CachingIterator` around a memtable iterator, a table's
two-level iterator or a level's concatenating iterator — each of which is a cursor over its sorted
entries: C13 proves it for tables).  Position `length` = invalid.
-/
namespace Rain.Merge
open Rain Rain.Lsm Rain.Table

inductive Dir where
  | fwd
  | bwd
  deriving DecidableEq, Repr

structure MState where
  /-- position of every child (`= length` means invalid) -/
  pos : List Nat
  dir : Dir
  /-- `current_iterator_index` -/
  cur : Option Nat
  deriving Repr, DecidableEq

def childKey (children : List (List Entry)) (pos : List Nat) (i : Nat) : Option (Bytes × Nat) :=
  ((children.getD i [])[pos.getD i 0]?).map Entry.key

/-- `find_smallest`: first child (lowest index) holding the smallest current key -/
def findSmallest (children : List (List Entry)) (pos : List Nat) : Option Nat :=
  (List.range children.length).foldl (fun best i =>
    match childKey children pos i with
    | none => best
    | some k =>
      match best with
      | none => some i
      | some b => match childKey children pos b with
        | some kb => if kLt k kb then some i else best
        | none => some i) none

/-- `find_largest`: scans from the last child to the first, keeps the first strictly largest -/
def findLargest (children : List (List Entry)) (pos : List Nat) : Option Nat :=
  (List.range children.length).reverse.foldl (fun best i =>
    match childKey children pos i with
    | none => best
    | some k =>
      match best with
      | none => some i
      | some b => match childKey children pos b with
        | some kb => if kLt kb k then some i else best
        | none => some i) none

def mapIdx (children : List (List Entry)) (pos : List Nat) (f : Nat → List Entry → Nat → Nat) : List Nat :=
  (List.range children.length).map fun i => f i (children.getD i []) (pos.getD i 0)

def MState.init (children : List (List Entry)) : MState :=
  { pos := children.map fun _ => 0, dir := .fwd, cur := none }

def MState.current (children : List (List Entry)) (s : MState) : Option Entry :=
  match s.cur with
  | some i => (children.getD i [])[s.pos.getD i 0]?
  | none => none

def keysOf (es : List Entry) : List (Bytes × Nat) := es.map Entry.key

/-- one operation; `next`/`prev` require a valid iterator (the code unwraps `current()`); on an
invalid one the model leaves the state unchanged -/
def mergeStep (children : List (List Entry)) (s : MState) : COp → MState
  | .seek t =>
    let pos := mapIdx children s.pos fun _ es _ => lowerBound (keysOf es) t
    { pos := pos, dir := .fwd, cur := findSmallest children pos }
  | .first =>
    let pos := mapIdx children s.pos fun _ _ _ => 0
    { pos := pos, dir := .fwd, cur := findSmallest children pos }
  | .last =>
    let pos := mapIdx children s.pos fun _ es _ => es.length - 1
    { pos := pos, dir := .bwd, cur := findLargest children pos }
  | .next =>
    match s.cur, s.current children with
    | some c, some e =>
      let pos1 := if s.dir == .bwd then
          mapIdx children s.pos fun i es p =>
            if i = c then p else
              let q := lowerBound (keysOf es) e.key
              -- positioned at the current key itself? step over it
              if (es[q]?.map Entry.key) == some e.key then q + 1 else q
        else s.pos
      let pos2 := mapIdx children pos1 fun i es p => if i = c then blockStep (keysOf es) p .next else p
      { pos := pos2, dir := .fwd, cur := findSmallest children pos2 }
    | _, _ => s
  | .prev =>
    match s.cur, s.current children with
    | some c, some e =>
      let pos1 := if s.dir == .fwd then
          mapIdx children s.pos fun i es p =>
            if i = c then p else
              let q := lowerBound (keysOf es) e.key
              if q < es.length then blockStep (keysOf es) q .prev else es.length - 1
        else s.pos
      let pos2 := mapIdx children pos1 fun i es p => if i = c then blockStep (keysOf es) p .prev else p
      { pos := pos2, dir := .bwd, cur := findLargest children pos2 }
    | _, _ => s

/-- the specification: all entries of all children, sorted -/
def merged (children : List (List Entry)) : List Entry := mergeAll children

end Rain.Merge
