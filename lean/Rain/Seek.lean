import Rain.Lsm
import Rain.Generated.Constants
/-
Model of the SEEK CHARGING that drives seek-triggered compactions:
`versioning/version.rs` (`Version::get` as far as `SeekChargeMetadata` is concerned,
`Version::update_stats`, `Version::record_read_sample`), `db.rs` (`DB::get`: which gets reach
`Version::get` at all) and `iterator.rs` (`sample_read_stats_for_current_key`).

What the code does (and the model follows):

* `Version::get` asks `get_overlapping_files(key)` for the candidate files per level — level 0:
  every file whose user-key range contains the user key, sorted by file number, newest first;
  level ≥ 1: the one file found by `find_file_with_upper_bound_range` (binary search over
  `largest` with the INTERNAL key, i.e. user key and sequence number) if its smallest user key is
  not above the user key — and performs `table_cache.get` on them in that order until one answers
  `Ok(_)` (found or deleted; `KeyNotFound` = "absent" continues).  Just before the SECOND lookup it
  stores the first file and its level in `SeekChargeMetadata`; later lookups do not change it.
  Hence: the first file consulted is charged iff at least two files were consulted.
* `DB::get` calls `Version::get` only when neither the memtable nor the immutable memtable answers
  (found or deleted); otherwise there is no charge at all (`dbGetCharge`).
* `Version::record_read_sample(key)` (iterators) calls the SAME `get_overlapping_files(key)` with
  the internal key the iterator stands on (so level 0 is newest first here too, not in the order
  the version keeps the files, and the deeper levels depend on the sequence number of that key as
  well), remembers the first file, and calls `update_stats` iff it saw at least two files.
* `update_stats`: decrement `allowed_seeks` of the charged file (an `i64` behind a lock shared by
  every version that holds the file; `Int` here: 2^63 decrements are out of reach); if it is now
  ≤ 0 and the version has no `file_to_compact` yet, record the file and the level and answer
  `true`.

Not modelled: a table read error (`Err(ReadError::TableRead(..))`) — the charge collected so far
is still applied by `DB::get` in that case.
-/
namespace Rain.Seek
open Rain Rain.Lsm

/-- the candidates of levels `lvl, lvl+1, …` (`get_overlapping_files`, loop over levels ≥ 1):
at most one file per level, tagged with its level -/
def deeperCandidates (lvl : Nat) (k : Bytes) (snap : Nat) : List (List File) → List (Nat × File)
  | [] => []
  | fs :: rest =>
    (match levelCandidate fs k snap with
     | some f => [(lvl, f)]
     | none => []) ++ deeperCandidates (lvl + 1) k snap rest

/-- `get_overlapping_files(key)` flattened in the order `Version::get` and
`Version::record_read_sample` walk it, every file tagged with its level -/
def candidates (levels : List (List File)) (k : Bytes) (snap : Nat) : List (Nat × File) :=
  match levels with
  | [] => []
  | l0 :: deeper =>
    ((l0Candidates l0 k).map fun f => (0, f)) ++ deeperCandidates 1 k snap deeper

/-- the table lookup `Version::get` performs on a candidate -/
def lookupAt (k : Bytes) (snap : Nat) (p : Nat × File) : Lookup := lookupSorted p.2.entries k snap

/-- the prefix of the candidates on which a lookup is performed: up to and including the first
one that answers found or deleted -/
def cutAtHit (k : Bytes) (snap : Nat) : List (Nat × File) → List (Nat × File)
  | [] => []
  | p :: rest =>
    match lookupAt k snap p with
    | .absent => p :: cutAtHit k snap rest
    | _ => [p]

/-- the (level, file) pairs on which `Version::get` performs a table lookup, in order -/
def consulted (levels : List (List File)) (k : Bytes) (snap : Nat) : List (Nat × File) :=
  cutAtHit k snap (candidates levels k snap)

/-- the first of at least two -/
def chargeOf : List (Nat × File) → Option (Nat × File)
  | p :: _ :: _ => some p
  | _ => none

/-- `SeekChargeMetadata` returned by `Version::get` -/
def getCharge (levels : List (List File)) (k : Bytes) (snap : Nat) : Option (Nat × File) :=
  chargeOf (consulted levels k snap)

/-- `SeekChargeMetadata` that `Version::record_read_sample` hands to `update_stats` (`none` when
it does not call it); `seq` is the sequence number of the internal key the iterator stands on -/
def sampleCharge (levels : List (List File)) (k : Bytes) (seq : Nat) : Option (Nat × File) :=
  chargeOf (candidates levels k seq)

/-- the charge `DB::get` applies: none at all when a memtable answers -/
def dbGetCharge (s : State) (k : Bytes) (snap : Nat) : Option (Nat × File) :=
  match lookupSorted s.mem k snap with
  | .absent =>
    (match (match s.imm with | some es => lookupSorted es k snap | none => Lookup.absent) with
     | .absent => getCharge s.levels k snap
     | _ => none)
  | _ => none

/-- the seek bookkeeping of one version: `allowed_seeks` by file number and
`SeekCompactionMetadata { file_to_compact, level_of_file_to_compact }` -/
structure SeekState where
  /-- `allowed_seeks` by file number -/
  allowed : Nat → Int
  /-- (file number, level) -/
  toCompact : Option (Nat × Nat)

/-- `Version::update_stats` -/
def updateStats (s : SeekState) (charge : Option (Nat × File)) : SeekState × Bool :=
  match charge with
  | none => (s, false)
  | some (l, f) =>
    let left : Int := s.allowed f.num - 1
    let allowed' : Nat → Int := fun n => if n = f.num then left else s.allowed n
    if left ≤ 0 ∧ s.toCompact.isNone = true then
      ({ allowed := allowed', toCompact := some (f.num, l) }, true)
    else
      ({ allowed := allowed', toCompact := s.toCompact }, false)

/-- `FileMetadata::set_file_size`: the seek budget a table file starts with (one seek per
`SEEK_DATA_SIZE_THRESHOLD_KIB` bytes, at least `MIN_ALLOWED_SEEKS`; the `i64::try_from` of the code
cannot fail for a quotient of a `u64` by 16384); both constants are regenerated from the sources -/
def initialAllowed (size : Nat) : Int :=
  let a : Int := (size / Rain.Gen.SEEK_DATA_SIZE_THRESHOLD : Nat)
  if a < (Rain.Gen.MIN_ALLOWED_SEEKS : Nat) then (Rain.Gen.MIN_ALLOWED_SEEKS : Nat) else a

/-- a read that may charge a file of the current version -/
inductive Read where
  /-- `Version::get` for user key `k` at sequence bound `snap` -/
  | get (k : Bytes) (snap : Nat)
  /-- `Version::record_read_sample` for the internal key `(k, seq)` -/
  | sample (k : Bytes) (seq : Nat)
  deriving Repr

def Read.charge (levels : List (List File)) : Read → Option (Nat × File)
  | .get k snap => getCharge levels k snap
  | .sample k seq => sampleCharge levels k seq

/-- any number of reads against one version (a new version starts with `toCompact = none`) -/
def applyReads (levels : List (List File)) (s : SeekState) : List Read → SeekState
  | [] => s
  | r :: rest => applyReads levels (updateStats s (r.charge levels)).1 rest

end Rain.Seek
