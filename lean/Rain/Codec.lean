import Rain.Block
/-
Executable models of two serialisation formats of the crate.

(A) The write batch record stored in the write-ahead log: `src/batch.rs`
    (`impl From<&Batch> for Vec<u8>`, `impl TryFrom<&[u8]> for Batch`, `BatchElement::read_element`,
    `impl From<&BatchElement> for Vec<u8>`).

        batch   := start:fixed64-LE  count:varint  element*
        element := 0x01 klen:varint key vlen:varint value        (Put)
                 | 0x00 klen:varint key                          (Delete)

    (The doc comment in `batch.rs` says the count is a fixed 32-bit integer; the code writes and
    reads a varint, and the model follows the code.)

(B) The manifest record: `src/versioning/version_manifest.rs` (`VersionChangeManifest`),
    `src/versioning/file_metadata.rs` (`FileMetadata` (de)serialisation), `src/key.rs`
    (`InternalKey`), `src/utils/io.rs` (`read_raindb_level`, `read_length_prefixed_slice`).

        edit  := field*
        field := 02 n:varint64                         wal_file_number
               | 09 n:varint64                         prev_wal_file_number
               | 03 n:varint64                         curr_file_number
               | 04 n:varint64                         prev_sequence_number
               | 05 level:varint32 slice(ikey)         compaction pointer
               | 06 level:varint32 n:varint64          deleted file
               | 07 level:varint32 number:varint64 size:varint64 slice(ikey) slice(ikey)   new file
        slice(x) := len:varint32 x
        ikey  := user-key seq:fixed64-LE op:u8         (op: 0 = Delete, 1 = Put; NINE trailer bytes,
                                                        the sequence number is a full 64-bit value)

    The encoder emits the fields in the order listed above (02, 09, 03, 04, all 05, all 06,
    all 07).  The decoder accepts them in any order and any multiplicity.

Integers: `integer-encoding` 3.0.4.  Fixed = little endian.  Varint = LEB128.
`read_varint::<T>` reads at most `ceil(bits(T)/7)` bytes (5 for `u32`, 10 for `u64`); it fails when
the input ends inside the number or when that many bytes all have the continuation bit; on success
the value is the LEB128 sum *truncated* to 64 bits and then cast (`as`) to `T`: neither overlong
encodings (`82 00` for 2) nor excess high bits (`82 80 80 80 10` read as a `u32` gives 2) are
rejected.  `rawVar`/`readU32`/`readU64` model exactly that.

Deliberate abstractions (everything else follows the code):
* Numbers are unbounded `Nat`; the well-formedness predicates (`BatchRec.WF`, `EditRec.WF`) say
  when a record is representable by the Rust types.  The encoders reproduce the Rust `as u32`
  casts of lengths, counts and levels (`% 2^32`), so they are faithful for every record whose
  64-bit fields are `< 2^64`; a 64-bit field `≥ 2^64` has no Rust counterpart.
* `Batch::starting_seq_number` is an `Option`; serialising a batch without one panics (`unwrap`).
  `BatchRec.start` is always present.  A `BatchElement` with `operation = Put` and `value = None`
  (panics in the encoder) cannot be built through the constructors and is not representable here.
* Every error (`Err(..)`) of the Rust decoders is `none`: error kinds and messages are dropped.
  No input makes the two decoders panic; `read_length_prefixed_slice` allocates `vec![0; len]`
  with `len` up to `2^32 - 1` *before* it finds out that the input is shorter (memory, not
  modelled).
* `VersionChangeManifest::deleted_files` is a `HashSet`: the encoder writes the deleted files in an
  unspecified (randomised) order and the decoder collapses duplicates.  `EditRec.deleted` is a
  list; `encodeEdit` writes it in list order; `decodeEditRaw` returns the deleted files in order of
  appearance and `decodeEdit` returns the canonical representative of the set (strictly ascending
  by (level, number)): `normDel`.
* `FileMetadata::allowed_seeks` is derived from the size and is not part of the record.
-/
namespace Rain.Codec
open Rain Rain.Block

/-! ### varints as read by `VarIntReader::read_varint` -/

/-- LEB128 with at most `fuel` bytes: untruncated value and the rest of the input. `none`: input
ends inside the number (`UnexpectedEof`) or `fuel` bytes all carry the continuation bit
(`Unterminated varint` / `decode_var` returning `None`). -/
def rawVar : Nat → Bytes → Option (Nat × Bytes)
  | 0, _ => none
  | _, [] => none
  | f+1, b :: rest =>
    if b.toNat < 128 then some (b.toNat, rest)
    else match rawVar f rest with
      | some (v, r) => some (b.toNat - 128 + 128 * v, r)
      | none => none

/-- `read_varint::<u32>()` -/
def readU32 (b : Bytes) : Option (Nat × Bytes) :=
  match rawVar 5 b with
  | some (v, r) => some (v % 2^32, r)
  | none => none

/-- `read_varint::<u64>()` -/
def readU64 (b : Bytes) : Option (Nat × Bytes) :=
  match rawVar 10 b with
  | some (v, r) => some (v % 2^64, r)
  | none => none

/-- `write_varint(x as u32)` / `u32::encode_var_vec(x as u32)` -/
def writeU32 (n : Nat) : Bytes := varint (n % 2^32)

/-- `write_length_prefixed_slice` -/
def writeSlice (s : Bytes) : Bytes := writeU32 s.length ++ s

/-- `read_exact` of `n` bytes in one pass over the input: `none` when fewer than `n` are left
(`Lemmas/Codec.lean`, `splitExact_eq`: `if r.length < n then none else some (r.take n, r.drop n)`) -/
def splitAux : Nat → Bytes → Bytes → Option (Bytes × Bytes)
  | 0, r, acc => some (acc.reverse, r)
  | _+1, [], _ => none
  | n+1, b :: r, acc => splitAux n r (b :: acc)

def splitExact (n : Nat) (r : Bytes) : Option (Bytes × Bytes) := splitAux n r []

/-- `read_length_prefixed_slice` -/
def readSlice (b : Bytes) : Option (Bytes × Bytes) :=
  match readU32 b with
  | some (n, r) => splitExact n r
  | none => none

/-! ### (A) batch records -/

/-- `some v` = Put, `none` = Delete -/
abbrev Op := Bytes × Option Bytes

structure BatchRec where
  start : Nat
  ops : List Op
  deriving DecidableEq, Repr

def optLen : Option Bytes → Nat
  | some v => v.length
  | none => 0

/-- key and value lengths survive the `as u32` casts -/
def opWF (op : Op) : Prop := op.1.length < 2^32 ∧ optLen op.2 < 2^32

instance (op : Op) : Decidable (opWF op) := by unfold opWF; infer_instance

/-- representable by `Batch` with in-range `as u32` casts -/
def BatchRec.WF (b : BatchRec) : Prop :=
  b.start < 2^64 ∧ b.ops.length < 2^32 ∧ ∀ op ∈ b.ops, opWF op

instance (b : BatchRec) : Decidable b.WF := by unfold BatchRec.WF; infer_instance

/-- `impl From<&BatchElement> for Vec<u8>` -/
def encodeOp : Op → Bytes
  | (k, some v) => 1 :: (writeSlice k ++ writeSlice v)
  | (k, none) => 0 :: writeSlice k

/-- `impl From<&Batch> for Vec<u8>` -/
def encodeBatch (b : BatchRec) : Bytes :=
  leBytes 8 b.start ++ (writeU32 b.ops.length ++ (b.ops.map encodeOp).flatten)

/-- `BatchElement::read_element`: the element and the unread rest -/
def readOp : Bytes → Option (Op × Bytes)
  | [] => none
  | t :: r =>
    if t.toNat = 1 then
      match readSlice r with
      | some (k, r1) =>
        match readSlice r1 with
        | some (v, r2) => some ((k, some v), r2)
        | none => none
      | none => none
    else if t.toNat = 0 then
      match readSlice r with
      | some (k, r1) => some ((k, none), r1)
      | none => none
    else none

/-- the `for _ in 0..num_operations` loop; what is left after the last element is dropped -/
def readOps : Nat → Bytes → Option (List Op)
  | 0, _ => some []
  | n+1, b =>
    match readOp b with
    | some (op, r) =>
      match readOps n r with
      | some ops => some (op :: ops)
      | none => none
    | none => none

/-- `impl TryFrom<&[u8]> for Batch`. Bytes after the `count`-th element are ignored. -/
def decodeBatch (b : Bytes) : Option BatchRec :=
  if b.length < 8 then none else
  match readU32 (b.drop 8) with
  | some (n, r) =>
    match readOps n r with
    | some ops => some { start := leVal (b.take 8), ops := ops }
    | none => none
  | none => none

/-! ### (B) manifest records -/

/-- `InternalKey` -/
structure IKey where
  ukey : Bytes
  seq : Nat
  /-- `true` = `Operation::Put` (1), `false` = `Operation::Delete` (0) -/
  put : Bool
  deriving DecidableEq, Repr

def IKey.toEntry (k : IKey) : Lsm.Entry := { ukey := k.ukey, seq := k.seq, put := k.put, val := [] }

/-- `InternalKey::as_bytes` (shared with the table model: `Block.encodeKey`) -/
def encodeIKey (k : IKey) : Bytes := encodeKey k.toEntry

/-- `InternalKey::try_from(Vec<u8>)` (`Block.decodeKey`) -/
def decodeIKey (b : Bytes) : Option IKey :=
  match decodeKey b with
  | some (u, s, p) => some { ukey := u, seq := s, put := p }
  | none => none

def IKey.WF (k : IKey) : Prop := k.seq < 2^64 ∧ k.ukey.length + 9 < 2^32

instance (k : IKey) : Decidable k.WF := by unfold IKey.WF; infer_instance

/-- `MAX_NUM_LEVELS` -/
def MAXLEVELS : Nat := Rain.Gen.MAX_NUM_LEVELS

/-- one tagged field of the record -/
inductive Field where
  | wal (n : Nat)
  | prevWal (n : Nat)
  | next (n : Nat)
  | seq (n : Nat)
  | ptr (level : Nat) (k : IKey)
  | del (level : Nat) (number : Nat)
  | file (level number size : Nat) (smallest largest : IKey)
  deriving DecidableEq, Repr

def Field.WF : Field → Prop
  | .wal n | .prevWal n | .next n | .seq n => n < 2^64
  | .ptr l k => l < MAXLEVELS ∧ k.WF
  | .del l n => l < MAXLEVELS ∧ n < 2^64
  | .file l n s a b => l < MAXLEVELS ∧ n < 2^64 ∧ s < 2^64 ∧ a.WF ∧ b.WF

instance (f : Field) : Decidable f.WF := by
  cases f <;> (simp only [Field.WF]; infer_instance)

def encodeField : Field → Bytes
  | .wal n => 2 :: varint n
  | .prevWal n => 9 :: varint n
  | .next n => 3 :: varint n
  | .seq n => 4 :: varint n
  | .ptr l k => 5 :: (writeU32 l ++ writeSlice (encodeIKey k))
  | .del l n => 6 :: (writeU32 l ++ varint n)
  | .file l n s a b =>
    7 :: (writeU32 l ++ (varint n ++ (varint s ++ (writeSlice (encodeIKey a) ++ writeSlice (encodeIKey b)))))

/-- `read_raindb_level` -/
def readLevel (b : Bytes) : Option (Nat × Bytes) :=
  match readU32 b with
  | some (l, r) => if l < MAXLEVELS then some (l, r) else none
  | none => none

/-- a length-prefixed internal key -/
def readIKey (b : Bytes) : Option (IKey × Bytes) :=
  match readSlice b with
  | some (s, r) =>
    match decodeIKey s with
    | some k => some (k, r)
    | none => none
  | none => none

/-- one iteration of the `while` loop of `impl TryFrom<&[u8]> for VersionChangeManifest`; `none` is
every `Err` exit: tag unreadable, unknown (0, > 9), `Comparator` (1) or `LargeValueRef` (8), or a
field value that cannot be read. -/
def readField (b : Bytes) : Option (Field × Bytes) :=
  match readU32 b with
  | none => none
  | some (tag, r) =>
    if tag = 2 then
      match readU64 r with | some (n, r) => some (.wal n, r) | none => none
    else if tag = 9 then
      match readU64 r with | some (n, r) => some (.prevWal n, r) | none => none
    else if tag = 3 then
      match readU64 r with | some (n, r) => some (.next n, r) | none => none
    else if tag = 4 then
      match readU64 r with | some (n, r) => some (.seq n, r) | none => none
    else if tag = 5 then
      match readLevel r with
      | some (l, r) => match readIKey r with | some (k, r) => some (.ptr l k, r) | none => none
      | none => none
    else if tag = 6 then
      match readLevel r with
      | some (l, r) => match readU64 r with | some (n, r) => some (.del l n, r) | none => none
      | none => none
    else if tag = 7 then
      match readLevel r with
      | some (l, r) =>
        match readU64 r with
        | some (n, r) =>
          match readU64 r with
          | some (s, r) =>
            match readIKey r with
            | some (a, r) => match readIKey r with | some (c, r) => some (.file l n s a c, r) | none => none
            | none => none
          | none => none
        | none => none
      | none => none
    else none

/-- the `while !value_reader.is_empty()` loop. Every field consumes at least its tag byte, so
`fuel > b.length` never runs out (`Props/Codec.lean`: `codec_readFields_fuel`). -/
def readFields : Nat → Bytes → Option (List Field)
  | 0, _ => none
  | _, [] => some []
  | fuel+1, b@(_ :: _) =>
    match readField b with
    | some (f, r) =>
      match readFields fuel r with
      | some fs => some (f :: fs)
      | none => none
    | none => none

structure NewFile where
  level : Nat
  number : Nat
  size : Nat
  smallest : IKey
  largest : IKey
  deriving DecidableEq, Repr

/-- `VersionChangeManifest` -/
structure EditRec where
  wal : Option Nat
  prevWal : Option Nat
  seq : Option Nat
  next : Option Nat
  ptrs : List (Nat × IKey)
  deleted : List (Nat × Nat)
  files : List NewFile
  deriving DecidableEq, Repr

def EditRec.empty : EditRec :=
  { wal := none, prevWal := none, seq := none, next := none, ptrs := [], deleted := [], files := [] }

def optWF : Option Nat → Prop
  | none => True
  | some n => n < 2^64

def NewFile.WF (f : NewFile) : Prop :=
  f.level < MAXLEVELS ∧ f.number < 2^64 ∧ f.size < 2^64 ∧ f.smallest.WF ∧ f.largest.WF

def EditRec.WF (e : EditRec) : Prop :=
  optWF e.wal ∧ optWF e.prevWal ∧ optWF e.seq ∧ optWF e.next ∧
  (∀ p ∈ e.ptrs, p.1 < MAXLEVELS ∧ p.2.WF) ∧
  (∀ d ∈ e.deleted, d.1 < MAXLEVELS ∧ d.2 < 2^64) ∧
  (∀ f ∈ e.files, f.WF)

instance (o : Option Nat) : Decidable (optWF o) := by
  cases o <;> (simp only [optWF]; infer_instance)

instance (f : NewFile) : Decidable f.WF := by unfold NewFile.WF; infer_instance

instance (e : EditRec) : Decidable e.WF := by unfold EditRec.WF; infer_instance

def optField (mk : Nat → Field) : Option Nat → List Field
  | none => []
  | some n => [mk n]

def NewFile.toField (f : NewFile) : Field := .file f.level f.number f.size f.smallest f.largest

/-- the fields in the order in which `impl From<&VersionChangeManifest> for Vec<u8>` writes them -/
def EditRec.fields (e : EditRec) : List Field :=
  optField .wal e.wal ++ (optField .prevWal e.prevWal ++ (optField .next e.next ++ (optField .seq e.seq ++
    (e.ptrs.map (fun p => Field.ptr p.1 p.2) ++ (e.deleted.map (fun d => Field.del d.1 d.2) ++
      e.files.map NewFile.toField)))))

def encodeFields (fs : List Field) : Bytes := (fs.map encodeField).flatten

def encodeEdit (e : EditRec) : Bytes := encodeFields e.fields

/-- effect of one decoded field on the manifest under construction: scalars overwrite, the others
accumulate -/
def applyField (e : EditRec) : Field → EditRec
  | .wal n => { e with wal := some n }
  | .prevWal n => { e with prevWal := some n }
  | .next n => { e with next := some n }
  | .seq n => { e with seq := some n }
  | .ptr l k => { e with ptrs := e.ptrs ++ [(l, k)] }
  | .del l n => { e with deleted := e.deleted ++ [(l, n)] }
  | .file l n s a b => { e with files := e.files ++ [⟨l, n, s, a, b⟩] }

/-- all fields of a record; `none` as soon as one of them is rejected -/
def decodeFields (b : Bytes) : Option (List Field) := readFields (b.length + 1) b

/-- the decoder with the deleted files kept as a list in order of appearance -/
def decodeEditRaw (b : Bytes) : Option EditRec :=
  match decodeFields b with
  | some fs => some (fs.foldl applyField EditRec.empty)
  | none => none

/-! #### the deleted files as a set -/

/-- strict order on (level, number) -/
def delLt (a b : Nat × Nat) : Prop := a.1 < b.1 ∨ (a.1 = b.1 ∧ a.2 < b.2)

instance (a b : Nat × Nat) : Decidable (delLt a b) := by unfold delLt; infer_instance

/-- insert into a strictly ascending list, dropping a duplicate -/
def insDel (x : Nat × Nat) : List (Nat × Nat) → List (Nat × Nat)
  | [] => [x]
  | y :: ys => if delLt x y then x :: y :: ys else if x = y then y :: ys else y :: insDel x ys

/-- canonical representative of the set of the elements of a list -/
def normDel (l : List (Nat × Nat)) : List (Nat × Nat) := l.foldr insDel []

def normEdit (e : EditRec) : EditRec := { e with deleted := normDel e.deleted }

/-- `impl TryFrom<&[u8]> for VersionChangeManifest`, the `HashSet` of deleted files represented by
its strictly ascending list -/
def decodeEdit (b : Bytes) : Option EditRec :=
  match decodeEditRaw b with
  | some e => some (normEdit e)
  | none => none

end Rain.Codec
