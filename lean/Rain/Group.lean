import Rain.Generated.Constants
/-
How the leader of the writer queue forms a GROUP COMMIT: `DB::build_group_commit_batch`
(`/repo/src/db.rs`) and the part of its caller `DB::apply_changes` that pops the queue.

`Rain/Proto.lean` abstracts the group as "the first `j ≥ 1` queued writers", any `j`.  This model
says WHICH `j` the code picks (`Result.members`) and which writers it pops and acknowledges with
the leader's result (`popped`), which may be one more than `j`.

What is modelled (the code as it stands):

* The queue is `writer_queue` at the moment the leader holds the mutex and calls
  `build_group_commit_batch`; index 0 is the leader.  A writer is (approximate size of its batch,
  `WriteOptions::synchronous`, whether it has a batch at all).  A writer WITHOUT a batch is a
  forced memtable compaction (`force_memtable_compaction`, reached from the public
  `DB::compact_range`): `apply_changes(WriteOptions::default(), None)`, so its flag is `false` in
  every run of the real code; the model does not assume this.
* `build` is `none` exactly where the Rust returns `Err`: empty queue, or a leader without a batch.
  Neither is reachable from `apply_changes` (the leader is in the queue, and the call is guarded by
  `!force_compaction`); if it were, the `?` would return with the queue unpopped.
* The loop over the followers, in the order of the Rust tests:
    1. a synchronous follower behind a non-synchronous leader stops the loop (not taken, not popped);
    2. a batch-less follower stops the loop and BECOMES `last_writer` (not in the group, but popped);
    3. `batch_size += size; if batch_size > max_size { break }` (not taken, not popped);
    4. otherwise the follower joins the group and becomes `last_writer`.
  Sizes are `usize` in Rust; the model uses `Nat` (no overflow: the sums are bounded by memory).
* After the WAL append and the memtable insertion `apply_changes` pops the queue up to and including
  `last_writer`; every popped writer other than the leader gets `operation_completed = true` and a
  clone of the leader's `write_result`: `popped`.  A batch-less writer taken as `last_writer` is
  therefore acknowledged with the leader's result although `make_room_for_write(force = true)` was
  never run for it: ITS FORCED COMPACTION IS NOT PERFORMED (see the report / DESIGN).
* `groupSync`: the flag of the leader.  It is the only flag the code compares against (test 1);
  the WAL write itself — `(*self.wal().get()).append(..)` — takes NO flag: `LogWriter::append` does
  `write_all` + `flush` for every fragment and the code base never calls `fsync`/`sync_all`.  So
  `WriteOptions::synchronous` influences only the formation of the group.  `groupSync` is what a
  LevelDB-style `if options.sync { log.sync() }` of the leader would use; the C02 theorem says that
  under that reading no synchronous writer is acknowledged by an unsynced group.
-/
namespace Rain.Group

/-- one entry of `writer_queue` -/
structure Writer where
  /-- `batch.get_approximate_size()`; meaningless when `hasBatch = false` -/
  size : Nat
  /-- `is_synchronous_write()` -/
  sync : Bool
  /-- `maybe_batch().is_some()`; `false` = a forced-compaction request -/
  hasBatch : Bool
  deriving Repr, DecidableEq, Inhabited

structure Params where
  /-- `MAX_GROUP_COMMIT_SIZE_BYTES` -/
  maxGroup : Nat
  /-- `GROUP_COMMIT_SMALL_WRITE_THRESHOLD_BYTES` -/
  small : Nat
  /-- `SMALL_WRITE_ADDITIONAL_GROUP_COMMIT_SIZE_BYTES` -/
  extra : Nat
  deriving Repr, DecidableEq

/-- the constants of `/repo/src/config.rs` -/
def codeParams : Params :=
  { maxGroup := Rain.Gen.MAX_GROUP_COMMIT_SIZE_BYTES
    small := Rain.Gen.GROUP_COMMIT_SMALL_WRITE_THRESHOLD_BYTES
    extra := Rain.Gen.SMALL_WRITE_ADDITIONAL_GROUP_COMMIT_SIZE_BYTES }

/-- `max_size`: a small leader lets the group grow by `extra` only -/
def maxSize (p : Params) (first : Writer) : Nat :=
  if first.size ≤ p.small then first.size + p.extra else p.maxGroup

structure Result where
  /-- number of writers whose batch is in the group: a prefix of the queue -/
  members : Nat
  /-- index of `last_writer` in the queue -/
  last : Nat
  /-- sum of the sizes of the members -/
  total : Nat
  deriving Repr, DecidableEq

/-- The `for writer in writer_iter` loop.  `idx` is the queue index of the head of the remaining
list; `acc` holds `num_writers_in_batch`, the index of `last_writer`, and `batch_size` (of the
batches appended so far — the Rust variable also counts the batch that was refused, but is not
used after the `break`). -/
def loop (leaderSync : Bool) (cap : Nat) : List Writer → Nat → Result → Result
  | [], _, acc => acc
  | w :: rest, idx, acc =>
    if w.sync && !leaderSync then acc
    else if !w.hasBatch then { acc with last := idx }
    else if acc.total + w.size > cap then acc
    else loop leaderSync cap rest (idx + 1)
      { members := acc.members + 1, last := idx, total := acc.total + w.size }

/-- `build_group_commit_batch`; `none` = the Rust returns `Err` -/
def build (p : Params) : List Writer → Option Result
  | [] => none
  | first :: rest =>
    if first.hasBatch then
      some (loop first.sync (maxSize p first) rest 1
        { members := 1, last := 0, total := first.size })
    else none

/-- writers removed from the queue by the leader; all but the leader are acknowledged with the
leader's result -/
def popped (r : Result) : Nat := r.last + 1

/-- the synchronous flag of the group = that of the leader (see the header: the WAL append of the
code takes no flag at all) -/
def groupSync (queue : List Writer) : Bool :=
  match queue with
  | [] => false
  | first :: _ => first.sync

/-- sum of the sizes of the first `n` writers -/
def sizeOfPrefix (queue : List Writer) (n : Nat) : Nat :=
  ((queue.take n).map Writer.size).sum

end Rain.Group
