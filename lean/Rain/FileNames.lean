import Rain.Generated.Constants
/-
Model of `src/file_names.rs` and of the decisions taken on file NAMES:

* the names the database gives its files (`FileNameHandler::get_wal_file_path`,
  `get_table_file_path`, `get_manifest_file_path`, `get_temp_file_path`: a pushed component
  followed by `PathBuf::set_extension`), the contents of CURRENT (`DB::set_current_file`),
* the parser `FileNameHandler::get_file_type_from_name` with `Path::extension` /
  `Path::file_stem` (split at the LAST dot; a name whose only dot is its first character has no
  extension), `str::strip_prefix` and `str::parse::<u64>` (optional `+`, decimal digits, leading
  zeros allowed, overflow rejected),
* the per-folder deletion decision of `DB::remove_obsolete_files`, the WAL selection of
  `DB::recover_unrecorded_logs` and the reading of CURRENT in `VersionSet::recover`.

A name is a list of code points; it is the LAST COMPONENT of a path (no `/`, not `.` or `..`:
`Path::file_name` then returns it unchanged - trusted). All string literals come from the source
(`Rain.Gen.FN_*`), the format side and the parse side separately.
-/
namespace Rain.FileNames
open Rain.Gen

abbrev Name := List Nat

inductive Kind where
  | wal (n : Nat)
  | lock
  | table (n : Nat)
  | manifest (n : Nat)
  | current
  | temp (n : Nat)
  deriving DecidableEq, Repr

def dot : Nat := 46
def plus : Nat := 43
def newline : Nat := 10
/-- `u64::MAX + 1` -/
def U64 : Nat := 18446744073709551616

/-- decimal digits, most significant first (`u64::to_string`, `format!("{n}")`) -/
def digits (n : Nat) : List Nat :=
  if n < 10 then [48 + n] else digits (n / 10) ++ [48 + n % 10]
termination_by n
decreasing_by omega

def isDigit (c : Nat) : Bool := decide (48 ≤ c) && decide (c ≤ 57)

/-- the digit loop of `u64::from_str`: `none` on a character that is not a decimal digit -/
def valueFrom (acc : Nat) : List Nat → Option Nat
  | [] => some acc
  | c :: cs => if isDigit c then valueFrom (acc * 10 + (c - 48)) cs else none

/-- `str::parse::<u64>()`: empty and a lone sign are errors, one leading `+` is skipped, `-` is
    an invalid digit for an unsigned type, a value above `u64::MAX` is an overflow error -/
def parseU64 (s : List Nat) : Option Nat :=
  let ds := match s with
    | c :: rest => if c = plus then rest else s
    | [] => []
  match ds with
  | [] => none
  | _ => match valueFrom 0 ds with
    | some v => if v < U64 then some v else none
    | none => none

/-- split at the LAST dot (`rsplitn(2, '.')`): `some (before, after)`, `none` without a dot -/
def rsplitDot : Name → Option (Name × Name)
  | [] => none
  | c :: cs =>
    match rsplitDot cs with
    | some (b, a) => some (c :: b, a)
    | none => if c = dot then some ([], cs) else none

/-- `(Path::file_stem, Path::extension)` of a file name (`rsplit_file_at_dot`) -/
def stemExt (name : Name) : Name × Option Name :=
  if name = [dot, dot] then (name, none) else
  match rsplitDot name with
  | none => (name, none)
  | some ([], _) => (name, none)
  | some (b, a) => (b, some a)

/-- `PathBuf::set_extension` on the last component (non-empty extension) -/
def setExtension (name ext : Name) : Name := (stemExt name).1 ++ dot :: ext

def walName (n : Nat) : Name := setExtension (FN_WAL_FMT_PREFIX ++ digits n) FN_WAL_EXT
def tableName (n : Nat) : Name := setExtension (digits n) FN_TABLE_EXT
def manifestName (n : Nat) : Name := setExtension (FN_MANIFEST_FMT_PREFIX ++ digits n) FN_MANIFEST_EXT
def tempName (n : Nat) : Name := setExtension (digits n) FN_TEMP_EXT

def nameOf : Kind → Name
  | .wal n => walName n
  | .lock => FN_LOCK_FILE
  | .table n => tableName n
  | .manifest n => manifestName n
  | .current => FN_CURRENT_FILE
  | .temp n => tempName n

/-- `str::strip_prefix` -/
def stripPrefix : Name → Name → Option Name
  | [], s => some s
  | _ :: _, [] => none
  | p :: ps, c :: cs => if p = c then stripPrefix ps cs else none

/-- `FileNameHandler::parse_file_number` -/
def parseNumber (stem pre : Name) : Option Nat :=
  match stripPrefix pre stem with
  | some rest => parseU64 rest
  | none => none

/-- `FileNameHandler::get_file_type_from_name` (`none` = `Err(PathResolution)`) -/
def parse (name : Name) : Option Kind :=
  if name = FN_CURRENT_FILE then some .current
  else if name = FN_LOCK_FILE then some .lock
  else match stemExt name with
    | (stem, some ext) =>
      if ext = FN_MANIFEST_EXT then (parseNumber stem FN_MANIFEST_PARSE_PREFIX).map .manifest
      else if ext = FN_WAL_EXT then (parseNumber stem FN_WAL_PARSE_PREFIX).map .wal
      else if ext = FN_TABLE_EXT then (parseNumber stem FN_TABLE_PARSE_PREFIX).map .table
      else if ext = FN_TEMP_EXT then (parseNumber stem FN_TEMP_PARSE_PREFIX).map .temp
      else none
    | (_, none) => none

/-- what `DB::set_current_file` writes into CURRENT -/
def currentContents (n : Nat) : Name := manifestName n ++ [newline]

/-- `VersionSet::recover` reading CURRENT: non-empty, ends with a newline, the rest names a manifest -/
def parseCurrent (contents : Name) : Option Nat :=
  match contents.reverse with
  | [] => none
  | c :: rest =>
    if c = newline then
      match parse rest.reverse with
      | some (.manifest n) => some n
      | _ => none
    else none

inductive Folder where
  | wal | data | main
  deriving DecidableEq, Repr

/-- what `remove_obsolete_files` consults -/
structure Live where
  /-- `tables_in_use` ∪ `get_live_files()` -/
  live : List Nat
  walNo : Nat
  prevWal : Option Nat
  manifestNo : Nat
  deriving Repr

/-- does `remove_obsolete_files` put the file `name` found in `folder` on its deletion list? -/
def deletes (L : Live) (folder : Folder) (name : Name) : Bool :=
  match folder, parse name with
  | .wal, some (.wal n) => !(decide (L.walNo ≤ n)) && !(L.prevWal == some n)
  | .data, some (.table n) => !(L.live.contains n)
  | .main, some (.manifest n) => decide (n < L.manifestNo)
  | .main, some (.temp n) => !(L.live.contains n)
  | _, _ => false

/-- the names of a folder that survive a deletion pass -/
def survivors (L : Live) (folder : Folder) (names : List Name) : List Name :=
  names.filter fun nm => !(deletes L folder nm)

/-- `recover_unrecorded_logs`: is this name a WAL to replay? -/
def walToReplay (minLog : Nat) (nm : Name) : Option Nat :=
  match parse nm with
  | some (.wal n) => if minLog ≤ n then some n else none
  | _ => none

/-- `recover_unrecorded_logs`: the WAL numbers to replay among all file names of the database
    (before sorting) -/
def logsToRecover (minLog : Nat) (names : List Name) : List Nat :=
  names.filterMap (walToReplay minLog)

/-- the file number a name carries, of whatever kind (`recover_unrecorded_logs` removes it from the
    set of expected files for tables, manifests, temp files and WALs alike) -/
def numberOf : Kind → Option Nat
  | .wal n | .table n | .manifest n | .temp n => some n
  | _ => none

def presentNumbers (names : List Name) : List Nat :=
  names.filterMap fun nm => (parse nm).bind numberOf

/-- `recover_unrecorded_logs`: the live table numbers no file name accounts for (non-empty =
    `Corruption: missing files`, the open fails) -/
def missingFiles (live : List Nat) (names : List Name) : List Nat :=
  live.filter fun n => !((presentNumbers names).contains n)

end Rain.FileNames
