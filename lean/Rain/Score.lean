import Rain.Lsm
import Rain.Pick
/-
Model of how RainDB decides WHICH table compaction to run:
`versioning/version.rs` (`Version::finalize`, `requires_size_compaction`, `max_bytes_for_level`),
`versioning/utils.rs` (`sum_file_sizes`) and the size-triggered branch of
`versioning/version_set.rs` (`VersionSet::pick_compaction`); LevelDB's `VersionSet::Finalize` and
`VersionSet::PickCompaction`.  What happens to the chosen seed afterwards
(`finalize_compaction_inputs`) is `Rain.Lsm.setupOtherInputs` of `Rain/Pick.lean`.

`Version::finalize` gives every level a score and remembers the level with the best one:
* level 0: `files.len() / L0_COMPACTION_TRIGGER` with INTEGER division (LevelDB divides floats, so
  there 7 files score 1.75; here they score 1);
* level `l ≥ 1`: (sum of the file sizes) / `max_bytes_for_level(l)`, 10 MiB for level 1 and ten
  times more per deeper level;
* the loop starts with the best score `-1` and replaces on a strictly greater score, so level 0 is
  always taken first and ties keep the shallower level.

`Params.scoredLevels` is the number of levels the loop visits.  The code as written visits all
`MAX_NUM_LEVELS = 7` levels, the last one included (LevelDB: `level < kNumLevels - 1`), and
`pick_compaction` then fails `assert!(level_to_compact + 1 < MAX_NUM_LEVELS)` when level 6 has the
best score ≥ 1 (finding D21, `Rain/Legacy/ScoreD21.lean`).  The repaired loop is
`0..MAX_NUM_LEVELS - 1`, `scoredLevels = 6`, which is the default here.

Deviations.
* Scores are exact rationals `(numerator, denominator)` compared by cross-multiplication; the Rust
  code computes `f64`.  The two agree as long as the byte counts and limits are exactly
  representable (below 2^53) and two different scores are not closer than one part in 2^52; in
  particular `score ≥ 1.0` is exactly `bytes ≥ limit` (the quotient of two integers below 2^53 is
  never rounded across 1.0).
* A level that is missing from the input list counts as empty.  With `scoredLevels = 0` the Rust
  loop would leave the score at `-1`; the model always scores level 0 (only 6 and 7 are used).
* Only the size-triggered branch: the seek-triggered branch (`needs_seek_compaction`) needs the
  seek bookkeeping of reads and is not part of this model, `pickOutcome` answers `nothing` where
  the Rust code would go on to look at it.
* Where the Rust code panics (`assert!(level + 1 < MAX_NUM_LEVELS)`; `files[level][0]` on an empty
  level) `pickOutcome` has a separate answer and `pickCompaction` answers `none`.  (The second one
  is proved unreachable for every parameter set, `C09_empty_level_is_never_chosen`.)  A third
  panic is inherited from `Rain/Pick.lean`: a level-0 seed file whose smallest user key is above
  its largest one makes the overlap search return nothing and `get_key_range_for_files` assert;
  the model answers `picked 0` with empty inputs (excluded by the invariant).
* The compaction pointers are an input.  `pick_compaction` DISCARDS the key returned by
  `finalize_compaction_inputs` (only `compact_range` stores it at once); the pointer of a level
  changes when the change manifest of the finished compaction is applied, and the key recorded
  there is the SMALLEST key of the level-`L` inputs (LevelDB records the largest).
-/
namespace Rain.Score
open Rain Rain.Lsm

/-- `MAX_NUM_LEVELS` -/
def numLevels : Nat := 7

structure Params where
  /-- `L0_COMPACTION_TRIGGER` -/
  l0Trigger : Nat := 4
  /-- bytes allowed in level 1 (`max_bytes_for_level(1)`, 10 MiB) -/
  levelOneMax : Nat := 10485760
  /-- number of levels the loop of `Version::finalize` visits -/
  scoredLevels : Nat := 6
  deriving Repr, DecidableEq

/-- `Version::max_bytes_for_level` (level 0 is never asked) -/
def maxBytes (p : Params) (lvl : Nat) : Nat := p.levelOneMax * 10 ^ (lvl - 1)

/-! ### scores -/

/-- a score `num / den` -/
abbrev Score := Nat × Nat

/-- `a < b` as rationals (denominators positive) -/
def Score.lt (a b : Score) : Prop := a.1 * b.2 < b.1 * a.2

/-- `a ≤ b` as rationals (denominators positive) -/
def Score.le (a b : Score) : Prop := a.1 * b.2 ≤ b.1 * a.2

/-- `new_score > best_score` -/
def scoreGt (a b : Score) : Bool := decide (a.1 * b.2 > b.1 * a.2)

/-- `score >= 1.0` -/
def scoreGeOne (a : Score) : Bool := decide (a.1 ≥ a.2)

/-- (file count, total bytes) of a level; a missing level is empty -/
def statAt (ls : List (Nat × Nat)) (lvl : Nat) : Nat × Nat := ls.getD lvl (0, 0)

def countAt (ls : List (Nat × Nat)) (lvl : Nat) : Nat := (statAt ls lvl).1

def bytesAt (ls : List (Nat × Nat)) (lvl : Nat) : Nat := (statAt ls lvl).2

/-- the score `Version::finalize` gives to level `lvl` -/
def scoreAt (p : Params) (ls : List (Nat × Nat)) (lvl : Nat) : Score :=
  if lvl = 0 then (countAt ls 0 / p.l0Trigger, 1) else (bytesAt ls lvl, maxBytes p lvl)

/-! ### `Version::finalize` -/

/-- one iteration of the loop for `lvl`: `(best_level, best_score)` before → after -/
def finalizeStep (p : Params) (ls : List (Nat × Nat)) (best : Nat × Score) (lvl : Nat) :
    Nat × Score :=
  if scoreGt (scoreAt p ls lvl) best.2 then (lvl, scoreAt p ls lvl) else best

/-- `n` iterations of the loop starting with level `lvl` -/
def finalizeLoop (p : Params) (ls : List (Nat × Nat)) : Nat → Nat → Nat × Score → Nat × Score
  | 0, _, best => best
  | n + 1, lvl, best => finalizeLoop p ls n (lvl + 1) (finalizeStep p ls best lvl)

/-- `Version::finalize` on the per-level (file count, total bytes): `(compaction_level,
compaction_score)`.  The first iteration (level 0 against the initial score `-1`) always
replaces. -/
def finalize (p : Params) (ls : List (Nat × Nat)) : Nat × Score :=
  finalizeLoop p ls (p.scoredLevels - 1) 1 (0, scoreAt p ls 0)

/-- `Version::requires_size_compaction` -/
def needsSize (p : Params) (ls : List (Nat × Nat)) : Bool := scoreGeOne (finalize p ls).2

/-! ### `VersionSet::pick_compaction`, size-triggered branch -/

/-- the file the compaction starts from: the first file of the level whose largest key is above
the compaction pointer of the level (any file if there is no pointer), else wrap around to the
first file of the level; `none` where the Rust code indexes `files[level][0]` of an empty level -/
def pickSeed (fs : List File) (pointer : Option (Bytes × Nat)) : Option File :=
  match pointer with
  | none => fs.head?
  | some k =>
    match fs.find? fun f => kLt k f.largest with
    | some f => some f
    | none => fs.head?

/-- what `Version::finalize` looks at: per level (number of files, `sum_file_sizes`) -/
def levelStats (size : Nat → Nat) (levels : List (List File)) : List (Nat × Nat) :=
  levels.map fun fs => (fs.length, sumSizes size fs)

/-- `input_files[0]` when `finalize_compaction_inputs` is called: the chosen file, at level 0
replaced by `get_overlapping_compaction_inputs(0, range of the file)`
(`get_key_range_for_files` of one file is its own smallest and largest key; only the user keys
are used) -/
def seedFiles (fs : List File) (lvl : Nat) (f : File) : List File :=
  if lvl = 0 then overlapping fs true (some f.smallest.1) (some f.largest.1) else [f]

inductive Outcome where
  /-- no size compaction is needed (the Rust code goes on to the seek-triggered branch) -/
  | nothing
  /-- the manifest: level, `input_files[0]`, `input_files[1]` -/
  | picked (lvl : Nat) (in0 in1 : List File)
  /-- `assert!(level_to_compact + 1 < MAX_NUM_LEVELS)` fails: the compaction thread panics -/
  | lastLevelChosen (lvl : Nat)
  /-- `current_version.files[level_to_compact][0]` on a level without files: index panic -/
  | emptyLevelChosen (lvl : Nat)
  deriving Repr, DecidableEq

/-- `pick_compaction` (size-triggered branch) on the files per level, `size` of a file by number,
the compaction pointers per level and `DbOptions::max_file_size` -/
def pickOutcome (p : Params) (maxFileSize : Nat) (size : Nat → Nat) (levels : List (List File))
    (pointers : List (Option (Bytes × Nat))) : Outcome :=
  let stats := levelStats size levels
  if needsSize p stats then
    let lvl := (finalize p stats).1
    if numLevels ≤ lvl + 1 then .lastLevelChosen lvl
    else
      let fs := levels.getD lvl []
      match pickSeed fs (pointers.getD lvl none) with
      | none => .emptyLevelChosen lvl
      | some f =>
        let r := setupOtherInputs size levels lvl (seedFiles fs lvl f) maxFileSize
        .picked lvl r.1 r.2
  else .nothing

/-- the picked compaction: (level, inputs of the level, inputs of the next level) -/
def pickCompaction (p : Params) (maxFileSize : Nat) (size : Nat → Nat) (levels : List (List File))
    (pointers : List (Option (Bytes × Nat))) : Option (Nat × List File × List File) :=
  match pickOutcome p maxFileSize size levels pointers with
  | .picked lvl in0 in1 => some (lvl, in0, in1)
  | _ => none

/-! ### `VersionSet::pick_compaction`, seek-triggered branch and the whole function -/

/-- the seek-triggered branch: the recorded file (`SeekCompactionMetadata::file_to_compact` with
its level) is the only level input, at level 0 replaced by the level-0 files overlapping it, then
`finalize_compaction_inputs`.  There is no assertion in this branch: a level without a next level
would index `files[level + 1]` out of bounds inside `finalize_compaction_inputs` -/
def pickSeek (maxFileSize : Nat) (size : Nat → Nat) (levels : List (List File)) (lvl : Nat) (f : File) :
    Outcome :=
  if numLevels ≤ lvl + 1 then .lastLevelChosen lvl
  else
    let r := setupOtherInputs size levels lvl (seedFiles (levels.getD lvl []) lvl f) maxFileSize
    .picked lvl r.1 r.2

/-- the whole `pick_compaction`: a size compaction is preferred; otherwise the recorded seek
compaction `(level, file)`, if any -/
def pickAny (p : Params) (maxFileSize : Nat) (size : Nat → Nat) (levels : List (List File))
    (pointers : List (Option (Bytes × Nat))) (seek : Option (Nat × File)) : Outcome :=
  match pickOutcome p maxFileSize size levels pointers with
  | .nothing =>
    match seek with
    | some (lvl, f) => pickSeek maxFileSize size levels lvl f
    | none => .nothing
  | o => o

end Rain.Score
