import Rain.Lsm
/-
Model of `compaction/manifest.rs CompactionManifest::is_base_level_for_key` AS THE CODE COMPUTES IT:
with one pointer per deeper level (`base_level_pointers`) that only moves forward, so that the
whole compaction scans each deeper level once.  The LSM model (`Rain.Lsm.isBaseLevel`) uses the
specification instead — no file of a level ≥ `L + 2` has the user key inside its user-key range —
and `Rain/Props/BaseLevel.lean` proves the two equal whenever the keys are asked in ascending
order (the merged input of a compaction is sorted) on levels that are sorted and disjoint.

Rust, per level `L+2 ..`:
    while ptr < files.len() {
        let f = &files[ptr];
        if user_key <= f.largest.user_key {
            if user_key >= f.smallest.user_key { return false; }   // later levels keep their pointers
            break;
        }
        ptr += 1;
    }
-/
namespace Rain.BaseLevel
open Rain Rain.Lsm

/-- the `while` loop on the files from the pointer on: (the key lies inside a file, files skipped) -/
def scanFiles (k : Bytes) : List File → Nat → Bool × Nat
  | [], n => (false, n)
  | f :: rest, n =>
    if !bytesLt f.largest.1 k then
      (!bytesLt k f.smallest.1, n)
    else scanFiles k rest (n + 1)

/-- one level: from its pointer -/
def levelStep (fs : List File) (ptr : Nat) (k : Bytes) : Bool × Nat :=
  scanFiles k (fs.drop ptr) ptr

/-- `is_base_level_for_key` over the levels `L+2 ..` with their pointers: the answer and the
pointers afterwards -/
def isBaseP : List (List File) → List Nat → Bytes → Bool × List Nat
  | [], _, _ => (true, [])
  | fs :: ls, ptrs, k =>
    let r := levelStep fs (ptrs.headD 0) k
    if r.1 then (false, r.2 :: ptrs.tail)
    else
      let rest := isBaseP ls ptrs.tail k
      (rest.1, r.2 :: rest.2)

/-- the answers for a sequence of keys, pointers threaded through -/
def isBaseSeq (deeper : List (List File)) : List Nat → List Bytes → List Bool
  | _, [] => []
  | ptrs, k :: ks =>
    let r := isBaseP deeper ptrs k
    r.1 :: isBaseSeq deeper r.2 ks

/-- the levels the code looks at for a compaction of level `lvl`, pointers all 0 -/
def deeperLevels (levels : List (List File)) (lvl : Nat) : List (List File) := levels.drop (lvl + 2)

/-- ascending (not necessarily strictly): every key is at least the one before -/
def Ascending : List Bytes → Prop
  | [] => True
  | [_] => True
  | a :: b :: rest => bytesLt b a = false ∧ Ascending (b :: rest)

end Rain.BaseLevel
