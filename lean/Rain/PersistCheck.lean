import Rain.Persist
/-
Executable form of the relation `Rel` between the LSM state and the disk image that the
composition theorems of `Rain/Props/Persist.lean` maintain (`Rain/Lemmas/Persist.lean`), so that it
can be EVALUATED on real states: the harness dumps the running database at quiescent points (state
dump + table contents) and rebuilds the disk image from the recorded filesystem operations; the
driver answers whether the two are related.  `Rain/Props/PersistCheck.lean` proves that a positive
answer implies `Rel`.
-/
namespace Rain.Persist
open Rain Rain.Lsm Rain.Durable

def subList {α : Type} [BEq α] (a b : List α) : Bool := a.all fun x => b.contains x

def sameSet {α : Type} [BEq α] (a b : List α) : Bool := subList a b && subList b a

def batchesFlatB (bs : List WBatch) : List Entry := (bs.map batchEntries).flatten

/-- the level part of `levelPairs`, with the files -/
def filesWithLevel : Nat → List (List File) → List (Nat × File)
  | _, [] => []
  | l, fs :: rest => (fs.map fun f => (l, f)) ++ filesWithLevel (l + 1) rest

def relB (p : PState) : Bool :=
  invB p.s &&
  decide ((p.d.manifests.map Prod.fst).Nodup) && decide ((p.d.wals.map Prod.fst).Nodup) &&
  decide ((p.d.tables.map Prod.fst).Nodup) &&
  (p.d.current == some p.c.manifest) &&
  (match lookup p.d.manifests p.c.manifest with
   | none => false
   | some es =>
     (walNoOf es == some p.c.manWal) && decide (p.c.manWal ≤ p.c.w0) &&
     sameSet (versionOf es) (levelPairs p.s.levels)) &&
  (p.s.levels.flatten.all fun f => lookup p.d.tables f.num == some f.entries) &&
  (match lookup p.d.wals p.c.wal with
   | some bs => sameSet (batchesFlatB bs) p.s.mem
   | none => false) &&
  (match p.c.immWal, p.s.imm with
   | none, none => true
   | some wi, some im =>
     decide (wi < p.c.wal) &&
     (match lookup p.d.wals wi with
      | some bs => sameSet (batchesFlatB bs) im
      | none => false)
   | _, _ => false) &&
  (p.d.wals.all fun x => x.1 == p.c.wal || some x.1 == p.c.immWal || decide (x.1 < p.c.manWal) || x.2.isEmpty) &&
  (p.d.wals.all fun x => decide (x.1 ≤ p.c.wal) || x.2.isEmpty)

/-- the directory part (`Tight`): exactly the live files -/
def tightB (p : PState) : Bool :=
  sameSet (p.d.tables.map Prod.fst) (p.s.levels.flatten.map File.num) &&
  sameSet (p.d.wals.map Prod.fst) (p.c.wal :: (match p.c.immWal with | some w => [w] | none => [])) &&
  sameSet (p.d.manifests.map Prod.fst) [p.c.manifest]

end Rain.Persist
