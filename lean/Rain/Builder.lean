import Rain.Lsm
import Rain.Durable
/-
Model of RainDB's version builder: `versioning/version_builder.rs`
(`VersionBuilder::accumulate_changes`, `apply_changes`, `maybe_add_file`), the order
`FileMetadataBySmallestKey` (`versioning/file_metadata.rs`) and the two ways it is driven:

* the running database, `VersionSet::log_and_apply` → `get_new_version_from_current`: a NEW builder
  per edit, `accumulate_changes(edit)`, `apply_changes(current version)`;
* recovery, `VersionSet::recover`: ONE builder, `accumulate_changes` for every record of the
  manifest, then one `apply_changes` on the (empty) current version.

What is modelled
* An edit (`VersionChangeManifest`) carries deleted `(level, file number)` pairs, added
  `(level, file)` pairs and compaction pointers `(level, key)`.  The other fields (WAL numbers,
  sequence number, next file number) do not pass through the builder.
* The builder keeps, per level, a SET of deleted numbers and a SET of added files
  (`[HashSet<u64>; 7]`, `[HashSet<Arc<FileMetadata>>; 7]`).  The model keeps ONE duplicate-free
  list of `(level, number)` pairs and ONE duplicate-free list of `(level, file)` pairs; the
  per-level set is the projection (`addedAt`, membership of `(level, num)`).  Insertion appends
  if absent, removal filters.  `accumulate_changes` first inserts every deleted pair, then for
  every added file removes its number from the level's deleted set and inserts the file into the
  level's added set.  Nothing ever leaves the added set.
* `apply_changes`, per level: the added files sorted by `FileMetadataBySmallestKey` (smallest
  internal key, ties by file number; a stable sort), the base files sorted the same way, a merge
  that takes the base file only if it is STRICTLY smaller (so on a tie the added file goes
  first), every file passed through `maybe_add_file`, which drops it when its number is in the
  level's deleted set and, at levels > 0, asserts `last.largest < file.smallest` against the last
  file pushed.  Dropping while merging is the same as filtering the merged list; the assertion
  against the last pushed file is `levelSorted` of the filtered list (the trailing
  `cfg!(debug_assertions)` loop re-checks the same condition).  `applyTo` is `none` where the
  Rust code panics; `panicLevel` says at which level (the first, levels are built in order).
* Compaction pointers: the builder remembers the last pointer per level; `apply_changes`
  overwrites the version set's pointer of every level for which it has one.

Deviations
* A `HashSet` iterates in arbitrary order; the stable sort then leaves added files that compare
  `Equal` (same smallest key AND same number, yet different size or largest key) in arbitrary
  order.  The model uses insertion order.  This only matters when one level is given two
  different files with the same number.
* Equality of added files: Rust compares number, size, smallest, largest; the model compares
  number, smallest, largest and the entries (`Rain.Lsm.File`).
* Levels: an edit naming a level ≥ 7 would make the Rust code panic with an index error in
  `accumulate_changes` (the manifest decoder cannot produce one: `read_raindb_level` rejects it);
  the model has no bound and `applyTo` ignores entries for levels the base does not have
  (`levelsInRange` is the side condition where that matters).
* `already_invoked` (a builder is applied once) is not modelled: `applyTo` is a function.

Level 0: the result is ordered by (smallest key, number), NOT by age.  The consumers do not rely
on the order of `files[0]`: `Version::get_overlapping_files` re-sorts the level-0 candidates by
file number, newest first (`Rain.Lsm.l0Candidates` = `sortDesc ∘ filter`), iterators over level 0
are merged, and compaction picks level-0 files by overlap.  `Rain.Lsm.addToLevel` appends at
level 0 instead, so the two models agree at level 0 up to a permutation only.
-/
namespace Rain.Builder
open Rain Rain.Lsm

abbrev Key := Bytes × Nat
abbrev Levels := List (List File)

/-- the fields of a `VersionChangeManifest` the builder uses -/
structure Edit where
  /-- `deleted_files`: (level, file number) -/
  deleted : List (Nat × Nat)
  /-- `new_files`: (level, file) -/
  added : List (Nat × File)
  /-- `compaction_pointers`: (level, key) -/
  pointers : List (Nat × Key) := []
  deriving DecidableEq, Repr

structure Builder where
  /-- `deleted_files[level]` as a duplicate-free list of (level, number) -/
  deleted : List (Nat × Nat)
  /-- `added_files[level]` as a duplicate-free list of (level, file) -/
  added : List (Nat × File)
  /-- `compaction_pointers[level]`: at most one entry per level -/
  pointers : List (Nat × Key)
  deriving DecidableEq, Repr

def empty : Builder := { deleted := [], added := [], pointers := [] }

/-- `HashSet::insert` -/
def setInsert {α : Type} [DecidableEq α] (x : α) (s : List α) : List α :=
  if x ∈ s then s else s ++ [x]

/-- `HashSet::remove` -/
def setRemove {α : Type} [DecidableEq α] (x : α) (s : List α) : List α :=
  s.filter fun y => !decide (y = x)

/-- `compaction_pointers[level] = Some(key)` -/
def setPointer (p : Nat × Key) (ps : List (Nat × Key)) : List (Nat × Key) :=
  (ps.filter fun q => !decide (q.1 = p.1)) ++ [p]

/-- one added file: `deleted_files[level].remove(number); added_files[level].insert(file)` -/
def addOne (b : Builder) (a : Nat × File) : Builder :=
  { b with deleted := setRemove (a.1, a.2.num) b.deleted, added := setInsert a b.added }

/-- `VersionBuilder::accumulate_changes` -/
def accumulate (b : Builder) (e : Edit) : Builder :=
  let b1 : Builder := { b with pointers := e.pointers.foldl (fun ps p => setPointer p ps) b.pointers }
  let b2 : Builder := { b1 with deleted := e.deleted.foldl (fun d x => setInsert x d) b1.deleted }
  e.added.foldl addOne b2

/-- `FileMetadataBySmallestKey::compare a b != Greater` -/
def fileLe (a b : File) : Bool :=
  kLt a.smallest b.smallest || (!kLt b.smallest a.smallest && decide (a.num ≤ b.num))

/-- stable insertion: `f` goes before the first element that is not smaller -/
def insertF (f : File) : List File → List File
  | [] => [f]
  | g :: gs => if fileLe f g then f :: g :: gs else g :: insertF f gs

/-- `sort_by(FileMetadataBySmallestKey::compare)` (a stable sort) -/
def sortF : List File → List File
  | [] => []
  | f :: fs => insertF f (sortF fs)

def mergeAux (a : File) (as : List File) (rec : List File → List File) : List File → List File
  | [] => a :: as
  | b :: bs => if fileLe a b then a :: rec (b :: bs) else b :: mergeAux a as rec bs

/-- the merge loop of `apply_changes`: the base file is taken only if it is strictly smaller -/
def mergeF : (added base : List File) → List File
  | [], bs => bs
  | a :: as, bs => mergeAux a as (mergeF as) bs

/-- the added set of one level -/
def addedAt (b : Builder) (lvl : Nat) : List File :=
  (b.added.filter fun a => a.1 == lvl).map Prod.snd

/-- is `num` in the deleted set of `lvl` -/
def isDeleted (b : Builder) (lvl num : Nat) : Bool := decide ((lvl, num) ∈ b.deleted)

/-- the files `apply_changes` pushes for one level, before any overlap check -/
def applyLevel (b : Builder) (lvl : Nat) (base : List File) : List File :=
  (mergeF (sortF (addedAt b lvl)) (sortF base)).filter fun f => !isDeleted b lvl f.num

def applyFrom (b : Builder) : Nat → Levels → Levels
  | _, [] => []
  | i, fs :: rest => applyLevel b i fs :: applyFrom b (i + 1) rest

/-- all levels, ignoring the assertion -/
def applyRaw (b : Builder) (base : Levels) : Levels := applyFrom b 0 base

def panicFrom : Nat → Levels → Option Nat
  | _, [] => none
  | i, fs :: rest => if i ≠ 0 ∧ levelSorted fs = false then some i else panicFrom (i + 1) rest

/-- the first level > 0 at which `maybe_add_file` panics -/
def panicLevel (b : Builder) (base : Levels) : Option Nat := panicFrom 0 (applyRaw b base)

/-- `VersionBuilder::apply_changes`; `none` = panic -/
def applyTo (b : Builder) (base : Levels) : Option Levels :=
  match panicLevel b base with
  | some _ => none
  | none => some (applyRaw b base)

/-- recovery: every record of the manifest into one builder -/
def applyEdits (base : Levels) (edits : List Edit) : Option Levels :=
  applyTo (edits.foldl accumulate empty) base

/-- the running database: one builder per edit, each on the result of the previous one -/
def applySeq (base : Levels) : List Edit → Option Levels
  | [] => some base
  | e :: es => match applyEdits base [e] with
    | some v => applySeq v es
    | none => none

/-- `compaction_pointers[level]` of a builder -/
def ptrAt (ps : List (Nat × Key)) (lvl : Nat) : Option Key :=
  (ps.find? fun q => q.1 == lvl).map Prod.snd

/-- the compaction pointers of the version set after `apply_changes`: every level for which the
builder has a pointer is overwritten -/
def applyPointers (b : Builder) (vset : List (Option Key)) : List (Option Key) :=
  (List.range vset.length).map fun i =>
    match ptrAt b.pointers i with
    | some k => some k
    | none => vset.getD i none

/-! ### the edits of the LSM model's transitions -/

/-- `compact_memtable`: one new file -/
def flushEdit (f : File) (lvl : Nat) : Edit := { deleted := [], added := [(lvl, f)] }

/-- the edit `compact_memtable` writes for `stepFlush s num lvl` (nothing if the immutable memtable
is empty) -/
def flushEditOf (s : State) (num lvl : Nat) : Edit :=
  match s.imm with
  | some (e :: es) => flushEdit (mkFile num (e :: es)) lvl
  | _ => { deleted := [], added := [] }

/-- trivial move: the same file, deleted at `lvl`, added at `lvl + 1` -/
def moveEdit (f : File) (lvl : Nat) : Edit :=
  { deleted := [(lvl, f.num)], added := [(lvl + 1, f)] }

/-- `compact_tables`: inputs deleted at their levels, outputs added one level down -/
def compactEdit (c : Compaction) : Edit :=
  { deleted := c.inputs0.map (fun n => (c.level, n)) ++ c.inputs1.map (fun n => (c.level + 1, n)),
    added := c.outputs.map fun o => (c.level + 1, mkFile o.1 o.2) }

/-- the edit the database appends to the manifest for an action of the LSM model (none for
writes and memtable rotations) -/
def editOf (s : State) : Action → Option Edit
  | .flush num lvl => some (flushEditOf s num lvl)
  | .compact c => some (compactEdit c)
  | .trivialMove num lvl =>
    match pick (s.levels.getD lvl []) [num] with
    | [f] => some (moveEdit f lvl)
    | _ => none
  | _ => none

/-- the manifest of a history: the edits of its actions, in order -/
def editsOf (s : State) : List Action → List Edit
  | [] => []
  | a :: rest =>
    match step s a with
    | some s' => (editOf s a).toList ++ editsOf s' rest
    | none => []

/-! ### side conditions and comparison -/

/-- the (level, number) pairs of a version, level by level -/
def pairsFrom : Nat → Levels → List (Nat × Nat)
  | _, [] => []
  | i, fs :: rest => fs.map (fun f => (i, f.num)) ++ pairsFrom (i + 1) rest

def pairsOf (v : Levels) : List (Nat × Nat) := pairsFrom 0 v

def Edit.addedPairs (e : Edit) : List (Nat × Nat) := e.added.map fun a => (a.1, a.2.num)

/-- every (level, number) pair that the base holds or an edit adds -/
def usedPairs (base : Levels) (edits : List Edit) : List (Nat × Nat) :=
  pairsOf base ++ (edits.map Edit.addedPairs).flatten

/-- **a (level, number) pair enters the version at most once**: numbers are distinct within each
base level, no edit adds a number to a level that had it in the base or got it from an earlier
edit (whether or not it was deleted in between), and no edit adds a number to a level twice.
This is what RainDB does: file numbers are allocated once, and a file only moves downwards. -/
def Fresh (base : Levels) (edits : List Edit) : Prop := (usedPairs base edits).Nodup

instance (base : Levels) (edits : List Edit) : Decidable (Fresh base edits) :=
  inferInstanceAs (Decidable (List.Nodup _))

/-- every level an edit names exists in a version of `n` levels -/
def levelsInRange (n : Nat) (edits : List Edit) : Prop :=
  ∀ e ∈ edits, (∀ a ∈ e.added, a.1 < n) ∧ (∀ d ∈ e.deleted, d.1 < n)

instance (n : Nat) (edits : List Edit) : Decidable (levelsInRange n edits) := by
  unfold levelsInRange; infer_instance

/-- same number of levels, the same files per level up to order, and the same LIST at every level
≥ 1 -/
def Agree (r r' : Levels) : Prop :=
  r.length = r'.length ∧ (∀ i, (r.getD i []).Perm (r'.getD i [])) ∧ r.drop 1 = r'.drop 1

/-- the same edit as the durability model (`Rain/Durable.lean`) sees it: (level, number) pairs -/
def toDurable (e : Edit) : Rain.Durable.Edit :=
  { walNumber := none, added := e.addedPairs, deleted := e.deleted }

/-- both undefined, or both defined and agreeing -/
def AgreeOpt : Option Levels → Option Levels → Prop
  | some r, some r' => Agree r r'
  | none, none => True
  | _, _ => False

end Rain.Builder
