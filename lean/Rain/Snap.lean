import Rain.LsmSpec
/-
The LSM state machine together with the SNAPSHOT LIST (`snapshots.rs`, `DB::get_snapshot` /
`release_snapshot`, and how `compaction/worker.rs` obtains the smallest snapshot of a table
compaction).

* `get_snapshot` appends a snapshot at the last published sequence number to the list
  (`SnapshotList::new_snapshot`, which ASSERTS that the newest snapshot in the list is not newer);
* `release_snapshot` removes that snapshot from the list, wherever it stands;
* a table compaction uses as its smallest snapshot the sequence number of the OLDEST snapshot in
  the list (`oldest()` = the head), or the last published sequence number when the list is empty.

`Rain/Props/Lsm.lean C03_snapshot_stable` takes as a HYPOTHESIS that every compaction respects the
snapshot (`a.floor ≤ snap`).  With the list in the model this becomes a theorem
(`Rain/Props/Snap.lean`): a snapshot that is not released keeps seeing the same state, whatever
else happens — other snapshots taken and released in any order, writes, flushes, compactions.
-/
namespace Rain.Snap
open Rain Rain.Lsm

structure SState where
  lsm : State
  /-- live snapshots, oldest first: (identity, sequence number) -/
  snaps : List (Nat × Nat)
  /-- next snapshot identity -/
  nextId : Nat

/-- the smallest snapshot a table compaction starting now uses -/
def smallestSnapshot (s : SState) : Nat :=
  match s.snaps with
  | [] => s.lsm.lastSeq
  | x :: _ => x.2

inductive SAction where
  /-- an action of the LSM model; a table compaction carries the smallest snapshot it was given -/
  | lsm (a : Action)
  /-- `get_snapshot` -/
  | take
  /-- `release_snapshot` of the snapshot with this identity -/
  | release (id : Nat)

/-- the smallest snapshot of a compaction is the one the list yields at that moment (the code reads
it under the database mutex when the compaction's state is created) -/
def floorOk (s : SState) : Action → Bool
  | .compact c => c.smallestSnapshot == smallestSnapshot s
  | _ => true

def sstep (s : SState) : SAction → Option SState
  | .lsm a =>
    if floorOk s a then (step s.lsm a).map fun l => { s with lsm := l } else none
  | .take => some { s with snaps := s.snaps ++ [(s.nextId, s.lsm.lastSeq)], nextId := s.nextId + 1 }
  | .release id => some { s with snaps := s.snaps.filter fun x => !(x.1 == id) }

def srun (s : SState) : List SAction → Option SState
  | [] => some s
  | a :: rest => match sstep s a with
    | some s' => srun s' rest
    | none => none

def sinit : SState := { lsm := init, snaps := [], nextId := 0 }

/-- the assertion of `SnapshotList::new_snapshot`: the newest snapshot in the list is not newer than
the one being added -/
def newSnapshotAssertion (s : SState) : Bool :=
  match s.snaps.getLast? with
  | none => true
  | some x => decide (x.2 ≤ s.lsm.lastSeq)

end Rain.Snap
