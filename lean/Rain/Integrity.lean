import Rain.Log
/-
Integrity evidence in RainDB's files (C15):
* table blocks (`table_builder.rs emit_block_to_disk`, `table.rs read_block_from_disk`): contents,
  one compression-type byte, then the masked CRC of (contents ++ type byte);
* log fragments (`logs.rs`): masked CRC of the PAYLOAD ONLY, 2-byte length, type byte, payload
  (modelled in `Rain/Log.lean`: `emit`, `readPhysical`).
The checksum function is a parameter; what is assumed about it is an explicit hypothesis of each
theorem (`DetectsOneByte`), never an axiom.
-/
namespace Rain.Integrity
open Rain Rain.Log

/-- `emit_block_to_disk`: what is written for one block -/
def writeBlock (crc : Bytes → Nat) (contents : Bytes) (ctype : UInt8) : Bytes :=
  contents ++ [ctype] ++ leBytes 4 (maskCrc (crc (contents ++ [ctype])))

/-- `read_block_from_disk` up to decompression: the raw bytes of a block of `size` content bytes
(the size comes from the block handle); `none` = short read or checksum mismatch -/
def readBlock (crc : Bytes → Nat) (raw : Bytes) (size : Nat) : Option (Bytes × UInt8) :=
  if raw.length ≠ size + 5 then none else
  let body := raw.take (size + 1)
  let stored := leVal (raw.drop (size + 1))
  if unmaskCrc stored ≠ crc body then none
  else some (body.take size, body.getD size 0)

/-- replace byte `i` by `v` -/
def setByte (bs : Bytes) (i : Nat) (v : UInt8) : Bytes := bs.set i v

/-- the assumption about the checksum: changing exactly one byte changes the checksum (true of
CRC-32C for every burst of at most 32 bits; validated for the concrete function by test) -/
def DetectsOneByte (crc : Bytes → Nat) : Prop :=
  ∀ (bs : Bytes) (i : Nat) (v : UInt8), i < bs.length → v ≠ bs.getD i 0 → crc (setByte bs i v) ≠ crc bs

end Rain.Integrity
