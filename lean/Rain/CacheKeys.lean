/-
Model of the block-cache key space (`src/tables/table.rs`: `Table::open` takes
`options.block_cache().new_id()` as its `cache_partition_id`; `BlockCacheKey::new(partition id,
block offset)`; `src/utils/cache.rs`: `new_id` increments a counter INSIDE the cache).  The block
cache lives in `DbOptions` and can be shared by any number of database instances, one after the
other or at the same time; the table cache that opens the tables is per instance.
-/
namespace Rain.CacheKeys

/-- the block cache as far as ids are concerned: `last_id_given` -/
structure Cache where
  lastId : Nat
  deriving Repr, DecidableEq

/-- an opened table: which file it is (instance, file number) and the partition id it got -/
structure Opened where
  inst : Nat
  file : Nat
  id : Nat
  deriving Repr, DecidableEq

/-- `Cache::new_id` -/
def newId (c : Cache) : Cache × Nat := ({ lastId := c.lastId + 1 }, c.lastId + 1)

/-- one step: some instance opens a table file (`Table::open`), or anybody asks the cache for an id -/
inductive Step where
  | openTable (inst file : Nat)
  | takeId
  deriving Repr, DecidableEq

def step (s : Cache × List Opened) : Step → Cache × List Opened
  | .openTable i f => let (c, id) := newId s.1; (c, s.2 ++ [{ inst := i, file := f, id := id }])
  | .takeId => ((newId s.1).1, s.2)

def run (s : Cache × List Opened) (steps : List Step) : Cache × List Opened := steps.foldl step s

/-- `BlockCacheKey::new(self.cache_partition_id, block_handle.get_offset())` -/
def key (t : Opened) (offset : Nat) : Nat × Nat := (t.id, offset)

/-- what the seeded change C01h did: the id comes from a counter of the INSTANCE (its table cache),
    which restarts with every instance -/
def stepPerInstance (s : (Nat → Nat) × List Opened) : Step → (Nat → Nat) × List Opened
  | .openTable i f =>
    let id := s.1 i + 1
    (fun j => if j = i then id else s.1 j, s.2 ++ [{ inst := i, file := f, id := id }])
  | .takeId => s

end Rain.CacheKeys
