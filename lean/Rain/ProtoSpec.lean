import Rain.Proto
/-
Reachability predicates of the protocol model, shared by the property statements
(`Rain/Props/Proto.lean`) and their proofs (`Rain/Lemmas/Proto.lean`).
-/
namespace Rain.Proto

def Reachable (s : State) : Prop := ∃ steps, run init steps = some s

def LReachable (s : LState) : Prop := ∃ as, lrun linit as = s

end Rain.Proto
