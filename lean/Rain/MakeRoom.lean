import Rain.Sched
import Rain.Generated.Constants
/-
Model of the loop of `DB::make_room_for_write` (src/db.rs): what one iteration reads under the
database mutex, the branch it takes - in the code's order -, and how the two loop variables
(`force_compaction`, `allow_write_delay`) change.  The scheduling protocol (`Rain/Sched.lean`) knows
only "a writer may wait while there is an immutable memtable or level 0 is at the stop trigger";
this model is the code that decides it.
-/
namespace Rain.MakeRoom
open Rain.Gen

/-- what one iteration reads -/
structure View where
  /-- `maybe_bad_database_state.is_some()` -/
  bad : Bool
  /-- `version_set.num_files_at_level(0)` -/
  l0 : Nat
  /-- `memtable().approximate_memory_usage() <= max_memtable_size()` -/
  fits : Bool
  /-- `memtable().is_empty()` -/
  empty : Bool
  /-- `maybe_immutable_memtable.is_some()` -/
  imm : Bool
  /-- `version_set.maybe_prev_wal_number().is_some()` -/
  prevWal : Bool
  deriving Repr, DecidableEq

inductive Branch where
  /-- return the sticky background error -/
  | errBad
  /-- sleep one millisecond outside the mutex, once per call -/
  | delay
  /-- there is room: return Ok -/
  | proceed
  /-- wait on the condition variable: the previous memtable is still being flushed -/
  | waitImm
  /-- wait on the condition variable: too many level-0 files -/
  | waitL0
  /-- "already undergoing compaction": return an error -/
  | errPrevWal
  /-- new WAL, new memtable, the old one becomes immutable, schedule the flush -/
  | rotate
  deriving Repr, DecidableEq

structure Vars where
  force : Bool
  allowDelay : Bool
  deriving Repr, DecidableEq

/-- `let mut allow_write_delay = !force_compaction;` -/
def start (force : Bool) : Vars := { force := force, allowDelay := !force }

/-- the `if … else if …` chain of one iteration -/
def branch (x : Vars) (v : View) : Branch :=
  if v.bad then .errBad
  else if x.allowDelay && decide (L0_SLOWDOWN_WRITES_TRIGGER ≤ v.l0) then .delay
  else if !x.force && (v.fits || v.empty) then .proceed
  else if v.imm then .waitImm
  else if decide (L0_STOP_WRITES_TRIGGER ≤ v.l0) then .waitL0
  else if v.prevWal then .errPrevWal
  else .rotate

/-- the loop variables after the branch -/
def after (x : Vars) : Branch → Vars
  | .delay => { x with allowDelay := false }
  | .rotate => { x with force := false }
  | _ => x

def returns : Branch → Bool
  | .errBad | .proceed | .errPrevWal => true
  | _ => false

def waits : Branch → Bool
  | .waitImm | .waitL0 => true
  | _ => false

/-- the branches of a whole call over the views its iterations read, up to the first return (a
    failed creation of the new WAL ends the call inside `rotate`; that is the list ending there) -/
def run (x : Vars) : List View → List Branch
  | [] => []
  | v :: vs =>
    let b := branch x v
    if returns b then [b] else b :: run (after x b) vs

/-- iterations that neither return nor wait -/
def busy (bs : List Branch) : Nat := (bs.filter fun b => !(returns b) && !(waits b)).length

/-- the views a call can read one after the other: the writer at the head of the queue is the only
    thread that fills or replaces the memtable, so from its own rotation on the memtable it sees is
    the new, empty one until the call returns -/
def Coherent (rotated : Bool) (x : Vars) : List View → Prop
  | [] => True
  | v :: vs =>
    (rotated = true → v.empty = true) ∧
      Coherent (rotated || decide (branch x v = .rotate)) (after x (branch x v)) vs

end Rain.MakeRoom
