import Rain.DurableSpec
import Rain.Lemmas.Durable
/-
C02 / C16 / C08 over the durability model (`Rain/Durable.lean`).
Quantifiers: every image that is safe for some list of acknowledged batches, every stream of
completed filesystem operations accepted by the monitor (of any length: writes, rotations,
flushes, compactions, manifest switches, obsolete-file removal, and the operations of recovery
itself, which are part of the same stream), and EVERY prefix of that stream — i.e. every crash
point between two filesystem operations.
-/
namespace Rain.Durable
open Rain Rain.Lsm

/-- one monitored operation keeps the image safe; a WAL append adds exactly its batch -/
theorem step_safe (d : Disk) (bs : List WBatch) (op : Op) (h : Safe d bs) (hok : ok d op = true) :
    Safe (apply d op) (bs ++ acked [op]) :=
  Lemmas.step_safe d bs op h hok

/-- **C02: a crash after any prefix of a monitored stream leaves an image that recovers to exactly
the writes whose WAL append is in the prefix** — every acknowledged write (a write is acknowledged
only after its append completed), the in-flight batch entirely (its single WAL record is in the
prefix) or not at all, and nothing else. Because the operations of a later recovery are part of
the stream too, this covers crashes during recovery and any number of crash–recover rounds, and
"further writes succeed and survive the next reopen". -/
theorem C02_every_prefix_recovers (d0 : Disk) (bs0 : List WBatch) (h0 : Safe d0 bs0)
    (ops : List Op) (d : Disk) (hr : runOk d0 ops = some d) (i : Nat) (hi : i ≤ ops.length) :
    ∃ di, runOk d0 (ops.take i) = some di ∧ Safe di (bs0 ++ acked (ops.take i)) :=
  Lemmas.every_prefix_recovers d0 bs0 h0 ops d hr i hi

/-- a freshly created database (first manifest with its WAL number, then CURRENT) is safe with
nothing acknowledged -/
theorem fresh_database_safe (m w : Nat) :
    Safe (apply (apply (apply empty (.createManifest m))
      (.appendManifest m { walNumber := some w, added := [], deleted := [] })) (.setCurrent m)) [] :=
  Lemmas.fresh_safe m w

/-- **C16 / C08: an operation that did not complete — a torn final write, or a call that failed —
is absent from the stream of completed operations (it is a `noop`), so the image stays safe for
the same acknowledged batches.** (That a torn log tail is invisible to readers and is never
appended behind is proved at the byte level in `Props/C12.lean`: `C12_truncation`,
`C12_torn_log_is_not_reused`, `C12_clean_append`.) -/
theorem C16_incomplete_operation_changes_nothing (d : Disk) (bs : List WBatch) (h : Safe d bs) :
    ok d .noop = true ∧ Safe (apply d .noop) bs :=
  ⟨rfl, by simpa [apply] using h⟩

/-- the monitor never lets a file that recovery needs be removed: after a monitored removal the
image still recovers (special case of `step_safe`, spelled out because it is what C11 relies on) -/
theorem C11_monitored_removal_keeps_recovery (d : Disk) (bs : List WBatch) (h : Safe d bs) (n : Nat)
    (op : Op) (hop : op = .removeWal n ∨ op = .removeTable n ∨ op = .removeManifest n)
    (hok : ok d op = true) : Safe (apply d op) bs := by
  have := step_safe d bs op h hok
  rcases hop with h1 | h1 | h1 <;> subst h1 <;> simpa [acked] using this

/-! ### non-vacuity: a small monitored stream with a flush and a WAL switch -/
example :
    let k : Bytes := [107]
    let ops : List Op := [
      .createManifest 1, .appendManifest 1 { walNumber := some 0, added := [], deleted := [] }, .setCurrent 1,
      .createWal 3, .appendManifest 1 { walNumber := some 3, added := [], deleted := [] },
      .appendWal 3 { start := 1, ops := [(k, some [1])] },
      .createWal 4,
      .completeTable 5 [{ ukey := k, seq := 1, put := true, val := [1] }],
      .appendManifest 1 { walNumber := some 4, added := [(0, 5)], deleted := [] },
      .removeWal 3,
      .appendWal 4 { start := 2, ops := [(k, none)] } ]
    (runOk (apply (apply (apply empty ops[0]!) ops[1]!) ops[2]!) (ops.drop 3)).isSome = true := by
  decide

/-! ### non-vacuity: a log rotation that failed half-way
The creation of WAL 12 left an EMPTY file behind (I/O error), writes continue to go to WAL 11,
the number 12 is re-used by the next rotation, and then WAL 12 is written. The monitor accepts the
stream, the image recovers to exactly the three batches in order, and — the other direction — once
WAL 12 holds a record an append to WAL 11 is rejected. -/
example :
    let k : Bytes := [107]
    let b1 : WBatch := { start := 1, ops := [(k, some [1])] }
    let b2 : WBatch := { start := 2, ops := [(k, some [2]), ([108], some [9])] }
    let b3 : WBatch := { start := 4, ops := [(k, none)] }
    let d0 := apply (apply (apply empty (.createManifest 1))
      (.appendManifest 1 { walNumber := some 11, added := [], deleted := [] })) (.setCurrent 1)
    let ops : List Op := [
      .createWal 11, .appendWal 11 b1,
      .createWal 12,            -- rotation fails after creating the file: WAL 12 exists, empty
      .appendWal 11 b2,         -- writes continue in WAL 11 although the larger number 12 exists
      .createWal 12,            -- the number is re-used by the next rotation
      .appendWal 12 b3 ]
    -- the intermediate image really is "WAL 11 non-empty, WAL 12 empty"
    ((runOk d0 (ops.take 4)).map fun d => d.wals) = some [(11, [b1, b2]), (12, [])] ∧
    (runOk d0 ops).isSome = true ∧
    (((runOk d0 ops).bind recover).map fun r => r.entries)
      = some (batchEntries b1 ++ batchEntries b2 ++ batchEntries b3) ∧
    acked ops = [b1, b2, b3] ∧
    -- appending behind a NON-empty newer log is still rejected (index 6 = the extra append)
    firstBad d0 (ops ++ [.appendWal 11 { start := 5, ops := [(k, some [3])] }]) 0 = some 6 := by
  decide

end Rain.Durable
