import Rain.Concat
import Rain.Lemmas.ConcatIter
import Rain.Lemmas.ConcatLsm
/-
C04 (and C03) for the iterator over the files of one level >= 1, `FilesEntryIterator`: under any
sequence of cursor movements it is a cursor over the concatenation of its files - what the model of
the merging iterator (`Rain/Merge.lean`, `C04_merging_iterator_is_a_sorted_cursor`) assumes of each
of its children, and what `C13_table_iter` proves of the other kind of child, the table iterator.
Model: `Rain/Concat.lean`.
-/
namespace Rain.Props.Concat
open Rain Rain.Lsm Rain.Table Rain.Concat Rain.Concat.Lemmas

/-- run a cursor program on the level iterator / on the flat list (both start invalid) -/
def runLevel (files : List (List Entry)) (ops : List COp) : TL := ops.foldl (step files) (init files)
def runFlat (es : List Entry) (ops : List COp) : Nat := ops.foldl (flatStep es) es.length

/-- **The level iterator is a cursor over the concatenation of its files.**  For every non-empty
list of non-empty files whose concatenation is strictly sorted by internal key (a level >= 1 of a
state satisfying the invariant), and after ANY sequence of `seek / seek_to_first / seek_to_last /
next / prev` with any reversals: the iterator is valid exactly when a cursor over the flat list is,
and then shows the same entry.  In particular `seek` lands on the first entry not below the target
even when the versions of one user key straddle a file boundary and whichever file the iterator
stood in before (the seeded change C04i broke exactly this). -/
theorem C04_level_iterator_is_a_cursor (files : List (List Entry)) (hne : ∀ f ∈ files, f ≠ [])
    (hnb : files ≠ []) (hsorted : sortedE files.flatten = true) (ops : List COp) :
    ((runLevel files ops).valid (mkLevel files) = decide (runFlat files.flatten ops < files.flatten.length)) ∧
    ((runLevel files ops).valid (mkLevel files) = true →
      (runLevel files ops).current (mkLevel files) = files.flatten[runFlat files.flatten ops]?) :=
  InvL_concl files _ _
    (InvL_run files hne hnb (Rain.Table.Lemmas.sorted_pairwise _ hsorted) ops _ _ (InvL_init files))

/-- **… on every level >= 1 of every state satisfying the LSM invariant**: the files of such a
level (non-empty, each sorted, each file's largest key below the next file's smallest) meet the
hypotheses above, so the level iterator the database iterator is built from is a cursor over the
level's entries - for every reachable state, since the invariant is preserved by every transition
(`Rain/Props/Lsm.lean`). -/
theorem C04_level_iterator_on_invariant_states (s : State) (h : Inv s) (j : Nat) (hj : 1 ≤ j)
    (hne : Rain.Lsm.Lemmas.lv s.levels j ≠ []) (ops : List COp) :
    let files := (Rain.Lsm.Lemmas.lv s.levels j).map File.entries
    ((runLevel files ops).valid (mkLevel files) = decide (runFlat files.flatten ops < files.flatten.length)) ∧
    ((runLevel files ops).valid (mkLevel files) = true →
      (runLevel files ops).current (mkLevel files) = files.flatten[runFlat files.flatten ops]?) := by
  intro files
  have inv := (Rain.Lsm.Lemmas.inv_iff s).mp h
  have hf : ∀ f ∈ Rain.Lsm.Lemmas.lv s.levels j, Rain.Lsm.Lemmas.FileOk f := fun f hfm => inv.files j f hfm
  apply C04_level_iterator_is_a_cursor
  · intro l hl
    obtain ⟨f, hfm, rfl⟩ := List.mem_map.mp hl
    exact (hf f hfm).ne
  · intro e
    exact hne (List.map_eq_nil_iff.mp e)
  · exact (Rain.Lsm.Lemmas.sortedE_iff _).mpr (level_entries_sorted _ hf (inv.lvls j hj))

/-- the outer search is the one the code performs: `find_file_with_upper_bound_range` returns the
number of files whose largest key is below the target (`none` = all of them) -/
theorem C04_level_seek_file_is_find_file (files : List (List Entry)) (t : Bytes × Nat) :
    lowerBound (mkLevel files).index t = lowerBound (lastKeys files) t ∧
    (lastKeys files).length = files.length := ⟨rfl, lastKeys_length files⟩

/-! ### non-vacuity: two files, the versions of `b` straddle the boundary (`b@9 | b@5`) -/

private def e (k : Nat) (s : Nat) : Entry := ⟨[k.toUInt8], s, true, [s.toUInt8]⟩
private def lvl : List (List Entry) := [[e 97 3, e 98 9], [e 98 5, e 99 1]]

example : sortedE lvl.flatten = true ∧ (∀ f ∈ lvl, f ≠ []) ∧ lvl ≠ [] := by decide
/-- seek to `c` (second file), then seek to `b@9`: back in the FIRST file, on `b@9` -/
example : ((runLevel lvl [.seek ([99], 7), .seek ([98], 9)]).current (mkLevel lvl)).map Entry.seq = some 9 := by
  decide
/-- seek to `b@7`: lands in the second file on `b@5`; `prev` crosses the boundary back to `b@9` -/
example : ((runLevel lvl [.seek ([98], 7)]).current (mkLevel lvl)).map Entry.seq = some 5 ∧
    ((runLevel lvl [.seek ([98], 7), .prev]).current (mkLevel lvl)).map Entry.seq = some 9 ∧
    (runLevel lvl [.last, .next]).valid (mkLevel lvl) = false ∧
    (runLevel lvl [.first, .prev]).valid (mkLevel lvl) = false := by decide

end Rain.Props.Concat
