import Rain.Codec
import Rain.Lemmas.Codec
/-
Codec — "what is written to the write-ahead log and to the manifest is read back unchanged".

Models: `Rain/Codec.lean` (batch record of `src/batch.rs`, manifest record of
`src/versioning/version_manifest.rs`).  Only property theorems here; helper lemmas are in
`Rain/Lemmas/Codec.lean`.

Quantifiers: EVERY record that the Rust types can hold with in-range `as u32` casts (`BatchRec.WF`,
`EditRec.WF`: 64-bit numbers, 32-bit lengths and counts, levels `< MAX_NUM_LEVELS`, any number of
operations / pointers / deleted files / new files, any byte strings including empty ones), EVERY
byte string appended after a record, EVERY list of well-formed manifest fields in any order and
multiplicity.

The manifest theorems are stated up to the one normalisation that the decoder performs: the
deleted files are a `HashSet` in `VersionChangeManifest`, represented here by the strictly
ascending duplicate-free list of its elements (`normDel`, characterised by `codec_normDel_mem`,
`codec_normDel_sorted`, `codec_normDel_congr`).  `decodeEditRaw` is the same decoder with the
deleted files kept in order of appearance; `decodeEdit = normEdit ∘ decodeEditRaw` by definition.
-/
namespace Rain.Codec
open Rain Rain.Block Rain.Codec.Lemmas

/-! ### (A) batch records -/

/-- **Batches round-trip.** -/
theorem codec_batch_roundtrip (b : BatchRec) (h : b.WF) : decodeBatch (encodeBatch b) = some b := by
  have := decodeBatch_encodeBatch_append b h []
  simpa using this

/-- **The batch decoder stops after `count` elements**: whatever follows a record is ignored
(`impl TryFrom<&[u8]> for Batch` never looks at `buf` after the loop). -/
theorem codec_batch_trailing (b : BatchRec) (h : b.WF) (junk : Bytes) :
    decodeBatch (encodeBatch b ++ junk) = some b :=
  decodeBatch_encodeBatch_append b h junk

/-- **The batch encoding is injective** on representable batches. -/
theorem codec_batch_injective (b1 b2 : BatchRec) (h1 : b1.WF) (h2 : b2.WF)
    (h : encodeBatch b1 = encodeBatch b2) : b1 = b2 := by
  have e1 := codec_batch_roundtrip b1 h1
  rw [h, codec_batch_roundtrip b2 h2] at e1
  exact (Option.some.inj e1).symm

/-- **The batch encoding is a prefix code**: a record followed by anything determines the record
and what follows. -/
theorem codec_batch_prefix_free (b1 b2 : BatchRec) (h1 : b1.WF) (h2 : b2.WF) (j1 j2 : Bytes)
    (h : encodeBatch b1 ++ j1 = encodeBatch b2 ++ j2) : b1 = b2 ∧ j1 = j2 := by
  have e1 := codec_batch_trailing b1 h1 j1
  rw [h, codec_batch_trailing b2 h2 j2] at e1
  have hb : b1 = b2 := (Option.some.inj e1).symm
  subst hb
  exact ⟨rfl, List.append_cancel_left h⟩

/-- **No torn batch is accepted**: every proper prefix of a record is rejected (the sequence
number is incomplete, the count is incomplete, or the `count` elements are not all there). -/
theorem codec_batch_truncated (b : BatchRec) (h : b.WF) (k : Nat) (hk : k < (encodeBatch b).length) :
    decodeBatch ((encodeBatch b).take k) = none :=
  decodeBatch_take b h k hk

/-- fewer than the eight bytes of the sequence number: rejected -/
theorem codec_batch_short (b : Bytes) (h : b.length < 8) : decodeBatch b = none := by
  simp [decodeBatch, h]

/-- a count of zero accepts every tail -/
theorem codec_batch_zero_count (s : Nat) (hs : s < 2^64) (junk : Bytes) :
    decodeBatch (leBytes 8 s ++ 0 :: junk) = some { start := s, ops := [] } := by
  have hL := Block.Lemmas.leBytes_length 8 s
  have hV := Block.Lemmas.leVal_leBytes 8 s (by simpa using hs)
  unfold decodeBatch
  generalize leBytes 8 s = L at hL hV
  have hlen : ¬ ((L ++ 0 :: junk).length < 8) := by simp only [List.length_append, hL]; omega
  simp only [hlen, if_false]
  rw [List.drop_left' hL, List.take_left' hL, readU32_tag 0 (by decide), hV]
  rfl

def exBatch : BatchRec :=
  { start := 43, ops := [([0x62, 0x61, 0x74], some [55, 0, 0, 0]), ([0x62, 0x61, 0x74], none), ([], some [])] }

/-- non-vacuity: a concrete batch is well formed, has the byte layout produced by the crate, and
reads back with and without trailing bytes -/
example : exBatch.WF := by decide
example : toHex (encodeBatch exBatch) = "2b0000000000000003010362617404370000000003626174010000" := by decide
example : decodeBatch (encodeBatch exBatch) = some exBatch := by decide
example : decodeBatch (encodeBatch exBatch ++ [0xff, 0x01]) = some exBatch := by decide
example : decodeBatch ((encodeBatch exBatch).take 26) = none := by decide
/-- a count smaller than the number of elements present: the surplus is silently dropped -/
example : decodeBatch ([43, 0, 0, 0, 0, 0, 0, 0, 1] ++ encodeOp ([1], none) ++ encodeOp ([2], none)) =
    some { start := 43, ops := [([1], none)] } := by decide
/-- overlong count (`81 00` = 1) and count with bits above 2^32 (`81 80 80 80 10`): accepted -/
example : decodeBatch ([0, 0, 0, 0, 0, 0, 0, 0, 0x81, 0x00] ++ encodeOp ([1], none)) =
    some { start := 0, ops := [([1], none)] } := by decide
example : decodeBatch ([0, 0, 0, 0, 0, 0, 0, 0, 0x81, 0x80, 0x80, 0x80, 0x10] ++ encodeOp ([1], none)) =
    some { start := 0, ops := [([1], none)] } := by decide
/-- operation byte 2: rejected -/
example : decodeBatch [0, 0, 0, 0, 0, 0, 0, 0, 1, 2, 0] = none := by decide

/-! ### (B) manifest records -/

/-- **Every sequence of well-formed fields is accepted, in any order and multiplicity**, and
builds the manifest by applying the fields from left to right: scalars are overwritten (last
occurrence wins), pointers / deleted files / new files accumulate. -/
theorem codec_edit_fields (fs : List Field) (h : ∀ f ∈ fs, f.WF) :
    decodeEditRaw (encodeFields fs) = some (fs.foldl applyField EditRec.empty) := by
  unfold decodeEditRaw
  rw [decodeFields_encodeFields fs h]

/-- **Manifest records round-trip**, deleted files in order of appearance. -/
theorem codec_edit_roundtrip_raw (e : EditRec) (h : e.WF) : decodeEditRaw (encodeEdit e) = some e := by
  unfold encodeEdit
  rw [codec_edit_fields e.fields (fields_WF e h), foldl_fields]

/-- **Manifest records round-trip up to the set semantics of the deleted files**: the decoder
returns the record with `deleted` replaced by its canonical form. -/
theorem codec_edit_roundtrip (e : EditRec) (h : e.WF) :
    decodeEdit (encodeEdit e) = some (normEdit e) := by
  unfold decodeEdit
  rw [codec_edit_roundtrip_raw e h]

/-- the canonical form has the same elements ... -/
theorem codec_normDel_mem (a : Nat × Nat) (l : List (Nat × Nat)) : a ∈ normDel l ↔ a ∈ l :=
  mem_normDel a l

/-- ... is strictly ascending by (level, number), hence duplicate free ... -/
theorem codec_normDel_sorted (l : List (Nat × Nat)) : (normDel l).Pairwise delLt :=
  sorted_normDel l

/-- ... and depends only on the set of elements: neither on order nor on multiplicity. -/
theorem codec_normDel_congr (l1 l2 : List (Nat × Nat)) (h : ∀ a, a ∈ l1 ↔ a ∈ l2) :
    normDel l1 = normDel l2 :=
  normDel_congr l1 l2 h

/-- a strictly ascending list is its own canonical form ... -/
theorem codec_normDel_of_sorted (l : List (Nat × Nat)) (h : l.Pairwise delLt) : normDel l = l :=
  normDel_of_sorted l h

/-- ... so records whose deleted files are listed in ascending order round-trip literally. -/
theorem codec_edit_roundtrip_sorted (e : EditRec) (h : e.WF) (hs : e.deleted.Pairwise delLt) :
    decodeEdit (encodeEdit e) = some e := by
  rw [codec_edit_roundtrip e h]
  simp only [normEdit, normDel_of_sorted e.deleted hs]

/-- **The order in which the `HashSet` of deleted files is iterated by the encoder is not
observable after decoding**: two records that differ only in order and multiplicity of the deleted
files decode to the same manifest. -/
theorem codec_edit_deleted_order (e : EditRec) (ds : List (Nat × Nat)) (h : e.WF)
    (hmem : ∀ a, a ∈ ds ↔ a ∈ e.deleted) :
    decodeEdit (encodeEdit { e with deleted := ds }) = decodeEdit (encodeEdit e) := by
  have h' : ({ e with deleted := ds } : EditRec).WF := by
    obtain ⟨h1, h2, h3, h4, h5, h6, h7⟩ := h
    exact ⟨h1, h2, h3, h4, h5, fun d hd => h6 d ((hmem d).mp hd), h7⟩
  rw [codec_edit_roundtrip e h, codec_edit_roundtrip _ h']
  simp only [normEdit, normDel_congr ds e.deleted hmem]

/-- **The manifest encoding is injective** on representable records (as lists: the byte string
also determines the order in which the deleted files were written). -/
theorem codec_edit_injective (e1 e2 : EditRec) (h1 : e1.WF) (h2 : e2.WF)
    (h : encodeEdit e1 = encodeEdit e2) : e1 = e2 := by
  have a := codec_edit_roundtrip_raw e1 h1
  rw [h, codec_edit_roundtrip_raw e2 h2] at a
  exact (Option.some.inj a).symm

/-- **Nothing is skipped**: a record followed by a second record is read as the second applied on
top of the first (the decoder has no notion of "end of record" other than the end of input). -/
theorem codec_edit_concat (e1 e2 : EditRec) (h1 : e1.WF) (h2 : e2.WF) :
    decodeEditRaw (encodeEdit e1 ++ encodeEdit e2) = some (e2.fields.foldl applyField e1) := by
  unfold encodeEdit
  rw [← encodeFields_append, codec_edit_fields _ (by
    intro f hf
    rcases List.mem_append.mp hf with hf | hf
    · exact fields_WF e1 h1 f hf
    · exact fields_WF e2 h2 f hf)]
  rw [List.foldl_append, foldl_fields]

/-- **No trailing byte is tolerated** (contrast `codec_batch_trailing`): one more byte after a
record is the start of a field whose value is missing, an unknown tag or an unterminated tag. -/
theorem codec_edit_trailing_byte (e : EditRec) (h : e.WF) (t : UInt8) :
    decodeEdit (encodeEdit e ++ [t]) = none := by
  unfold decodeEdit decodeEditRaw encodeEdit
  rw [decodeFields_append e.fields (fields_WF e h) [t], decodeFields_single]

/-- **A record cut inside a field is rejected**: well-formed fields followed by a proper,
non-empty prefix of one more field. -/
theorem codec_edit_torn_field (fs : List Field) (h : ∀ f ∈ fs, f.WF) (f : Field) (hf : f.WF) (k : Nat)
    (h0 : 0 < k) (hk : k < (encodeField f).length) :
    decodeEdit (encodeFields fs ++ (encodeField f).take k) = none := by
  unfold decodeEdit decodeEditRaw
  rw [decodeFields_append fs h, decodeFields_torn f hf k h0 hk]

/-- **A record cut between two fields is accepted** and yields the manifest of the fields before
the cut (the format has no field count and no terminator; only the checksum of the enclosing log
record protects a manifest record against truncation). -/
theorem codec_edit_cut_at_boundary (fs gs : List Field) (h : ∀ f ∈ fs, f.WF) :
    decodeEditRaw ((encodeFields (fs ++ gs)).take (encodeFields fs).length) =
      some (fs.foldl applyField EditRec.empty) := by
  rw [encodeFields_append, List.take_left' rfl]
  exact codec_edit_fields fs h

/-- the fuel of the field loop is not observable: any two values above the input length agree -/
theorem codec_readFields_fuel (f1 f2 : Nat) (b : Bytes) (h1 : b.length < f1) (h2 : b.length < f2) :
    readFields f1 b = readFields f2 b :=
  readFields_fuel f1 f2 b h1 h2

def exKey (c : UInt8) (s : Nat) (p : Bool) : IKey := { ukey := [c, 0x62], seq := s, put := p }

def exEdit : EditRec :=
  { wal := some 12, prevWal := none, seq := some 77, next := some 300,
    ptrs := [(1, exKey 0x61 5 true)],
    deleted := [(1, 7), (0, 15), (1, 7)],
    files := [⟨1, 16, 1234, exKey 0x61 1 true, exKey 0x7a (2^64 - 1) false⟩, ⟨0, 17, 0, ⟨[], 0, false⟩, ⟨[], 0, true⟩⟩] }

/-- non-vacuity: a concrete record (with an unordered, duplicated deleted-file list) is well
formed, has the byte layout produced by the crate, and reads back -/
example : exEdit.WF := by decide
example : toHex (encodeEdit exEdit) =
    "020c03ac02044d05010b616205000000000000000106010706000f060107" ++
    "070110d2090b616201000000000000000" ++ "10b7a62ffffffffffffffff00" ++
    "0700110009000000000000000000" ++ "09000000000000000001" := by decide +kernel
example : decodeEditRaw (encodeEdit exEdit) = some exEdit := by decide
example : decodeEdit (encodeEdit exEdit) = some { exEdit with deleted := [(0, 15), (1, 7)] } := by decide
example : normEdit exEdit ≠ exEdit := by decide
/-- duplicate scalar: the last one wins; tag order is free -/
example : decodeEdit (encodeFields [.seq 1, .wal 5, .del 2 9, .wal 6]) =
    some { EditRec.empty with wal := some 6, seq := some 1, deleted := [(2, 9)] } := by decide
/-- rejected: comparator tag, reserved tag 8, unknown tag, level 7, short internal key, bad operation byte -/
example : decodeEdit [1] = none ∧ decodeEdit [8] = none ∧ decodeEdit [10] = none ∧
    decodeEdit [6, 7, 1] = none ∧ decodeEdit [5, 0, 8, 0, 0, 0, 0, 0, 0, 0, 1] = none ∧
    decodeEdit [5, 0, 9, 0, 0, 0, 0, 0, 0, 0, 0, 2] = none := by decide
/-- accepted although not canonical: overlong tag (`82 00`), tag with bits above 2^32
(`82 80 80 80 10`), 64-bit value with bits above 2^64 (`.. 7f` as tenth byte) -/
example : decodeEdit [0x82, 0x00, 12] = some { EditRec.empty with wal := some 12 } ∧
    decodeEdit [0x82, 0x80, 0x80, 0x80, 0x10, 12] = some { EditRec.empty with wal := some 12 } ∧
    decodeEdit [2, 0xff, 0xff, 0xff, 0xff, 0xff, 0xff, 0xff, 0xff, 0xff, 0x7f] =
      some { EditRec.empty with wal := some (2^64 - 1) } := by decide
example : decodeEdit [] = some EditRec.empty := by decide
/-- cut inside the last field: rejected; cut in front of it: accepted, the new file is lost -/
example : decodeEdit ((encodeEdit exEdit).take ((encodeEdit exEdit).length - 1)) = none := by decide
example : decodeEditRaw ((encodeEdit exEdit).take ((encodeEdit exEdit).length - 24)) =
    some { exEdit with files := exEdit.files.take 1 } := by decide

end Rain.Codec
