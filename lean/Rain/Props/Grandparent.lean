import Rain.Lemmas.Grandparent
import Rain.Grandparent
/-
Theorems about the grandparent rule (`Rain/Grandparent.lean`), for every grandparent list, every
size assignment, every limit and every sequence of questions (in any order):

* C09: the index never leaves the list — `overlapping_grandparents[grandparent_index]` is only
  evaluated under the loop's bound, and the bound is an invariant;
* the rule answers "stop" at most `total grandparent bytes / (limit + 1)` times: every stop has
  consumed more than `limit` bytes of files that are never counted again — so the rule alone cannot
  shred a compaction's output into more files than that.
-/
namespace Rain.Props.Grandparent
open Rain Rain.Lsm Rain.Grandparent Rain.Grandparent.Lemmas

/-- **C09: the index of the grandparent rule stays inside the list**, whatever is asked and in
whatever order -/
theorem C09_grandparent_index_in_bounds (gps : List File) (size : Nat → Nat) (limit : Nat)
    (st : GpState) (stops : Nat) (h : GInv gps size limit st stops) (e : Entry) :
    (shouldStop gps size limit st e).2.idx ≤ gps.length :=
  (shouldStop_inv gps size limit st e stops h).bound

/-- **the rule stops at most `total / (limit + 1)` times** over any sequence of questions -/
theorem C09_grandparent_stops_are_bounded (gps : List File) (size : Nat → Nat) (limit : Nat)
    (es : List Entry) :
    ((answers gps size limit GpState.init es).filter id).length * (limit + 1) ≤ sumSizes size gps := by
  have := answers_inv gps size limit es GpState.init 0 (init_inv gps size limit)
  simpa using this

/-! ### non-vacuity -/

section Example

private def f (num : Nat) (a b : Char) : File :=
  { num := num, smallest := ([a.toNat.toUInt8], 9), largest := ([b.toNat.toUInt8], 1), entries := [] }
private def q (c : Char) : Entry := { ukey := [c.toNat.toUInt8], seq := 5, put := true, val := [] }

/-- three grandparent files of 6 bytes, limit 10: the first question only switches counting on;
`c` passes the first file (6), `e` the second (12 > 10: stop, reset), `g` the third (6) -/
example : answers [f 1 'a' 'b', f 2 'c' 'd', f 3 'e' 'f'] (fun _ => 6) 10 GpState.init
    [q 'a', q 'c', q 'e', q 'g', q 'z'] = [false, false, true, false, false] := by decide +kernel

end Example

end Rain.Props.Grandparent
