import Rain.CacheKeys
import Rain.Lemmas.CacheKeys
import Rain.Props.Lru
/-
C01 / C13 (a read is served the block of the table it asked): block-cache keys of different opened
tables never coincide, however many database instances share the block cache and however often
they are closed and reopened - because the partition id comes from a counter inside the SHARED
cache.  With `Rain/Props/Lru.lean` (a hit returns the last value inserted under that key) a cached
block handed to a table is a block that very table inserted.
Model: `Rain/CacheKeys.lean`.
-/
namespace Rain.Props.CacheKeys
open Rain.CacheKeys Rain.CacheKeys.Lemmas

/-- **Keys of different opened tables never collide**: after any sequence of table openings by any
instances (and other requests for ids) on a fresh block cache, two different positions of the list
of opened tables - two different `Table` objects, be it the same file opened twice, the same file
number in another instance or after a reopen - have different partition ids, hence different keys
for every pair of block offsets. -/
theorem C01_block_cache_keys_never_collide (steps : List Step) (i j : Nat) (a b : Opened)
    (ha : (run ({ lastId := 0 }, []) steps).2[i]? = some a)
    (hb : (run ({ lastId := 0 }, []) steps).2[j]? = some b) (hij : i ≠ j) (o1 o2 : Nat) :
    key a o1 ≠ key b o2 := by
  have hg : Good (run ({ lastId := 0 }, []) steps) :=
    good_run _ steps ⟨by simp, by simp⟩
  have hp := hg.2
  have hne : a.id ≠ b.id := by
    rcases Nat.lt_or_gt_of_ne hij with h | h
    · have := List.pairwise_iff_getElem.mp hp i j
        (by have := List.getElem?_eq_some_iff.mp ha; exact this.1)
        (by have := List.getElem?_eq_some_iff.mp hb; exact this.1) h
      have ea := (List.getElem?_eq_some_iff.mp ha).2
      have eb := (List.getElem?_eq_some_iff.mp hb).2
      rw [ea, eb] at this
      omega
    · have := List.pairwise_iff_getElem.mp hp j i
        (by have := List.getElem?_eq_some_iff.mp hb; exact this.1)
        (by have := List.getElem?_eq_some_iff.mp ha; exact this.1) h
      have ea := (List.getElem?_eq_some_iff.mp ha).2
      have eb := (List.getElem?_eq_some_iff.mp hb).2
      rw [ea, eb] at this
      omega
  intro e
  simp only [key, Prod.mk.injEq] at e
  exact hne e.1

/-- **What C01h did** (kernel-checked): with the id taken from a per-instance counter, instance 1
opening file 5 and - after a reopen - instance 2 opening file 9 get the SAME partition id: block
offset 0 of file 9 hits the cached block 0 of file 5. -/
theorem C01_per_instance_ids_collide :
    let s := [Step.openTable 1 5, Step.openTable 2 9].foldl stepPerInstance (fun _ => 0, [])
    s.2.map (fun t => key t 0) = [(1, 0), (1, 0)] := by decide

/-- **A cached block handed to a table is that table's block** (C01 / C13 through the block cache).
Tables are opened by any instances on a fresh block cache (`steps`); the cache is used under keys
`enc (partition id, offset)` for an injective `enc` (`From<&BlockCacheKey> for Vec<u8>`: two fixed
8-byte fields); every value ever inserted is the block `block inst file offset` of the table whose
key it is inserted under (what `Table::get_block_reader` does on a miss).  Then whatever a hit
returns to table `b` asking for offset `o` is `b`'s own block at `o` - never a block of another
file, another instance or another offset, for every cache capacity and every history. -/
theorem C01_cached_block_is_the_asking_tables_block (steps : List Step) (enc : Nat × Nat → Nat)
    (henc : ∀ x y, enc x = enc y → x = y) (block : Nat → Nat → Nat → Nat) (cap : Nat)
    (hist : List Rain.Lru.Op)
    (hins : ∀ k v, Rain.Lru.Op.insert k v ∈ hist →
      ∃ (i : Nat) (a : Opened) (o : Nat), (run ({ lastId := 0 }, []) steps).2[i]? = some a ∧ k = enc (key a o) ∧
        v = block a.inst a.file o)
    (j : Nat) (b : Opened) (o : Nat) (hb : (run ({ lastId := 0 }, []) steps).2[j]? = some b) (v : Nat)
    (hhit : (Rain.Lru.step (Rain.Lru.run (Rain.Lru.empty cap) hist).1 (.get (enc (key b o)))).2 = some v) :
    v = block b.inst b.file o := by
  have hmem := Rain.Lru.cache_hit_was_inserted_under_its_key cap hist _ v hhit
  obtain ⟨i, a, o', ha, hk, hv⟩ := hins _ _ hmem
  have hkey : key b o = key a o' := henc _ _ hk
  by_cases hij : i = j
  · subst hij
    rw [ha] at hb
    have : a = b := Option.some.inj hb
    subst this
    have : o = o' := by simp [key] at hkey; exact hkey
    subst this
    exact hv
  · exact absurd hkey.symm (C01_block_cache_keys_never_collide steps i j a b ha hb hij o' o)

/-! ### non-vacuity -/
example : (run ({ lastId := 0 }, []) [.openTable 1 5, .takeId, .openTable 2 9, .openTable 1 5]).2.map Opened.id
    = [1, 3, 4] := by decide

end Rain.Props.CacheKeys
