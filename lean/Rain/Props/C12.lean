import Rain.Log
import Rain.Lemmas.Log
/-
C12 — "Log files return exactly the records appended, for every size and reopen point".

Only the property theorems and their non-vacuity examples live here; every helper lemma is in
`Rain/Lemmas/Log.lean`.  All quantifiers are unbounded: every block size `B` with `H < B ≤ 65535+H`
(the instance used by the code, `B = 32768`, is checked at the bottom), every checksum function
with 32-bit results, every list of sessions, every record content and length, every cut.
-/
namespace Rain.Log

/-- the configurations the theorems cover -/
structure Cfg.WF (c : Cfg) : Prop where
  hB : H < c.B
  hB2 : c.B ≤ 65535 + H
  hcrc : ∀ d, c.crc d < 2^32

/-- file length after the first `k` records of a single writer on an empty file -/
def lenAfter (c : Cfg) (recs : List Bytes) (k : Nat) : Nat :=
  (writeSession c [] (recs.take k)).length

/-- **Round trip, every record length, every split into writer sessions.** -/
theorem C12_roundtrip (c : Cfg) (h : c.WF) (sessions : List (List Bytes)) :
    readAll c (writeSessions c [] sessions) = sessions.flatten :=
  roundtrip c h.hB h.hB2 h.hcrc sessions

/-- re-opening the writer between appends never changes the bytes written -/
theorem C12_sessions_irrelevant (c : Cfg) (h : c.WF) (sessions : List (List Bytes)) :
    writeSessions c [] sessions = writeSession c [] sessions.flatten :=
  sessions_flatten c h.hB sessions

/--
**Truncation at any byte.** If the file is cut at `n` bytes, with the first `k` records complete
(`lenAfter k ≤ n`) and record `k+1`, if any, incomplete, the reader returns exactly the first `k`
records: every complete record, in order, nothing else.
-/
theorem C12_truncation (c : Cfg) (h : c.WF) (recs : List Bytes) (n k : Nat)
    (hk : k ≤ recs.length) (hlo : lenAfter c recs k ≤ n)
    (hhi : k = recs.length ∨ n < lenAfter c recs (k+1)) :
    readAll c ((writeSession c [] recs).take n) = recs.take k :=
  truncation c h.hB h.hB2 h.hcrc recs n k hk hlo hhi

/-- for every cut point there is such a `k` (so the theorem above applies to every `n`) -/
theorem C12_truncation_total (c : Cfg) (h : c.WF) (recs : List Bytes) (n : Nat) :
    ∃ k, k ≤ recs.length ∧ readAll c ((writeSession c [] recs).take n) = recs.take k :=
  truncation_total c h.hB h.hB2 h.hcrc recs n

/--
**A writer that died between two `write` calls of a record, then a later writer.**
`recs` were appended completely, the writer died after `j` of the writes of `last` (zero padding
and fragments are separate writes; `j` smaller than their number, so `last` is incomplete), a new
writer re-opened the file and appended `rs`. The reader returns `recs ++ rs`: every complete
record, and never a record that was not appended.
-/
theorem C12_partial_then_append (c : Cfg) (h : c.WF) (recs : List Bytes) (last : Bytes) (j : Nat)
    (rs : List Bytes)
    (hj : j < (appendWrites c (openOffset c (writeSession c [] recs).length) last).1.length) :
    readAll c (writeSession c (writeSessionCut c (writeSession c [] recs) [last] j) rs) = recs ++ rs :=
  partial_then_append c h.hB h.hB2 h.hcrc recs last j rs hj

/-- the writer's block offset is the file length modulo the block size at every call boundary -/
theorem C12_offset_sync (c : Cfg) (h : c.WF) (recs : List Bytes) :
    (appendAllWrites c 0 recs).2 % c.B = (writeSession c [] recs).length % c.B ∧
    (appendAllWrites c 0 recs).2 ≤ c.B :=
  offset_sync c h.hB recs

/-! ### the code's instance, and non-vacuity -/

/-- The real constants satisfy the hypotheses (re-checked whenever `/repo`'s constants change). -/
theorem real_constants_ok :
    Rain.Gen.LOG_HEADER_LENGTH_BYTES = H ∧ H < Rain.Gen.LOG_BLOCK_SIZE_BYTES ∧
    Rain.Gen.LOG_BLOCK_SIZE_BYTES ≤ 65535 + H := by decide

/-- mask / unmask are inverse on 32-bit values for the rotation amounts and delta of the code -/
theorem C12_unmask_mask (x : Nat) (hx : x < 2^32) : unmaskCrc (maskCrc x) = x :=
  unmask_mask x hx

/-- a tiny configuration (block of 16 bytes, trivial checksum) on which everything is computable -/
def tinyCfg : Cfg := { B := 16, crc := fun d => (d.foldl (fun a b => a + b.toNat) 0) % 65536 }

theorem tinyCfg_wf : tinyCfg.WF := ⟨by decide, by decide, fun d => by
  show (d.foldl (fun a b => a + b.toNat) 0) % 65536 < 2^32
  omega⟩

/-- a record longer than a block, split over two sessions, read back (kernel-evaluated) -/
example : readAll tinyCfg (writeSessions tinyCfg [] [[[1, 2, 3]], [List.replicate 20 7, []]])
    = [[1, 2, 3], List.replicate 20 7, []] := by decide

/-- the hypothesis of `C12_partial_then_append` is satisfiable: a 20-byte record needs 3 writes -/
example : 1 < (appendWrites tinyCfg (openOffset tinyCfg (writeSession tinyCfg [] [[1]]).length)
    (List.replicate 20 7)).1.length := by decide

end Rain.Log
