import Rain.Log
import Rain.Lemmas.Log
import Rain.Lemmas.LogClean
/-
C12 — "Log files return exactly the records appended, for every size and reopen point".

Only the property theorems and their non-vacuity examples live here; every helper lemma is in
`Rain/Lemmas/Log.lean`.  All quantifiers are unbounded: every block size `B` with `H < B ≤ 65535+H`
(the instance used by the code, `B = 32768`, is checked at the bottom), every checksum function
with 32-bit results, every list of sessions, every record content and length, every cut.
-/
namespace Rain.Log

/-- the configurations the theorems cover -/
structure Cfg.WF (c : Cfg) : Prop where
  hB : H < c.B
  hB2 : c.B ≤ 65535 + H
  hcrc : ∀ d, c.crc d < 2^32

/-- file length after the first `k` records of a single writer on an empty file -/
def lenAfter (c : Cfg) (recs : List Bytes) (k : Nat) : Nat :=
  (writeSession c [] (recs.take k)).length

/-- **Round trip, every record length, every split into writer sessions.** -/
theorem C12_roundtrip (c : Cfg) (h : c.WF) (sessions : List (List Bytes)) :
    readAll c (writeSessions c [] sessions) = sessions.flatten :=
  roundtrip c h.hB h.hB2 h.hcrc sessions

/-- re-opening the writer between appends never changes the bytes written -/
theorem C12_sessions_irrelevant (c : Cfg) (h : c.WF) (sessions : List (List Bytes)) :
    writeSessions c [] sessions = writeSession c [] sessions.flatten :=
  sessions_flatten c h.hB sessions

/--
**Truncation at any byte.** If the file is cut at `n` bytes, with the first `k` records complete
(`lenAfter k ≤ n`) and record `k+1`, if any, incomplete, the reader returns exactly the first `k`
records: every complete record, in order, nothing else.
-/
theorem C12_truncation (c : Cfg) (h : c.WF) (recs : List Bytes) (n k : Nat)
    (hk : k ≤ recs.length) (hlo : lenAfter c recs k ≤ n)
    (hhi : k = recs.length ∨ n < lenAfter c recs (k+1)) :
    readAll c ((writeSession c [] recs).take n) = recs.take k :=
  truncation c h.hB h.hB2 h.hcrc recs n k hk hlo hhi

/-- for every cut point there is such a `k` (so the theorem above applies to every `n`) -/
theorem C12_truncation_total (c : Cfg) (h : c.WF) (recs : List Bytes) (n : Nat) :
    ∃ k, k ≤ recs.length ∧ readAll c ((writeSession c [] recs).take n) = recs.take k :=
  truncation_total c h.hB h.hB2 h.hcrc recs n

/--
**A writer that died between two `write` calls of a record, then a later writer.**
`recs` were appended completely, the writer died after `j` of the writes of `last` (zero padding
and fragments are separate writes; `j` smaller than their number, so `last` is incomplete), a new
writer re-opened the file and appended `rs`. The reader returns `recs ++ rs`: every complete
record, and never a record that was not appended.
-/
theorem C12_partial_then_append (c : Cfg) (h : c.WF) (recs : List Bytes) (last : Bytes) (j : Nat)
    (rs : List Bytes)
    (hj : j < (appendWrites c (openOffset c (writeSession c [] recs).length) last).1.length) :
    readAll c (writeSession c (writeSessionCut c (writeSession c [] recs) [last] j) rs) = recs ++ rs :=
  partial_then_append c h.hB h.hB2 h.hcrc recs last j rs hj

/-- the writer's block offset is the file length modulo the block size at every call boundary -/
theorem C12_offset_sync (c : Cfg) (h : c.WF) (recs : List Bytes) :
    (appendAllWrites c 0 recs).2 % c.B = (writeSession c [] recs).length % c.B ∧
    (appendAllWrites c 0 recs).2 ≤ c.B :=
  offset_sync c h.hB recs

/-! ### `was_read_cleanly_to_end`: when recovery may re-open a log for appending -/

/-- the status-carrying reader returns exactly the records of the plain reader -/
theorem C12_status_reader_same_records (c : Cfg) (file : Bytes) :
    (readAllS c file).1 = readAll c file :=
  readAllS_records c file

/-- a completely written log reads cleanly to its end (so it IS re-used) -/
theorem C12_written_log_is_reusable (c : Cfg) (h : c.WF) (recs : List Bytes) :
    (readAllS c (writeSession c [] recs)).2 = true :=
  written_is_clean c h.hB h.hB2 h.hcrc recs

/-
First version of the next theorem (false since a completely present trailer is consumed before
asking whether bytes are left over, as the implementation does):
  theorem C12_torn_log_is_not_reused (c : Cfg) (h : c.WF) (recs : List Bytes) (n k : Nat)
      (hk : k < recs.length) (hlo : lenAfter c recs k < n) (hhi : n < lenAfter c recs (k+1)) :
      (readAllS c ((writeSession c [] recs).take n)).2 = false
Counterexample: `B = 16`, records of 5 and 3 bytes, `k = 1`, `n = 16`: `lenAfter 1 = 12`, the
writer pads bytes 12..15 before the header of the second record, `lenAfter 2 = 26`; the file cut
at 16 ends exactly after the complete trailer and the flag is `true` (third `example` below).
That cut, `n = lenAfter k + padAfter (lenAfter k)`, is the only exception (`hne`), and it is
harmless: `C12_padding_end_is_clean_and_safe`.
-/
/--
a log cut strictly inside record `k+1` (at least one byte written for it -- padding counts -- and
not all of them), other than exactly after the complete padding that precedes its first header,
does NOT read cleanly, so it is not re-used
-/
theorem C12_torn_log_is_not_reused (c : Cfg) (h : c.WF) (recs : List Bytes) (n k : Nat)
    (hk : k < recs.length) (hlo : lenAfter c recs k < n)
    (hne : n ≠ lenAfter c recs k + padAfter c (lenAfter c recs k))
    (hhi : n < lenAfter c recs (k+1)) :
    (readAllS c ((writeSession c [] recs).take n)).2 = false :=
  torn_is_dirty c h.hB h.hB2 h.hcrc recs n k hk hlo hne hhi

/-- in particular: as soon as one byte of the first header of record `k+1` is present -/
theorem C12_torn_log_is_not_reused_header (c : Cfg) (h : c.WF) (recs : List Bytes) (n k : Nat)
    (hk : k < recs.length) (hlo : lenAfter c recs k + padAfter c (lenAfter c recs k) < n)
    (hhi : n < lenAfter c recs (k+1)) :
    (readAllS c ((writeSession c [] recs).take n)).2 = false :=
  torn_is_dirty_header c h.hB h.hB2 h.hcrc recs n k hk hlo hhi

/--
the complementary case: cut exactly after the complete padding that precedes record `k+1` (or at
the end of record `k` when there is no padding). The flag is `true`, the file reads as the first
`k` records, and appending to it is safe.
-/
theorem C12_padding_end_is_clean_and_safe (c : Cfg) (h : c.WF) (recs : List Bytes) (k : Nat)
    (hk : k < recs.length) (rs : List Bytes) :
    (readAllS c ((writeSession c [] recs).take (lenAfter c recs k + padAfter c (lenAfter c recs k)))).2
      = true ∧
    readAll c (writeSession c
      ((writeSession c [] recs).take (lenAfter c recs k + padAfter c (lenAfter c recs k))) rs)
      = recs.take k ++ rs := by
  unfold lenAfter
  have hc := padding_end_is_clean c h.hB h.hB2 h.hcrc recs k hk
  refine ⟨hc, ?_⟩
  rw [clean_append c h.hB h.hB2 h.hcrc _ hc rs,
    truncation c h.hB h.hB2 h.hcrc recs _ k (Nat.le_of_lt hk) (Nat.le_add_right _ _)
      (Or.inr (padding_end_lt c h.hB recs k hk))]

/--
**Appending to ANY file that reads cleanly is safe**: `file` is arbitrary bytes (not necessarily
produced by this writer); if the reader consumes it cleanly, a writer re-opened on it that appends
`rs` yields a file that reads back as the old records followed by `rs`.
-/
theorem C12_clean_append (c : Cfg) (h : c.WF) (file : Bytes)
    (hclean : (readAllS c file).2 = true) (rs : List Bytes) :
    readAll c (writeSession c file rs) = readAll c file ++ rs :=
  clean_append c h.hB h.hB2 h.hcrc file hclean rs

/-! ### the code's instance, and non-vacuity -/

/-- The real constants satisfy the hypotheses (re-checked whenever `/repo`'s constants change). -/
theorem real_constants_ok :
    Rain.Gen.LOG_HEADER_LENGTH_BYTES = H ∧ H < Rain.Gen.LOG_BLOCK_SIZE_BYTES ∧
    Rain.Gen.LOG_BLOCK_SIZE_BYTES ≤ 65535 + H := by decide

/-- mask / unmask are inverse on 32-bit values for the rotation amounts and delta of the code -/
theorem C12_unmask_mask (x : Nat) (hx : x < 2^32) : unmaskCrc (maskCrc x) = x :=
  unmask_mask x hx

/-- a tiny configuration (block of 16 bytes, trivial checksum) on which everything is computable -/
def tinyCfg : Cfg := { B := 16, crc := fun d => (d.foldl (fun a b => a + b.toNat) 0) % 65536 }

theorem tinyCfg_wf : tinyCfg.WF := ⟨by decide, by decide, fun d => by
  show (d.foldl (fun a b => a + b.toNat) 0) % 65536 < 2^32
  omega⟩

/-- a record longer than a block, split over two sessions, read back (kernel-evaluated) -/
example : readAll tinyCfg (writeSessions tinyCfg [] [[[1, 2, 3]], [List.replicate 20 7, []]])
    = [[1, 2, 3], List.replicate 20 7, []] := by decide

/-- the hypothesis of `C12_partial_then_append` is satisfiable: a 20-byte record needs 3 writes -/
example : 1 < (appendWrites tinyCfg (openOffset tinyCfg (writeSession tinyCfg [] [[1]]).length)
    (List.replicate 20 7)).1.length := by decide

/-- the flag is computable and both values occur: whole file clean, cut inside the last record dirty,
cut exactly at the end of the padding that precedes the second record (`n = 16 = 12 + 4`) clean,
cut inside that padding dirty -/
example : (readAllS tinyCfg (writeSession tinyCfg [] [[1, 2, 3, 4, 5], [6, 7, 8]])).2 = true ∧
    (readAllS tinyCfg ((writeSession tinyCfg [] [[1, 2, 3, 4, 5], [6, 7, 8]]).take 20)).2 = false ∧
    (readAllS tinyCfg ((writeSession tinyCfg [] [[1, 2, 3, 4, 5], [6, 7, 8]]).take 16)).2 = true ∧
    (readAllS tinyCfg ((writeSession tinyCfg [] [[1, 2, 3, 4, 5], [6, 7, 8]]).take 14)).2 = false ∧
    lenAfter tinyCfg [[1, 2, 3, 4, 5], [6, 7, 8]] 1 = 12 ∧ padAfter tinyCfg 12 = 4 := by
  decide

end Rain.Log
