import Rain.Bloom
import Rain.FilterBlock
import Rain.Lemmas.Bloom
import Rain.Lemmas.FilterBlock
/-
C14 — "Filters never hide a key that is present".

Only the property theorems and their non-vacuity examples; helper lemmas are in
`Rain/Lemmas/Bloom.lean` and `Rain/Lemmas/FilterBlock.lean`.
Quantifiers: every hash function, every key list (any size, duplicates, empty keys, arbitrary
bytes), every bits-per-key and probe count; every block layout with non-decreasing start
offsets (several blocks per filter range, blocks spanning several ranges, blocks without keys),
every filter policy without false negatives.
-/
namespace Rain

/-- **A Bloom filter answers "may match" for every key it was built from.**
`hfaithful` delimits the range in which the model is faithful to the code (`filter_size_bits as
u32` does not truncate); it is not needed by the proof. -/
theorem C14_bloom_no_false_negative (hash : Bytes → UInt32) (bpk k : Nat) (keys : List Bytes)
    (key : Bytes) (hk : k < 256) (_hfaithful : Bloom.filterBytes keys.length bpk * 8 < 2^32)
    (hmem : key ∈ keys) :
    Bloom.mayMatch hash key (Bloom.createFilter hash bpk k keys) = some true :=
  Bloom.no_false_negative hash bpk k keys key hk hmem

/-- the number of probes of a policy is in [1, 30] for **every** bits-per-key setting, so it
fits the filter's first byte -/
theorem C14_probes_clamped (bpk : Nat) :
    1 ≤ Bloom.probesFor bpk ∧ Bloom.probesFor bpk ≤ 30 :=
  Bloom.probes_clamped bpk

/-- the policy as the database instantiates it (`BloomFilterPolicy::new(bpk)`) -/
theorem C14_policy_no_false_negative (bpk : Nat) (keys : List Bytes) (key : Bytes)
    (_hfaithful : Bloom.filterBytes keys.length bpk * 8 < 2^32) (hmem : key ∈ keys) :
    Bloom.mayMatch Bloom.bloomHash key
      (Bloom.createFilter Bloom.bloomHash bpk (Bloom.probesFor bpk) keys) = some true :=
  Bloom.no_false_negative Bloom.bloomHash bpk (Bloom.probesFor bpk) keys key
    (by have := (Bloom.probes_clamped bpk).2; omega) hmem

/-- a created filter is never empty (so it is never mistaken for the "no keys" marker) -/
theorem C14_filter_nonempty (hash : Bytes → UInt32) (bpk k : Nat) (keys : List Bytes) :
    Bloom.createFilter hash bpk k keys ≠ [] :=
  Bloom.createFilter_ne_nil hash bpk k keys

/-- **Filter block: keys of the block starting at offset `o` are found when the reader is
asked with `o`**, for every layout with non-decreasing block offsets and every policy
(`create`, `may`) that has no false negatives and builds non-empty filters. The block is
serialized by `finalize` and parsed back by `parse`, as the table builder and reader do. -/
theorem C14_filter_block_sound
    (create : List Bytes → Bytes) (may : Bytes → Bytes → Option Bool)
    (hpolicy : ∀ keys key, key ∈ keys → may key (create keys) = some true)
    (hne : ∀ keys, keys ≠ [] → create keys ≠ [])
    (blocks : List (Nat × List Bytes))
    (hmono : blocks.Pairwise (fun a b => a.1 ≤ b.1))
    (hsize : (FilterBlock.finalize create (FilterBlock.buildBlocks create {} blocks)).length < 2^32)
    (blk : Nat × List Bytes) (hblk : blk ∈ blocks) (u : Bytes) (hu : u ∈ blk.2) :
    ∃ r, FilterBlock.parse (FilterBlock.finalize create (FilterBlock.buildBlocks create {} blocks)) = some r ∧
      FilterBlock.keyMayMatch may r blk.1 u = true :=
  FilterBlock.block_sound create may hpolicy hne blocks hmono hsize blk hblk u hu

/-- the same with the Bloom policy plugged in: what a table's filter block guarantees -/
theorem C14_table_filter_sound (hash : Bytes → UInt32) (bpk k : Nat) (hk : k < 256)
    (blocks : List (Nat × List Bytes))
    (hmono : blocks.Pairwise (fun a b => a.1 ≤ b.1))
    (hsize : (FilterBlock.finalize (Bloom.createFilter hash bpk k)
      (FilterBlock.buildBlocks (Bloom.createFilter hash bpk k) {} blocks)).length < 2^32)
    (blk : Nat × List Bytes) (hblk : blk ∈ blocks) (u : Bytes) (hu : u ∈ blk.2) :
    ∃ r, FilterBlock.parse (FilterBlock.finalize (Bloom.createFilter hash bpk k)
        (FilterBlock.buildBlocks (Bloom.createFilter hash bpk k) {} blocks)) = some r ∧
      FilterBlock.keyMayMatch (Bloom.mayMatch hash) r blk.1 u = true :=
  C14_filter_block_sound (Bloom.createFilter hash bpk k) (Bloom.mayMatch hash)
    (fun keys key h => Bloom.no_false_negative hash bpk k keys key hk h)
    (fun keys _ => Bloom.createFilter_ne_nil hash bpk k keys)
    blocks hmono hsize blk hblk u hu

/-- the range-size exponent written by the builder fits its byte and is the generated constant -/
theorem C14_exponent_ok : FilterBlock.EXP < 256 ∧ FilterBlock.EXP = 11 := by decide

/-! ### non-vacuity (kernel-evaluated on concrete data) -/

/-- three blocks: two share the first 2 KiB range, the third starts two ranges later -/
example :
    let create := Bloom.createFilter Bloom.bloomHash 10 6
    let blocks : List (Nat × List Bytes) := [(0, [[1], [2, 3]]), (900, [[4]]), (5000, [[], [5, 6, 7, 8, 9]])]
    (blocks.Pairwise (fun a b => a.1 ≤ b.1)) ∧
    (FilterBlock.parse (FilterBlock.finalize create (FilterBlock.buildBlocks create {} blocks))).isSome := by
  decide

end Rain
