import Rain.Generated.Constants
import Rain.Score
import Rain.Lemmas.Score
import Rain.Lemmas.ScorePick
/-
Property theorems over the model of compaction scoring and `pick_compaction`
(`Rain/Score.lean`), part of C09 (the background thread never panics: a size-triggered compaction
is never asked of the last level or of an empty level) and of C07 (what `pick_compaction` selects
satisfies the input clauses of `validCompaction`).  Helper lemmas live in
`Rain/Lemmas/Score.lean` and `Rain/Lemmas/ScorePick.lean`.

Quantifiers: every parameter set (a positive level-0 trigger and a positive level-1 limit are
asked only where a statement needs them: `ht`, `hm`), every per-level list of (file count, total bytes) — of any length; a missing level is empty —,
every layout of files, every file-size function, every set of compaction pointers and every
`max_file_size`.  `scoredLevels ≤ 6` is the repaired loop bound of `Version::finalize`; the code
as it stands scores 7 levels, for which `C09_size_compaction_level_is_compactable` is FALSE
(`Rain/Legacy/ScoreD21.lean`).
-/
namespace Rain.Score
open Rain Rain.Lsm Rain.Score.Lemmas

/-! ### `Version::finalize` -/

/-- the level returned is one of the scored levels (level 0 is always scored) -/
theorem C09_scored_level_in_range (p : Params) (ls : List (Nat × Nat)) :
    (finalize p ls).1 < max 1 p.scoredLevels :=
  finalize_fst_lt p ls

/-- **the returned score is the score of the returned level, it is at least the score of every
scored level, and strictly greater than the score of every shallower level** (the loop replaces
on `>` only, so among levels with the maximal score the shallowest wins).  For a deeper level
only `≤` holds: see the tie example below. -/
theorem C09_best_score_is_maximal (p : Params) (hm : 0 < p.levelOneMax) (ls : List (Nat × Nat)) :
    (finalize p ls).2 = scoreAt p ls (finalize p ls).1 ∧
    (∀ l, l < max 1 p.scoredLevels → Score.le (scoreAt p ls l) (finalize p ls).2) ∧
    (∀ l, l < (finalize p ls).1 → Score.lt (scoreAt p ls l) (finalize p ls).2) :=
  ⟨(inv_finalize hm ls).eq, (inv_finalize hm ls).ge, (inv_finalize hm ls).gt⟩

/-- together with `C09_scored_level_in_range` and `C09_best_score_is_maximal` this determines the
result: it is the FIRST scored level whose score is maximal -/
theorem C09_best_level_is_first_maximal (p : Params) (hm : 0 < p.levelOneMax)
    (ls : List (Nat × Nat)) (l : Nat) (hmax : Score.le (finalize p ls).2 (scoreAt p ls l)) :
    (finalize p ls).1 ≤ l :=
  finalize_first_maximal hm ls l hmax

/-! ### `requires_size_compaction` -/

/-- a size compaction is needed exactly when level 0 holds `L0_COMPACTION_TRIGGER` files or a
scored level ≥ 1 holds at least its byte limit -/
theorem C09_needs_size_iff (p : Params) (ht : 0 < p.l0Trigger) (hm : 0 < p.levelOneMax)
    (ls : List (Nat × Nat)) :
    needsSize p ls = true ↔
      (p.l0Trigger ≤ countAt ls 0 ∨
        ∃ l, 1 ≤ l ∧ l < p.scoredLevels ∧ l < ls.length ∧ maxBytes p l ≤ bytesAt ls l) :=
  needsSize_iff ht hm ls

/-- **with the repaired loop bound the level chosen can be compacted into the next one**: the
`assert!(level_to_compact + 1 < MAX_NUM_LEVELS)` of `pick_compaction` holds.  (It holds whether or
not a size compaction is needed.) -/
theorem C09_size_compaction_level_is_compactable (p : Params) (hs : p.scoredLevels ≤ 6)
    (ls : List (Nat × Nat)) : (finalize p ls).1 + 1 < 7 := by
  have := finalize_fst_lt p ls
  omega

/-- **the level chosen for a size compaction holds a file**, so `files[level][0]` in the
wrap-around of `pick_compaction` exists.  `hwf`: the byte count of a level without files is 0
(it is a sum over the files).  No hypothesis on the parameters is needed: a level other than 0 is
only ever taken with a positive byte count. -/
theorem C09_size_compaction_level_is_not_empty (p : Params)
    (ls : List (Nat × Nat)) (hwf : ∀ c b, (c, b) ∈ ls → c = 0 → b = 0)
    (h : needsSize p ls = true) : 0 < countAt ls (finalize p ls).1 :=
  needsSize_count_pos p ls hwf h

/-- what `pick_compaction` feeds into the scores satisfies `hwf` -/
theorem C09_level_stats_well_formed (size : Nat → Nat) (levels : List (List File)) :
    ∀ c b, (c, b) ∈ levelStats size levels → c = 0 → b = 0 :=
  levelStats_wf size levels

/-! ### the seed -/

/-- a level with files always yields a seed, and it is a file of the level -/
theorem C09_seed_exists (fs : List File) (ptr : Option (Bytes × Nat)) (hne : fs ≠ []) :
    ∃ f, pickSeed fs ptr = some f ∧ f ∈ fs :=
  pickSeed_isSome hne ptr

/-- with a compaction pointer below the largest key of some file: the seed is the first file
ending above the pointer -/
theorem C09_seed_is_first_above_pointer (fs : List File) (k : Bytes × Nat) (f : File)
    (h : pickSeed fs (some k) = some f) (hex : ∃ g ∈ fs, kLt k g.largest = true) :
    kLt k f.largest = true ∧
      ∃ pre suf, fs = pre ++ f :: suf ∧ ∀ g ∈ pre, kLt k g.largest = false :=
  pickSeed_above h hex

/-- no pointer, or no file ending above it: the first file of the level (wrap-around) -/
theorem C09_seed_wraps_around (fs : List File) (ptr : Option (Bytes × Nat))
    (hno : ∀ k, ptr = some k → ∀ g ∈ fs, kLt k g.largest = false) :
    pickSeed fs ptr = fs.head? :=
  pickSeed_wraps hno

/-! ### `pick_compaction` -/

/-- **with the repaired loop bound `pick_compaction` hits neither of its two panics**, for every
layout, every size function and every pointer set -/
theorem C09_pick_never_panics (p : Params) (hs : p.scoredLevels ≤ 6)
    (maxFileSize : Nat) (size : Nat → Nat) (levels : List (List File))
    (pointers : List (Option (Bytes × Nat))) (lvl : Nat) :
    pickOutcome p maxFileSize size levels pointers ≠ .lastLevelChosen lvl ∧
      pickOutcome p maxFileSize size levels pointers ≠ .emptyLevelChosen lvl :=
  no_anomalous_outcome hs maxFileSize size levels pointers lvl

/-- the index panic `files[level][0]` is unreachable whatever the parameters (the legacy loop bound
included): only the assertion on the last level is at stake -/
theorem C09_empty_level_is_never_chosen (p : Params) (maxFileSize : Nat) (size : Nat → Nat)
    (levels : List (List File)) (pointers : List (Option (Bytes × Nat))) (lvl : Nat) :
    pickOutcome p maxFileSize size levels pointers ≠ .emptyLevelChosen lvl :=
  empty_level_never_chosen p maxFileSize size levels pointers lvl

/-- **a needed size compaction is picked**: at the level `finalize` chose, which is not the last
one, with at least one input file, all inputs being files of that level.

`_partial`: the statement asked for had no hypothesis on the files.  Without `hw0` it is false
when level 0 is chosen and the seed file has its smallest user key above its largest one
(`SeedCounterexample` below: the level-0 overlap search for the range of such a file finds
nothing, `input_files[0]` becomes empty and the Rust code fails the assertion of
`get_key_range_for_files`).  `hw0` asks `smallest ≤ largest` of the level-0 files, only if level 0
is the chosen level; it is part of the invariant (`fileOk`).  Everything else in the conclusion
holds unconditionally (`C09_pick_never_panics`). -/
theorem C09_size_compaction_is_picked_partial (p : Params)
    (hs : p.scoredLevels ≤ 6) (maxFileSize : Nat) (size : Nat → Nat) (levels : List (List File))
    (pointers : List (Option (Bytes × Nat)))
    (h : needsSize p (levelStats size levels) = true)
    (hw0 : (finalize p (levelStats size levels)).1 = 0 →
      ∀ f ∈ levels.getD 0 [], kLt f.largest f.smallest = false) :
    ∃ lvl i0 i1, pickCompaction p maxFileSize size levels pointers = some (lvl, i0, i1) ∧
      lvl = (finalize p (levelStats size levels)).1 ∧ lvl + 1 < 7 ∧ i0 ≠ [] ∧
      (∀ f ∈ i0, f ∈ levels.getD lvl []) :=
  size_compaction_is_picked hs maxFileSize size levels pointers h hw0

/-- the same for a state satisfying the invariant -/
theorem C09_size_compaction_is_picked_of_inv (p : Params)
    (hs : p.scoredLevels ≤ 6) (maxFileSize : Nat) (size : Nat → Nat) (s : State)
    (hinv : invB s = true) (pointers : List (Option (Bytes × Nat)))
    (h : needsSize p (levelStats size s.levels) = true) :
    ∃ lvl i0 i1, pickCompaction p maxFileSize size s.levels pointers = some (lvl, i0, i1) ∧
      lvl = (finalize p (levelStats size s.levels)).1 ∧ lvl + 1 < 7 ∧ i0 ≠ [] ∧
      (∀ f ∈ i0, f ∈ s.levels.getD lvl []) :=
  size_compaction_is_picked hs maxFileSize size s.levels pointers h
    (fun _ f hf => (((Rain.Lsm.Lemmas.invB_iff s).mp hinv).files 0 f hf).wf)

/-- **C07 for `pick_compaction`: the inputs of a picked size compaction satisfy the input clauses
of `validCompaction`**, for every state satisfying the invariant, every parameter set (the legacy
one included: a picked compaction is never at the last level), every pointer set -/
theorem C07_picked_size_compaction_inputs_are_valid (s : State) (hinv : invB s = true)
    (p : Params) (maxFileSize : Nat) (size : Nat → Nat) (pointers : List (Option (Bytes × Nat)))
    (lvl : Nat) (i0 i1 : List File)
    (h : pickCompaction p maxFileSize size s.levels pointers = some (lvl, i0, i1)) :
    validInputs s lvl (i0.map File.num) (i1.map File.num) = true :=
  picked_inputs_valid s hinv p maxFileSize size pointers (pickCompaction_some.mp h)

/-! ### the seek-triggered branch and the whole `pick_compaction` -/

/-- **C07 for the seek-triggered branch**: for every state satisfying the invariant and every
recorded seek compaction that names a file of its level (what `C09_seek_compaction_stays_well_placed`
proves of `file_to_compact`), the inputs `pick_compaction` builds from it satisfy the input clauses
of `validCompaction`. -/
theorem C07_picked_seek_compaction_inputs_are_valid (s : State) (hinv : invB s = true)
    (maxFileSize : Nat) (size : Nat → Nat) (lvl : Nat) (f : File) (hmem : f ∈ s.levels.getD lvl [])
    (l' : Nat) (i0 i1 : List File) (h : pickSeek maxFileSize size s.levels lvl f = .picked l' i0 i1) :
    l' = lvl ∧ validInputs s lvl (i0.map File.num) (i1.map File.num) = true :=
  seek_inputs_valid s hinv maxFileSize size hmem h

/-- **C09: the seek-triggered branch cannot index past the last level** when the recorded level
has a next level - which `C09_charged_level_is_not_the_last` / `C09_sampled_level_is_not_the_last`
prove of every charge. -/
theorem C09_seek_pick_never_panics (maxFileSize : Nat) (size : Nat → Nat) (levels : List (List File))
    (lvl : Nat) (f : File) (hl : lvl + 1 < 7) :
    ∃ i0 i1, pickSeek maxFileSize size levels lvl f = .picked lvl i0 i1 := by
  unfold pickSeek
  have : ¬ numLevels ≤ lvl + 1 := by simp [numLevels]; omega
  simp only [this, if_false]
  exact ⟨_, _, rfl⟩

/-- **C07 for the whole `pick_compaction`**: a size compaction is preferred
(`pickAny = pickOutcome` whenever that picks), otherwise the recorded seek compaction is taken;
whatever is picked has valid inputs. -/
theorem C07_every_picked_compaction_has_valid_inputs (s : State) (hinv : invB s = true)
    (p : Params) (maxFileSize : Nat) (size : Nat → Nat) (pointers : List (Option (Bytes × Nat)))
    (seek : Option (Nat × File)) (hseek : ∀ l f, seek = some (l, f) → f ∈ s.levels.getD l [])
    (lvl : Nat) (i0 i1 : List File)
    (h : pickAny p maxFileSize size s.levels pointers seek = .picked lvl i0 i1) :
    validInputs s lvl (i0.map File.num) (i1.map File.num) = true := by
  unfold pickAny at h
  split at h
  · split at h
    · rename_i l f
      have := seek_inputs_valid s hinv maxFileSize size (hseek l f rfl) h
      obtain ⟨rfl, hv⟩ := this
      exact hv
    · cases h
  · rename_i o hno
    exact picked_inputs_valid s hinv p maxFileSize size pointers h

/-- a needed size compaction is never displaced by a seek compaction -/
theorem C09_size_compaction_preferred (p : Params) (maxFileSize : Nat) (size : Nat → Nat)
    (levels : List (List File)) (pointers : List (Option (Bytes × Nat))) (seek : Option (Nat × File))
    (h : pickOutcome p maxFileSize size levels pointers ≠ .nothing) :
    pickAny p maxFileSize size levels pointers seek = pickOutcome p maxFileSize size levels pointers := by
  unfold pickAny
  split
  · rename_i hn; exact absurd hn h
  · rfl

/-! ### non-vacuity: concrete scores and layouts -/

namespace ScoreExample
open Rain.Lsm.PickExample

/-- the constants of the code -/
def std : Params := {}

example : std = { l0Trigger := 4, levelOneMax := 10485760, scoredLevels := 6 } := rfl

example : maxBytes std 1 = 10 * 1048576 ∧ maxBytes std 2 = 100 * 1048576 ∧
    maxBytes std 6 = 1000000 * 1048576 := by decide

/-- four level-0 files: level 0, score 1 -/
example : finalize std [(4, 400), (0, 0), (0, 0), (0, 0), (0, 0), (0, 0), (0, 0)] = (0, (1, 1)) ∧
    needsSize std [(4, 400), (0, 0), (0, 0), (0, 0), (0, 0), (0, 0), (0, 0)] = true := by decide

/-- three level-0 files and levels below their limits: nothing to do -/
example : needsSize std [(3, 300), (5, 10485759), (9, 104857599), (0, 0), (0, 0), (0, 0), (0, 0)]
    = false := by decide

/-- a tie (level 0 and level 1 both score exactly 1) keeps the shallower level: for a deeper
level only `≤` holds in `C09_best_score_is_maximal` -/
example : (finalize std [(4, 4), (5, 10485760), (0, 0), (0, 0), (0, 0), (0, 0), (0, 0)]).1 = 0 := by
  decide

/-- the level-0 score is an INTEGER quotient: seven files score 1, not 1.75, and lose against a
level 1 that is 1.5 times over its limit (LevelDB would compact level 0 here) -/
example : finalize std [(7, 7), (5, 15728640), (0, 0), (0, 0), (0, 0), (0, 0), (0, 0)]
    = (1, (15728640, 10485760)) := by decide

/-- a deep level wins on its relative size -/
example : (finalize std [(5, 5), (5, 10485761), (9, 314572800), (0, 0), (0, 0), (0, 0), (0, 0)]).1
    = 2 := by decide

/-- with the repaired bound level 6 is not scored, however large it is -/
example : needsSize std [(0, 0), (0, 0), (0, 0), (0, 0), (0, 0), (0, 0), (1, 1048576000001)]
    = false := by decide

/-- small parameters for the layout `PickExample.st`
(`[[A0, B0, C0], [Y, X], [F0, Fa, Fb], [], [], [], []]`, every file of size 1) -/
def small0 : Params := { l0Trigger := 3, levelOneMax := 10, scoredLevels := 6 }
def small1 : Params := { l0Trigger := 4, levelOneMax := 2, scoredLevels := 6 }

def nums (r : Option (Nat × List File × List File)) : Option (Nat × List Nat × List Nat) :=
  r.map fun x => (x.1, x.2.1.map File.num, x.2.2.map File.num)

def noPointers : List (Option (Bytes × Nat)) := List.replicate 7 none

/-- level 0 reaches its trigger: the first file `A0` is widened to every level-0 file its range
touches (`A0`, `B0`), level 1 contributes `Y`, `X` -/
example : nums (pickCompaction small0 100 one st.levels noPointers) = some (0, [10, 11], [5, 6]) := by
  decide +kernel

/-- level 1 over its limit, no pointer: the first file `Y` (expanded to `Y`, `X`) -/
example : levelStats one st.levels = [(3, 3), (2, 2), (3, 3), (0, 0), (0, 0), (0, 0), (0, 0)] ∧
    finalize small1 (levelStats one st.levels) = (1, (2, 2)) := by decide +kernel

example : nums (pickCompaction small1 100 one st.levels noPointers) = some (1, [5, 6], [1, 2, 3]) := by
  decide +kernel

/-- the pointer is the largest key of `Y`: the next file `X` is the seed -/
example : nums (pickCompaction small1 100 one st.levels
    [none, some (k 'd' 21), none, none, none, none, none]) = some (1, [6], [2, 3]) := by
  decide +kernel

/-- a pointer with the same user key but a NEWER sequence number lies before `Y`'s largest key in
internal-key order (sequence numbers descend), so `Y` is chosen again -/
example : pickSeed [Y, X] (some (k 'd' 22)) = some Y ∧ pickSeed [Y, X] (some (k 'd' 20)) = some X := by
  decide +kernel

/-- the pointer is beyond every file: wrap around to the first file -/
example : pickSeed [Y, X] (some (k 'z' 0)) = some Y := by decide +kernel

/-- the theorems apply to these cases -/
example : invB st = true := by decide +kernel

example : validInputs st 1 [6] [2, 3] = true := by decide +kernel

/-- nothing is picked when no level is over its limit -/
example : pickOutcome std 100 one st.levels noPointers = .nothing := by decide +kernel

/-- no size compaction is needed with the built-in limits, a read has charged `X` (level 1) out:
the seek-triggered branch picks `X` with its two parent files; had level 0 reached its trigger the
size compaction would have been taken instead -/
example : (match pickAny std 100 one st.levels noPointers (some (1, X)) with
    | .picked l a b => some (l, a.map File.num, b.map File.num) | _ => none) = some (1, [6], [2, 3]) ∧
    X ∈ st.levels.getD 1 [] ∧
    (match pickAny small0 100 one st.levels noPointers (some (1, X)) with
    | .picked l a b => some (l, a.map File.num, b.map File.num) | _ => none) = some (0, [10, 11], [5, 6]) := by
  decide +kernel

/-- the anomalous outcome exists in the model with the legacy loop bound: level 6 over its limit
(`emptyLevelChosen` is unreachable, `C09_empty_level_is_never_chosen`) -/
def legacySmall : Params := { l0Trigger := 4, levelOneMax := 1, scoredLevels := 7 }

example : pickOutcome legacySmall 100 (fun _ => 100001) [[], [], [], [], [], [], [X]] noPointers
    = .lastLevelChosen 6 := by decide +kernel

end ScoreExample

/-! ### the hypothesis `hw0` of `C09_size_compaction_is_picked_partial` cannot be dropped -/

namespace SeedCounterexample
open Rain.Lsm.PickExample

/-- a level-0 file whose smallest user key `b` is above its largest user key `a` -/
def bad (n : Nat) : File := { num := n, smallest := k 'b' 1, largest := k 'a' 1, entries := [] }

def levels : List (List File) := [[bad 1, bad 2, bad 3, bad 4], [], [], [], [], [], []]

/-- four such files: a size compaction of level 0 is needed and picked, but with NO input file —
the overlap search for the range `b..a` skips every file -/
example : needsSize {} (levelStats one levels) = true ∧
    pickCompaction {} 100 one levels (List.replicate 7 none) = some (0, [], []) := by
  decide +kernel

end SeedCounterexample

/-! ### the code's own parameters (`Rain/Generated/Constants.lean` is regenerated from /repo's
sources on every run: the loop bound of `Version::finalize`, `L0_COMPACTION_TRIGGER`, the level-1
limit and the per-level multiplier of `Version::max_bytes_for_level`).  If the loop of `finalize`
scores the last level again, `SCORED_LEVELS` becomes 7 and the `by decide` obligations below fail. -/

/-- the parameters the code uses -/
def codeParams : Params :=
  { l0Trigger := Rain.Gen.L0_COMPACTION_TRIGGER, levelOneMax := Rain.Gen.LEVEL_ONE_MAX_BYTES,
    scoredLevels := Rain.Gen.SCORED_LEVELS }

/-- the generated constants are the ones the model is written for: seven levels, a per-level
multiplier of 10 (`maxBytes`), positive trigger and limit, and a loop that leaves the last level out -/
theorem C09_code_parameters_are_the_modelled_ones :
    Rain.Gen.MAX_NUM_LEVELS = numLevels ∧ Rain.Gen.LEVEL_MAX_BYTES_MULTIPLIER = 10 ∧
    0 < codeParams.l0Trigger ∧ 0 < codeParams.levelOneMax ∧ codeParams.scoredLevels ≤ 6 := by decide

/-- **the code never asks for a size compaction of the last level** -/
theorem C09_code_never_scores_the_last_level (ls : List (Nat × Nat)) :
    (finalize codeParams ls).1 + 1 < 7 :=
  C09_size_compaction_level_is_compactable codeParams (by decide) ls

/-- **`pick_compaction` with the code's parameters hits neither of its panics** -/
theorem C09_code_pick_never_panics (maxFileSize : Nat) (size : Nat → Nat) (levels : List (List File))
    (pointers : List (Option (Bytes × Nat))) (lvl : Nat) :
    pickOutcome codeParams maxFileSize size levels pointers ≠ .lastLevelChosen lvl ∧
      pickOutcome codeParams maxFileSize size levels pointers ≠ .emptyLevelChosen lvl :=
  C09_pick_never_panics codeParams (by decide) maxFileSize size levels pointers lvl

end Rain.Score
