import Rain.LogFlags
import Rain.Lemmas.LogFlags
import Rain.Lemmas.LogFlagsWriter
import Rain.Props.C12
/-
C15 (log part) — `LogReader::encountered_corruption` (`has_corrupted_data`, logs.rs 397, 542):
the flag that makes `VersionSet::recover` refuse a damaged manifest (version_set.rs 405-411).

`readAllF` (in `Rain/LogFlags.lean`) reads a whole file and returns (records, clean, corrupted).
Only the property theorems and their non-vacuity examples live here; helper lemmas are in
`Rain/Lemmas/LogFlags.lean` and `Rain/Lemmas/LogFlagsWriter.lean`.  All quantifiers are unbounded:
every configuration with `c.WF` (block sizes `H < B ≤ 65535 + H`, 32-bit checksums; the instance
of the code is `real_constants_ok` in `Props/C12.lean`), every file / list of sessions / record /
cut.

  (a) `C15_log_same_records_and_clean`   same records and clean flag as `readAllS` (ALL byte strings)
      `C15_log_corrupt_implies_dirty`    a flagged file never reads cleanly (so it is never re-used)
  (b) `C15_log_no_false_positive`        written files (any split into sessions) are not flagged
  (c) `C15_log_cut_never_raises_flag`    cutting ANY file never raises the flag
      `C15_log_torn_write_not_corruption` every cut of a written file is not flagged
  (d) `C15_log_dead_writer_then_append`  writer death between two writes, then an append session:
      flagged iff a whole fragment of the dead record got out AND a record was appended
  (e) `C15_log_detect_last_to_first…`, `C15_log_detect_full_to_last_or_middle…`  type-byte rewrites
      that ARE caught; `C15_log_undetected_…` the ones that are NOT (kernel-checked).
-/
namespace Rain.Log
open Rain

/-! ### (a) agreement with the existing status reader -/

/-- **`readAllF` returns the records and the clean flag of `readAllS`, on every byte string** — so
every C12 theorem about `readAllS` / `readAll` holds for the first two components of `readAllF`. -/
theorem C15_log_same_records_and_clean (c : Cfg) (f : Bytes) :
    (readAllF c f).1 = (readAllS c f).1 ∧ (readAllF c f).2.1 = (readAllS c f).2 :=
  readAllF_toS c f

/-- … in particular the records are those of the plain reader -/
theorem C15_log_same_records (c : Cfg) (f : Bytes) : (readAllF c f).1 = readAll c f := by
  rw [(readAllF_toS c f).1, readAllS_records]

/-- **Every byte string: corrupted implies not clean.** (`has_corrupted_data` is only ever set
together with `has_skipped_data`.)  A manifest that is flagged is therefore never re-opened for
appending either. -/
theorem C15_log_corrupt_implies_dirty (c : Cfg) (hB : 0 < c.B) (f : Bytes)
    (h : (readAllF c f).2.2 = true) : (readAllF c f).2.1 = false := by
  cases hc : (readAllF c f).2.1 with
  | false => rfl
  | true => rw [readAllF_clean_intact c hB f hc] at h; exact absurd h (by decide)

/-! ### (b) no false positives -/

/-- **A file produced by the writer, in any number of append sessions, is not flagged.** -/
theorem C15_log_no_false_positive (c : Cfg) (h : c.WF) (sessions : List (List Bytes)) :
    (readAllF c (writeSessions c [] sessions)).2.2 = false :=
  sessions_intact c h.hB h.hB2 h.hcrc sessions

/-! ### (c) a torn write is not corruption -/

/-- **Every byte string, every cut: if the cut file is flagged, so is the whole file.**  Cutting a
file (a torn write, a lost tail) can never create evidence of corruption. -/
theorem C15_log_cut_never_raises_flag (c : Cfg) (hB : 0 < c.B) (f : Bytes) (n : Nat)
    (h : (readAllF c (f.take n)).2.2 = true) : (readAllF c f).2.2 = true :=
  readAllF_take c hB f n h

/-- **Every cut of a written file is not flagged**: a torn write is never taken for corruption. -/
theorem C15_log_torn_write_not_corruption (c : Cfg) (h : c.WF) (sessions : List (List Bytes)) (n : Nat) :
    (readAllF c ((writeSessions c [] sessions).take n)).2.2 = false :=
  torn_intact c h.hB h.hB2 h.hcrc sessions n

/-! ### (d) a writer that died between two writes, then an append session -/

/--
**The scenario of `C12_partial_then_append` / `Legacy/LogD8.lean`.**  `recs` were appended
completely; the writer died after `j` of the writes of `last` (`j` smaller than their number;
zero padding and fragments are separate writes); a new writer re-opened the file and appended `rs`.
The records read back are `recs ++ rs` (`C12_partial_then_append`), and the file IS flagged as
corrupted exactly when at least one whole fragment of `last` got out (`j` exceeds the number of
padding writes, 0 or 1) and at least one record was appended: the first fragment of `rs` is a
`Full`/`First` arriving while `last` is pending (logs.rs 482-485, 490-493).  Otherwise it is not.

(RainDB itself never produces this file for a manifest: `recover` only re-opens a manifest that
`was_read_cleanly_to_end`, and an unfinished record makes it dirty —
`C12_torn_log_is_not_reused`.)
-/
theorem C15_log_dead_writer_then_append (c : Cfg) (h : c.WF) (recs : List Bytes) (last : Bytes)
    (j : Nat) (rs : List Bytes)
    (hj : j < (appendWrites c (openOffset c (writeSession c [] recs).length) last).1.length) :
    (readAllF c (writeSession c (writeSessionCut c (writeSession c [] recs) [last] j) rs)).2.2
      = decide ((padL c (openOffset c (writeSession c [] recs).length)).length < j ∧ rs ≠ []) := by
  cases rs with
  | nil =>
    have h0 : writeSession c (writeSessionCut c (writeSession c [] recs) [last] j) []
        = writeSessionCut c (writeSession c [] recs) [last] j := by
      simp [writeSession, appendAllWrites_nil]
    rw [h0, writeSessionCut_prefix c h.hB]
    have := torn_intact c h.hB h.hB2 h.hcrc [recs ++ [last]]
    simp only [writeSessions, List.foldl_cons, List.foldl_nil] at this
    rw [this]
    simp
  | cons r rs =>
    by_cases hp : (padL c (openOffset c (writeSession c [] recs).length)).length < j
    · rw [partial_then_append_flag c h.hB h.hB2 h.hcrc recs last j r rs hj hp]
      simp [hp]
    · rw [cut_pad_session c h.hB recs last j r rs (by omega), written_intact c h.hB h.hB2 h.hcrc]
      simp [hp]

/-! ### (e) a rewritten type byte: what is detected -/

/--
**`Last` → `First`, last fragment of the file.**  The last record `r` of a written file is
fragmented (it does not fit into what is left of the block: `spaceA`); byte 6 — the type byte — of
the last fragment (the last write of the file) is overwritten with `First`.  The file is flagged.
-/
theorem C15_log_detect_last_to_first (c : Cfg) (h : c.WF) (recs : List Bytes) (r : Bytes)
    (hfrag : spaceA c (openOffset c (writeSession c [] recs).length) < r.length) :
    (readAllF c ((writeSession c [] (recs ++ [r])).set
      ((writeSession c [] (recs ++ [r])).length
        - ((appendWrites c (openOffset c (writeSession c [] recs).length) r).1.getLast?.getD []).length + 6)
      TFirst.toUInt8)).2.2 = true := by
  rw [set_last_type c h.hB]
  have := retype_first_detected c h.hB h.hB2 h.hcrc recs r hfrag []
  rwa [List.append_nil] at this

/-- the same for a fragmented record ANYWHERE in a file: whatever bytes follow it -/
theorem C15_log_detect_last_to_first_anywhere (c : Cfg) (h : c.WF) (recs : List Bytes) (r : Bytes)
    (hfrag : spaceA c (openOffset c (writeSession c [] recs).length) < r.length) (tail : Bytes) :
    (readAllF c (writeSession c [] recs ++
      (retypeLast (appendWrites c (openOffset c (writeSession c [] recs).length) r).1 TFirst ++ tail))).2.2
      = true :=
  retype_first_detected c h.hB h.hB2 h.hcrc recs r hfrag tail

/--
**`Full` → `Last` or `Middle` (no `First` before it).**  The last record `r` of a written file
fits into its block, so it is one `Full` fragment; its type byte is overwritten with `Last` or
`Middle`.  The file is flagged.
-/
theorem C15_log_detect_full_to_last_or_middle (c : Cfg) (h : c.WF) (recs : List Bytes) (r : Bytes)
    (hfit : r.length ≤ spaceA c (openOffset c (writeSession c [] recs).length))
    (ty : Nat) (hty : ty = TLast ∨ ty = TMiddle) :
    (readAllF c ((writeSession c [] (recs ++ [r])).set
      ((writeSession c [] (recs ++ [r])).length
        - ((appendWrites c (openOffset c (writeSession c [] recs).length) r).1.getLast?.getD []).length + 6)
      ty.toUInt8)).2.2 = true := by
  rw [set_last_type c h.hB]
  have := retype_full_detected c h.hB h.hB2 h.hcrc recs r hfit ty hty []
  rwa [List.append_nil] at this

/-- the same for a `Full` fragment ANYWHERE in a file: whatever bytes follow it (the flag is sticky) -/
theorem C15_log_detect_full_to_last_or_middle_anywhere (c : Cfg) (h : c.WF) (recs : List Bytes)
    (r : Bytes) (hfit : r.length ≤ spaceA c (openOffset c (writeSession c [] recs).length))
    (ty : Nat) (hty : ty = TLast ∨ ty = TMiddle) (tail : Bytes) :
    (readAllF c (writeSession c [] recs ++
      (retypeLast (appendWrites c (openOffset c (writeSession c [] recs).length) r).1 ty ++ tail))).2.2
      = true :=
  retype_full_detected c h.hB h.hB2 h.hcrc recs r hfit ty hty tail

/-- `retypeLast` (used in the two `…_anywhere` statements) is a ONE-byte change of the writes:
byte 6 of the last write -/
theorem C15_log_retypeLast_is_one_byte (ws : List Bytes) (ty : Nat) :
    retypeLast ws ty
      = ws.flatten.set (ws.flatten.length - (ws.getLast?.getD []).length + 6) ty.toUInt8 :=
  retypeLast_eq_set ws ty

/-! ### (e) NEGATIVE results: type-byte rewrites that the flag does not catch (kernel-checked) -/

/-- **NOT detected: `Full` → `First` in the last fragment of the file.**  Two records, the second
a `Full` fragment at offset 7 (type byte at 13): after the rewrite it reads as a record that was
never finished — a torn write.  The record `[1]` is lost, the file is dirty, the flag is NOT set. -/
theorem C15_log_undetected_full_to_first_at_end :
    readAllF tinyCfg (writeSession tinyCfg [] [[], [1]]) = ([[], [1]], true, false) ∧
    readAllF tinyCfg ((writeSession tinyCfg [] [[], [1]]).set 13 TFirst.toUInt8) = ([[]], false, false) := by
  decide

/-- **NOT detected: `Last` → `Middle` in the last fragment of the file.**  One 20-byte record in
three fragments (`B = 16`: 16 + 16 + 9 bytes, type byte of the last one at 38): after the rewrite
the record is never finished.  It is lost, the file is dirty, the flag is NOT set. -/
theorem C15_log_undetected_last_to_middle_at_end :
    readAllF tinyCfg (writeSession tinyCfg [] [List.replicate 20 7]) = ([List.replicate 20 7], true, false) ∧
    readAllF tinyCfg ((writeSession tinyCfg [] [List.replicate 20 7]).set 38 TMiddle.toUInt8)
      = ([], false, false) := by
  decide

/-- both rewrites ARE caught as soon as another record follows (its `Full`/`First` arrives while
the damaged record is pending): they escape only in the last record of the file -/
theorem C15_log_detected_when_followed :
    (readAllF tinyCfg ((writeSession tinyCfg [] [List.replicate 20 7, [9]]).set 38 TMiddle.toUInt8)).2.2 = true ∧
    (readAllF tinyCfg ((writeSession tinyCfg [] [[1, 2, 3], [4]]).set 6 TFirst.toUInt8)).2.2 = true := by
  decide

/-- **NOT detected either** (finding D11, `C15_length_unprotected` at the level of the flag): the
length field is covered by no checksum; raising it in the FIRST fragment of a file makes the
reader run into the end of the file, which is what a torn write looks like.  Every record is lost
and the flag is NOT set. -/
theorem C15_log_undetected_length_byte :
    readAllF tinyCfg (writeSession tinyCfg [] [[1, 2, 3], [4]]) = ([[1, 2, 3], [4]], true, false) ∧
    readAllF tinyCfg ((writeSession tinyCfg [] [[1, 2, 3], [4]]).set 4 200) = ([], false, false) := by
  decide

/-! ### non-vacuity -/

/-- (a): the three components on a file with a damaged payload byte in the first of two records:
the record is dropped, the second one is delivered, dirty, corrupted; `readAllS` agrees -/
example : readAllF tinyCfg ((writeSession tinyCfg [] [[1, 2, 3], [4]]).set 8 9) = ([[4]], false, true) ∧
    readAllS tinyCfg ((writeSession tinyCfg [] [[1, 2, 3], [4]]).set 8 9) = ([[4]], false) := by
  decide

/-- `C15_log_corrupt_implies_dirty`: hypothesis satisfiable (previous file) -/
example : (readAllF tinyCfg ((writeSession tinyCfg [] [[1, 2, 3], [4]]).set 8 9)).2.2 = true := by decide

/-- (b): a record longer than a block, split over two sessions; `tinyCfg` satisfies `WF` -/
example : (readAllF tinyCfg (writeSessions tinyCfg [] [[[1, 2, 3]], [List.replicate 20 7, []]])).2.2 = false :=
  C15_log_no_false_positive tinyCfg tinyCfg_wf _

example : readAllF tinyCfg (writeSessions tinyCfg [] [[[1, 2, 3]], [List.replicate 20 7, []]])
    = ([[1, 2, 3], List.replicate 20 7, []], true, false) := by decide

/-- (c): cuts inside the padding (14), inside a header (20), between two fragments (32), inside
a payload (45): dirty or clean, never corrupted -/
example :
    readAllF tinyCfg ((writeSession tinyCfg [] [[1, 2, 3, 4, 5], List.replicate 20 7]).take 14)
      = ([[1, 2, 3, 4, 5]], false, false) ∧
    readAllF tinyCfg ((writeSession tinyCfg [] [[1, 2, 3, 4, 5], List.replicate 20 7]).take 20)
      = ([[1, 2, 3, 4, 5]], false, false) ∧
    readAllF tinyCfg ((writeSession tinyCfg [] [[1, 2, 3, 4, 5], List.replicate 20 7]).take 32)
      = ([[1, 2, 3, 4, 5]], false, false) ∧
    readAllF tinyCfg ((writeSession tinyCfg [] [[1, 2, 3, 4, 5], List.replicate 20 7]).take 45)
      = ([[1, 2, 3, 4, 5]], false, false) := by
  decide

/-- `C15_log_cut_never_raises_flag`: hypothesis satisfiable — a damaged first record, file cut
after it -/
example : (readAllF tinyCfg (((writeSession tinyCfg [] [[1, 2, 3], [4]]).set 8 9).take 12)).2.2 = true := by
  decide

/-- (d): after `[1,2,3,4,5]` (12 bytes, `B = 16`) a 20-byte record needs 4 writes: padding, `First`,
`Middle`, `Last`.  Death after 0 or 1 writes (nothing / the padding): not flagged; after 2 or 3
(one or two fragments): flagged.  All four satisfy `hj`. -/
example :
    (padL tinyCfg (openOffset tinyCfg (writeSession tinyCfg [] [[1, 2, 3, 4, 5]]).length)).length = 1 ∧
    (appendWrites tinyCfg (openOffset tinyCfg (writeSession tinyCfg [] [[1, 2, 3, 4, 5]]).length)
      (List.replicate 20 7)).1.length = 4 ∧
    (List.range 4).map (fun j => readAllF tinyCfg (writeSession tinyCfg
      (writeSessionCut tinyCfg (writeSession tinyCfg [] [[1, 2, 3, 4, 5]]) [List.replicate 20 7] j) [[9]]))
    = [([[1, 2, 3, 4, 5], [9]], true, false), ([[1, 2, 3, 4, 5], [9]], true, false),
       ([[1, 2, 3, 4, 5], [9]], false, true), ([[1, 2, 3, 4, 5], [9]], false, true)] := by
  decide

/-- (d): the witness of `Legacy/LogD8.lean` (death after the first fragment of a 20-byte record,
then `[9]` appended): the repaired reader returns `[[9]]` and flags the file; with nothing
appended the same leftovers are a torn write and are not flagged -/
example :
    readAllF tinyCfg (writeSession tinyCfg (writeSessionCut tinyCfg [] [List.replicate 20 7] 1) [[9]])
      = ([[9]], false, true) ∧
    readAllF tinyCfg (writeSession tinyCfg (writeSessionCut tinyCfg [] [List.replicate 20 7] 1) [])
      = ([], false, false) := by
  decide

/-- (e): `hfrag` / `hfit` are satisfiable and the byte positions of the statements are the type
bytes (38 and 13 in the files of the negative results); the detected rewrites on the same files -/
example :
    spaceA tinyCfg (openOffset tinyCfg (writeSession tinyCfg [] []).length) < (List.replicate 20 7).length ∧
    (writeSession tinyCfg [] ([] ++ [List.replicate 20 7])).length
      - ((appendWrites tinyCfg (openOffset tinyCfg (writeSession tinyCfg [] []).length)
          (List.replicate 20 7)).1.getLast?.getD []).length + 6 = 38 ∧
    readAllF tinyCfg ((writeSession tinyCfg [] [List.replicate 20 7]).set 38 TFirst.toUInt8)
      = ([], false, true) := by
  decide

example :
    ([1] : Bytes).length ≤ spaceA tinyCfg (openOffset tinyCfg (writeSession tinyCfg [] [[]]).length) ∧
    (writeSession tinyCfg [] ([[]] ++ [[1]])).length
      - ((appendWrites tinyCfg (openOffset tinyCfg (writeSession tinyCfg [] [[]]).length) [1]).1.getLast?.getD []).length
      + 6 = 13 ∧
    readAllF tinyCfg ((writeSession tinyCfg [] [[], [1]]).set 13 TLast.toUInt8) = ([[]], false, true) ∧
    readAllF tinyCfg ((writeSession tinyCfg [] [[], [1]]).set 13 TMiddle.toUInt8) = ([[]], false, true) := by
  decide

/-- (e) `…_anywhere`: a `Full` fragment in the middle of a file, a record after it (`tail` = the
writes of that record) -/
example :
    (writeSession tinyCfg [] [[]] ++ (retypeLast (appendWrites tinyCfg
        (openOffset tinyCfg (writeSession tinyCfg [] [[]]).length) [1]).1 TLast ++
        (appendWrites tinyCfg 15 [5]).1.flatten))
      = (writeSession tinyCfg [] [[], [1], [5]]).set 13 3 ∧
    readAllF tinyCfg ((writeSession tinyCfg [] [[], [1], [5]]).set 13 3) = ([[], [5]], false, true) := by
  decide

end Rain.Log
