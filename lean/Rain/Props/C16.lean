import Rain.Props.C12
import Rain.Props.Durable
/-
C16 — "A torn final write costs at most the unacknowledged tail".
The byte-level facts are theorems about the log model (`Rain/Log.lean`), re-stated here in the
property's terms; the image-level fact comes from the durability model.  Quantifiers: every block
size and checksum, every record list, EVERY cut length of the file (hence every torn length of
every write to a WAL or manifest), every list of records appended after recovery.
-/
namespace Rain.Log

/-- **The database still reads everything written before the torn tail, and nothing else**:
whatever byte length the file is cut at, the reader returns exactly the records that are
complete. -/
theorem C16_torn_tail_loses_only_the_incomplete_record (c : Cfg) (h : c.WF) (recs : List Bytes) (n : Nat) :
    ∃ k, k ≤ recs.length ∧ readAll c ((writeSession c [] recs).take n) = recs.take k :=
  C12_truncation_total c h recs n

/-- **A log with a torn record is not appended to** (`was_read_cleanly_to_end` is false, so
recovery starts a fresh WAL / manifest instead of re-using the file — both `reuse_log_files`
settings then behave alike) … -/
theorem C16_torn_log_is_not_reused (c : Cfg) (h : c.WF) (recs : List Bytes) (n k : Nat)
    (hk : k < recs.length) (hlo : lenAfter c recs k < n)
    (hne : n ≠ lenAfter c recs k + padAfter c (lenAfter c recs k))
    (hhi : n < lenAfter c recs (k+1)) :
    (readAllS c ((writeSession c [] recs).take n)).2 = false :=
  C12_torn_log_is_not_reused c h recs n k hk hlo hne hhi

/-- … **and whenever a log IS re-used, what is appended after recovery is read back**: for ANY
file contents that read cleanly (not only files this writer produced), the records acknowledged
after the recovery follow the old ones. So writes acknowledged after a recovery are present after
the next reopen, with either log-reuse setting. -/
theorem C16_reused_log_keeps_later_writes (c : Cfg) (h : c.WF) (file : Bytes)
    (hclean : (readAllS c file).2 = true) (rs : List Bytes) :
    readAll c (writeSession c file rs) = readAll c file ++ rs :=
  C12_clean_append c h file hclean rs

end Rain.Log

namespace Rain.Durable
/-- at the level of the persistent image a torn write is simply absent: the image stays safe for
the same acknowledged batches (so everything `C02_every_prefix_recovers` says applies to the image
with the torn tail) -/
theorem C16_torn_write_is_absent (d : Disk) (bs : List WBatch) (h : Safe d bs) :
    ok d .noop = true ∧ Safe (apply d .noop) bs :=
  C16_incomplete_operation_changes_nothing d bs h
end Rain.Durable
