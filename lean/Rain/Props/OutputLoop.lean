import Rain.Lemmas.OutputLoop
import Rain.OutputLoop
import Rain.Pick
/-
Property theorems about the output loop of a table compaction (`Rain/OutputLoop.lean`), for EVERY
grandparent rule `stop`, every size rule `full`, every smallest snapshot, every base-level test and
every merged input:

* C09: none of the loop's assertions and unwraps can fire (`finish_compaction_output_file` is only
  reached with an open builder, `open_compaction_output_file` only without one, the builder is there
  whenever an entry is added) — the compaction thread does not die in this loop;
* C07 / C10: the outputs are a cut, into non-empty runs, of the merged input after the drop rule —
  exactly the two output clauses of `validCompaction` that do not concern file numbers.
-/
namespace Rain.Props.OutputLoop
open Rain Rain.Lsm Rain.OutputLoop Rain.OutputLoop.Lemmas

variable {σ : Type}

/-- **C09: the output loop of a table compaction never hits one of its assertions or unwraps**, for
every grandparent rule, every size rule and every input -/
theorem C09_output_loop_never_panics (stop : σ → Entry → Bool × σ) (g : σ) (full : List Entry → Bool)
    (q : Nat) (isBase : Bytes → Bool) (es : List Entry) :
    (cutRun stop g full q isBase es).isSome = true := by
  obtain ⟨s1, h1, g1, _⟩ := loop_spec stop full q isBase es (CState.init g) (good_init g)
  obtain ⟨s2, h2, _, _⟩ := finishAll_spec s1 g1
  simp [cutRun, h1, h2]

/-- **C07 / C10: the outputs are a cut of the filtered merged input into non-empty runs** — the
output clauses of `validCompaction` (`validOutputs`) that do not concern file numbers hold for what
the loop writes, wherever the two cut rules place the boundaries -/
theorem C07_outputs_are_a_cut_of_the_kept_entries (stop : σ → Entry → Bool × σ) (g : σ)
    (full : List Entry → Bool) (q : Nat) (isBase : Bytes → Bool) (es : List Entry)
    (outs : List (List Entry)) (h : cutRun stop g full q isBase es = some outs) :
    outs.flatten = dropLoop q isBase none es ∧ ∀ o ∈ outs, o ≠ [] := by
  obtain ⟨s1, h1, g1, a1⟩ := loop_spec stop full q isBase es (CState.init g) (good_init g)
  obtain ⟨s2, h2, a2, n2⟩ := finishAll_spec s1 g1
  simp only [cutRun, h1, h2, Option.bind_some, Option.map_some, Option.some.injEq] at h
  subst h
  refine ⟨?_, n2⟩
  rw [a2, a1]
  simp [acc, CState.init]

/-- with file numbers that are distinct and new, what the loop writes satisfies ALL output clauses
of `validCompaction`: together with `C07_selected_compaction_is_valid` (inputs) the compaction the
code performs is a valid compaction of the LSM model, whatever the two cut rules do -/
theorem C07_loop_outputs_are_valid (s : State) (c : Compaction) (stop : σ → Entry → Bool × σ) (g : σ)
    (full : List Entry → Bool) (hq : c.smallestSnapshot ≤ s.lastSeq)
    (hrun : cutRun stop g full c.smallestSnapshot (isBaseLevel s.levels c.level)
      (mergeAll ((pick (s.levels.getD c.level []) c.inputs0 ++
        pick (s.levels.getD (c.level + 1) []) c.inputs1).map File.entries)) =
        some (c.outputs.map Prod.snd))
    (hnums : distinctNums (c.outputs.map Prod.fst) = true)
    (hfresh : c.outputs.all (fun o => !(s.levels.flatten.map File.num).contains o.1) = true) :
    validOutputs s c = true := by
  obtain ⟨hflat, hne⟩ := C07_outputs_are_a_cut_of_the_kept_entries stop g full _ _ _ _ hrun
  have h1 : c.outputs.all (fun o => !o.2.isEmpty) = true := by
    rw [List.all_eq_true]
    intro o ho
    have := hne o.2 (List.mem_map.mpr ⟨o, ho, rfl⟩)
    cases h : o.2 with
    | nil => exact absurd h this
    | cons a l => rfl
  unfold validOutputs
  simp only [Bool.and_eq_true, decide_eq_true_eq]
  exact ⟨⟨⟨⟨hq, h1⟩, hflat⟩, hnums⟩, hfresh⟩

/-! ### non-vacuity -/

section Example

def e (c : Char) (seq : Nat) (put : Bool) : Entry :=
  { ukey := [c.toNat.toUInt8], seq := seq, put := put, val := [] }

/-- stop before every third question; an output is full with two entries -/
def stop3 : Nat → Entry → Bool × Nat := fun n _ => (n % 3 == 2, n + 1)
def full2 : List Entry → Bool := fun es => decide (2 ≤ es.length)

/-- seven entries, smallest snapshot 5, nothing at the base level: `a@3` is shadowed by `a@4 ≤ 5`;
the size rule closes after two entries, the grandparent rule — asked only while an output is
open — closes `[d@7]` early -/
example : cutRun stop3 0 full2 5 (fun _ => false)
      [e 'a' 9 true, e 'a' 4 true, e 'a' 3 true, e 'b' 8 false, e 'c' 2 true, e 'd' 7 true,
       e 'e' 1 true] =
    some [[e 'a' 9 true, e 'a' 4 true], [e 'b' 8 false, e 'c' 2 true], [e 'd' 7 true],
          [e 'e' 1 true]] := by decide +kernel

/-- a tombstone at the base level below the smallest snapshot is dropped; nothing is left, no
output is opened -/
example : cutRun stop3 0 full2 5 (fun _ => true) [e 'a' 4 false] = some [] := by decide +kernel

end Example

end Rain.Props.OutputLoop
