import Rain.Lemmas.FlushLevel
import Rain.Props.Lsm
/-
Property theorems about the level a flushed memtable is placed at (`Rain/FlushLevel.lean`):
the level `Version::pick_level_for_memtable_output` computes satisfies the admissibility condition
of the LSM model's flush transition — under which alone C07 (flushes are invisible), C10 (the
shape stays well formed) and C01 are proved — for EVERY version satisfying the invariant, every
new table, every file-size setting and every assignment of file sizes.
-/
namespace Rain.Props.FlushLevel
open Rain Rain.Lsm Rain.FlushLevel Rain.FlushLevel.Lemmas Rain.Lsm.Lemmas

/-- the code's overlap test never misses an overlapping file (level 0: linear scan; deeper levels:
binary search + one comparison) -/
theorem C07_overlap_test_is_sound (s : State) (h : Inv s) (hlast : s.lastSeq ≤ maxSeqNo) (l : Nat)
    (lo hi : Bytes) (hno : hasOverlapInLevel s.levels l lo hi = false) :
    ∀ g ∈ lv s.levels l, userRangeOverlaps g lo hi = false := by
  have hp := (inv_iff s).mp h
  apply no_overlap_of_false (disjoint := decide (0 < l)) (fun f hf => hp.files l f hf)
  · intro hd
    have : 0 < l := by simpa using hd
    exact hp.lvls l this
  · intro f hf
    have hfo := hp.files l f hf
    obtain ⟨ys, e, hys, hk⟩ := hfo.large_mem
    have hm : e ∈ f.entries := by rw [hys]; simp
    have := hp.seqF l f hf e hm
    rw [← hk]; show e.seq ≤ maxSeqNo; omega
  · exact hno

/-- **the level chosen for a flushed memtable is admissible**: the flush transition of the LSM
model is enabled with it (the table's number being newer than every file's, as the code's
allocation guarantees) -/
theorem C07_flush_level_admissible (s : State) (h : Inv s) (hlast : s.lastSeq ≤ maxSeqNo)
    (e : Entry) (es : List Entry) (himm : s.imm = some (e :: es)) (num : Nat)
    (hnum : ∀ g ∈ s.levels.flatten, g.num < num) (size : Nat → Nat) (maxFileSize : Nat) :
    (stepFlush s num (pickLevel size maxFileSize s.levels (mkFile num (e :: es)).smallest.1
      (mkFile num (e :: es)).largest.1)).isSome = true := by
  have hspec := pickLevel_spec size maxFileSize s.levels (mkFile num (e :: es)).smallest.1
    (mkFile num (e :: es)).largest.1
  generalize pickLevel size maxFileSize s.levels (mkFile num (e :: es)).smallest.1
    (mkFile num (e :: es)).largest.1 = lvl at hspec
  have hok : (lvl == 0 || (decide (lvl < 7) && ((s.levels.take (lvl + 1)).flatten.all fun g =>
      !userRangeOverlaps g (mkFile num (e :: es)).smallest.1 (mkFile num (e :: es)).largest.1))) = true := by
    rcases hspec with h0 | ⟨hle, hclear⟩
    · simp [h0]
    · have h7 : lvl < 7 := by
        have : Rain.Gen.MAX_MEM_COMPACT_LEVEL < 7 := by decide
        omega
      simp only [Bool.or_eq_true, beq_iff_eq, Bool.and_eq_true, decide_eq_true_eq, List.all_eq_true,
        Bool.not_eq_true']
      right
      refine ⟨h7, fun g hg => ?_⟩
      obtain ⟨j, hj, hgj⟩ := mem_take_flatten.mp hg
      exact C07_overlap_test_is_sound s h hlast j _ _ (hclear j (by omega)) g hgj
  have hnumb : (s.levels.flatten.all fun g => decide (g.num < num)) = true := by
    rw [List.all_eq_true]; intro g hg; simpa using hnum g hg
  obtain ⟨m, i, L, n⟩ := s
  simp only at himm
  subst himm
  simp only [stepFlush]
  rw [if_pos (by rw [Bool.and_eq_true]; exact ⟨hok, hnumb⟩)]
  rfl

/-- the chosen level is never deeper than `MAX_MEM_COMPACT_LEVEL` -/
theorem C10_flush_level_bounded (size : Nat → Nat) (maxFileSize : Nat) (levels : List (List File))
    (lo hi : Bytes) : pickLevel size maxFileSize levels lo hi ≤ Rain.Gen.MAX_MEM_COMPACT_LEVEL := by
  rcases pickLevel_spec size maxFileSize levels lo hi with h | ⟨h, _⟩
  · rw [h]; exact Nat.zero_le _
  · exact h

/-! ### non-vacuity -/

private def exF (n : Nat) (a b : UInt8) : File :=
  { num := n, smallest := ([a], 5), largest := ([b], 5),
    entries := [⟨[a], 5, true, []⟩, ⟨[b], 5, true, []⟩] }
/-- level 1 holds [10..20] and [40..50], level 2 holds [60..70] -/
private def exLevels : List (List File) := [[], [exF 1 10 20, exF 2 40 50], [exF 3 60 70], [], [], [], []]

example : invB { mem := [], imm := none, levels := exLevels, lastSeq := 9 } = true := by decide +kernel
-- into the gap of level 1 and clear of level 2: goes down to level 2
example : pickLevel (fun _ => 1) 100 exLevels [25] [30] = 2 := by decide +kernel
-- overlaps level 1: stays at level 0
example : pickLevel (fun _ => 1) 100 exLevels [15] [30] = 0 := by decide +kernel
-- clear of level 1 but overlapping level 2: level 1
example : pickLevel (fun _ => 1) 100 exLevels [55] [65] = 1 := by decide +kernel
-- too many grandparent bytes (a huge level 2 file against a file size limit of 1): level 0
example : pickLevel (fun _ => 1000000000000) 1 [[], [], [exF 3 60 70], [], [], [], []] [55] [65] = 0 := by
  decide +kernel

end Rain.Props.FlushLevel
