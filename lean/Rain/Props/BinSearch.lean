import Rain.Lemmas.BinSearch
/-
Property theorems about the two binary searches of the code (`Rain/BinSearch.lean`).  They close a
gap the other models leave open: `Rain/Lsm.lean` (`levelCandidate`, hence `versionGet`, the C01 /
C03 / C07 read path and the seek charging of `Rain/Seek.lean`) and `Rain/Table.lean`
(`lowerBound`, hence `tableGet` and the cursors of C13 / C04) use LINEAR specifications where the
code binary-searches.  With these theorems the loops of the code are part of the model.
-/
namespace Rain.Props.BinSearch
open Rain Rain.Lsm Rain.Table Rain.BinSearch Rain.BinSearch.Lemmas Rain.Lsm.Lemmas

/-- **`BlockIter::seek` = first position whose key is not below the target**, for every strictly
sorted block and every target (C13: "positions a seek at the first entry not less than the
target") -/
theorem C13_block_seek_is_lower_bound (keys : List (Bytes × Nat))
    (hs : keys.Pairwise (fun a b => kLt a b = true)) (t : Bytes × Nat) :
    blockSeek keys t = lowerBound keys t :=
  search_eq_lowerBound hs t

/-- on ANY block (sorted or not) the cursor index stays within `0 ..= len` (no out-of-range index) -/
theorem C09_block_seek_in_range (keys : List (Bytes × Nat)) (t : Bytes × Nat) :
    blockSeek keys t ≤ keys.length :=
  search_le _ _

/-- **`find_file_with_upper_bound_range` + the smallest-key test = the file the read-path model
consults**, for every level satisfying the invariant (files well formed, consecutive ranges
disjoint and ordered) -/
theorem C01_level_search_is_linear_spec (fs : List File) (hf : ∀ f ∈ fs, fileOk f = true)
    (hl : levelSorted fs = true) (k : Bytes) (snap : Nat) :
    levelCandidateBin fs k snap = levelCandidate fs k snap := by
  have hf' : ∀ f ∈ fs, FileOk f := fun f h => (fileOk_iff f).mp (hf f h)
  have hl' : LevelOk fs := (levelSorted_iff fs hf').mp hl
  have hp := largest_pairwise hf' hl'
  have hs : search (lessAt (fs.map File.largest) (k, snap)) fs.length
      = lowerBound (fs.map File.largest) (k, snap) := by
    have := search_eq_lowerBound hp (k, snap)
    simpa using this
  unfold levelCandidateBin levelCandidate findFile
  simp only [fileBelow_eq, hs, find_eq_lb]
  by_cases he : lowerBound (fs.map File.largest) (k, snap) = fs.length
  · simp [he]
  · simp only [he, if_false]
    cases fs[lowerBound (fs.map File.largest) (k, snap)]? <;> rfl

/-- the index `find_file_with_upper_bound_range` returns is a valid index, whatever the files
look like (`&level_files[file_index]` cannot panic) -/
theorem C09_find_file_index_valid (fs : List File) (t : Bytes × Nat) (i : Nat)
    (h : findFile fs t = some i) : i < fs.length := by
  unfold findFile at h
  simp only [] at h
  split at h
  · exact absurd h (by simp)
  · have := search_le (fileBelow fs t) fs.length
    simp only [Option.some.injEq] at h
    omega

/-- **the loop is logarithmic**: over `n > 0` elements it runs `s` times with `2 ^ s ≤ 2 n`,
whatever the comparison answers -/
theorem C09_binary_search_iterations (less : Nat → Bool) (n : Nat) (h : 0 < n) :
    2 ^ steps less n 0 n ≤ 2 * n := by
  have := steps_log less n 0 n h
  simpa using this

/-! ### non-vacuity -/

private def exK : List (Bytes × Nat) := [([1], 9), ([1], 3), ([2], 5), ([4], 1)]

example : exK.Pairwise (fun a b => kLt a b = true) := by decide
example : blockSeek exK ([1], 5) = 1 ∧ blockSeek exK ([3], 0) = 3 ∧ blockSeek exK ([9], 0) = 4 ∧
    blockSeek exK ([0], 0) = 0 := by decide

private def exF (n : Nat) (a b : UInt8) : File :=
  { num := n, smallest := ([a], 5), largest := ([b], 5),
    entries := [⟨[a], 5, true, []⟩, ⟨[b], 5, true, []⟩] }
private def exLevel : List File := [exF 1 1 2, exF 2 4 5, exF 3 7 8]

example : (∀ f ∈ exLevel, fileOk f = true) ∧ levelSorted exLevel = true := by decide
example : levelCandidateBin exLevel [4] 9 = some (exF 2 4 5) ∧ levelCandidateBin exLevel [3] 9 = none ∧
    levelCandidateBin exLevel [9] 9 = none ∧ findFile exLevel ([3], 9) = some 1 := by decide
/-- on an UNSORTED level the loop and the linear search differ (the hypothesis is needed) -/
example : levelCandidateBin [exF 3 7 8, exF 2 4 5, exF 1 1 2] [8] 9 = none ∧
    levelCandidate [exF 3 7 8, exF 2 4 5, exF 1 1 2] [8] 9 = some (exF 3 7 8) := by decide

end Rain.Props.BinSearch
