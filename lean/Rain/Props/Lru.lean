import Rain.Lemmas.Lru
/-
Property theorems over the LRU cache model (`Rain/Lru.lean`): whatever sequence of insert / get /
remove operations is applied, the cache never answers with another key's value or with a value older
than the last one inserted for the key (C01/C03/C13: reads that go through the table cache and the
block cache see what an uncached read would see), it never exceeds its capacity, and a value just
inserted is there.
-/
namespace Rain.Lru

/-- every state reachable from the empty cache satisfies the invariant (distinct keys, size ≤ capacity) -/
theorem cache_inv (cap : Nat) (ops : List Op) : inv (run (empty cap) ops).1 = true :=
  (inv_iff _).mpr (run_Inv _ ops (empty_Inv cap))

/-- the cache contents are always a sub-map of the unbounded specification map -/
theorem cache_contents_sound (cap : Nat) (ops : List Op) (k v : Nat)
    (h : lookup (run (empty cap) ops).1.items k = some v) : specAfter ops k = some v :=
  run_Sub (empty cap) _ ops (empty_Sub cap) k v h

/-- whatever an operation hands back to the caller is the specification's value for that key after
the operation: a hit is never stale and never another key's value -/
theorem cache_answers_sound (cap : Nat) (hist : List Op) (op : Op) (v : Nat)
    (h : (step (run (empty cap) hist).1 op).2 = some v) :
    match op with
    | .insert k _ => specAfter (hist ++ [op]) k = some v
    | .get k => specAfter (hist ++ [op]) k = some v
    | .remove _ => False := by
  have hs : ∀ k, lookup (step (run (empty cap) hist).1 op).1.items k = some v →
      specAfter (hist ++ [op]) k = some v := by
    intro k hk
    apply cache_contents_sound cap (hist ++ [op]) k v
    rw [run_append_fst, run_cons_fst, run_nil_fst]
    exact hk
  cases op with
  | insert k v' =>
    apply hs k
    rw [← h]; exact (insert_snd _ k v').symm
  | get k =>
    apply hs k
    simp only [step, get_snd] at h
    simp only [step, get, h, lookup_cons, if_true]
  | remove k => simp [step] at h

/-- with the capacity the code insists on (at least 2) an insert hands back the inserted value and
an immediately following get hits -/
theorem cache_insert_then_get (cap : Nat) (hc : 2 ≤ cap) (hist : List Op) (k v : Nat) :
    let c := (run (empty cap) hist).1
    (insert c k v).2 = some v ∧ (get (insert c k v).1 k).2 = some v := by
  intro c
  obtain ⟨post, hp⟩ := insert_front c k v (by rw [run_cap]; exact Nat.le_trans (by decide) hc)
  have hl : lookup (insert c k v).1.items k = some v := by rw [hp, lookup_cons, if_pos rfl]
  exact ⟨by rw [insert_snd, hl], by rw [get_snd, hl]⟩

/-- the size never exceeds the capacity -/
theorem cache_len_le_cap (cap : Nat) (ops : List Op) : len (run (empty cap) ops).1 ≤ cap := by
  have h := (run_Inv _ ops (empty_Inv cap)).2
  rwa [run_cap] at h

/-- a key stays cached as long as fewer than `cap - 1` other distinct keys have been touched since it
was inserted and it was not removed or re-inserted -/
theorem cache_keeps_recently_used (cap : Nat) (hc : 2 ≤ cap) (hist : List Op) (k v : Nat) (later : List Op)
    (hno : ∀ op ∈ later, op ≠ .remove k ∧ ∀ v', op ≠ .insert k v')
    (hfew : ((later.filterMap fun op => match op with
                | .insert k' _ => some k' | .get k' => some k' | .remove _ => none).eraseDups.filter (· ≠ k)).length < cap - 1) :
    lookup (run (empty cap) (hist ++ [.insert k v] ++ later)).1.items k = some v := by
  have htouch : (fun op : Op => match op with
      | .insert k' _ => some k' | .get k' => some k' | .remove _ => none) = touch := by
    funext op; cases op <;> rfl
  rw [htouch] at hfew
  generalize hS : ((later.filterMap touch).eraseDups.filter (· ≠ k)) = S at hfew
  have hc0 : Inv (run (empty cap) hist).1 := run_Inv _ hist (empty_Inv cap)
  have hcap0 : (run (empty cap) hist).1.cap = cap := run_cap _ _
  rw [run_append_fst, run_append_fst, run_cons_fst, run_nil_fst]
  generalize (run (empty cap) hist).1 = c0 at hc0 hcap0 ⊢
  have hc1 : Inv (step c0 (.insert k v)).1 := step_Inv _ _ hc0
  have hcap1 : S.length + 2 ≤ (step c0 (.insert k v)).1.cap := by rw [step_cap, hcap0]; omega
  have hk1 : Keep k v S (step c0 (.insert k v)).1 := by
    obtain ⟨post, hp⟩ := insert_front c0 k v (by omega)
    exact ⟨[], post, hp, by simp⟩
  have hops : ∀ op ∈ later, Harmless k S op := by
    intro op hop
    refine ⟨(hno op hop).1, (hno op hop).2, ?_⟩
    intro k' hk'
    by_cases hkk : k' = k
    · exact Or.inl hkk
    · right
      rw [← hS, List.mem_filter, List.mem_eraseDups, List.mem_filterMap]
      exact ⟨⟨op, hop, hk'⟩, by simpa using hkk⟩
  exact Keep_lookup k v S _ (run_Inv _ later hc1) (run_Keep k v S _ later hc1 hcap1 hk1 hops)

/-- non-vacuity: a history with an eviction, a re-insert and a hit -/
example : (run (empty 2) [.insert 1 10, .insert 2 20, .get 1, .insert 3 30, .get 2, .get 1, .insert 1 11, .get 1]).2 =
    [some 10, some 20, some 10, some 30, none, some 10, some 11, some 11] := by decide

/-- **A hit hands out a value that was inserted under that very key**: whatever `get k` returns
after any history was put into the cache by an `insert k _` of that history. -/
theorem cache_hit_was_inserted_under_its_key (cap : Nat) (hist : List Op) (k v : Nat)
    (h : (step (run (empty cap) hist).1 (.get k)).2 = some v) : Op.insert k v ∈ hist := by
  have := cache_answers_sound cap hist (.get k) v h
  simp only at this
  rw [specAfter_snoc] at this
  simp only [specStep] at this
  rw [specAfter_eq] at this
  rcases fold_some_was_inserted hist _ k v this with h' | h'
  · exact h'
  · cases h'

end Rain.Lru
