import Rain.Pick
import Rain.Lemmas.PickSetup
/-
Property theorems over the model of compaction input selection (`Rain/Pick.lean`), part of C07:
what `finalize_compaction_inputs` selects always satisfies the input clauses of
`validCompaction` (`validInputs`), under which `Rain/Props/Lsm.lean` proves that a compaction
changes no read.  Helper lemmas live in `Rain/Lemmas/Pick*.lean`.

Quantifiers: every state satisfying the invariant, every level `L` with `L + 1 < 7`, every seed
the callers can hand over (see `SeedClosed0`, `SeedConvex`), every file-size function and every
`max_file_size` (so both outcomes of the expansion step are covered).
-/
namespace Rain.Lsm
open Rain.Lsm.Lemmas

/-! ### hypotheses on the seed -/

/-- level 0: the seed contains every level-0 file whose user-key range meets the user-key hull of
the seed.  `pick_compaction` and `compact_range` establish it by taking the seed from
`get_overlapping_compaction_inputs` at level 0 (`seed_level0_closed`). -/
def SeedClosed0 (l0 seed : List File) : Prop :=
  ∀ lo hi, hull seed = some (lo, hi) →
    ∀ g ∈ l0, userRangeOverlaps g lo hi = true → g ∈ seed

/-- level 0, the weakest form (it is the level-0 clause of `validCompaction` read on the seed
itself): a level-0 file outside the seed whose user-key range meets the user-key hull of the seed
is newer than every seed file -/
def SeedNewer0 (l0 seed : List File) : Prop :=
  ∀ lo hi, hull seed = some (lo, hi) →
    ∀ g ∈ l0, g ∉ seed → userRangeOverlaps g lo hi = true → ∀ f ∈ seed, f.num < g.num

theorem SeedClosed0.newer {l0 seed : List File} (h : SeedClosed0 l0 seed) : SeedNewer0 l0 seed :=
  fun lo hi hh g hg hgn hov => absurd (h lo hi hh g hg hov) hgn

/-- level ≥ 1: a file of the level that lies between two seed files is a seed file.  The callers
pass one file (`seed_single_convex`) or a prefix of the files overlapping a range
(`seed_prefix_convex`). -/
def SeedConvex (lvl seed : List File) : Prop :=
  ∀ f ∈ seed, ∀ h ∈ seed, ∀ g ∈ lvl,
    kLt f.largest g.smallest = true → kLt g.largest h.smallest = true → g ∈ seed

/-! ### main theorem -/

/-- general form: the seed is any duplicate-free, non-empty list of files of the level, in any
order -/
theorem C07_selected_inputs_are_valid_of_mem (s : State) (hinv : invB s = true) (level : Nat)
    (hlev : level + 1 < 7) (seed : List File) (hne : seed ≠ [])
    (hsub : ∀ f ∈ seed, f ∈ s.levels.getD level []) (hd : seed.Nodup)
    (h0 : level = 0 → SeedNewer0 (s.levels.getD 0 []) seed)
    (hn : level ≠ 0 → SeedConvex (s.levels.getD level []) seed)
    (size : Nat → Nat) (maxFileSize : Nat) :
    validInputs s level
      ((setupOtherInputs size s.levels level seed maxFileSize).1.map File.num)
      ((setupOtherInputs size s.levels level seed maxFileSize).2.map File.num) = true := by
  have inv := (invB_iff s).mp hinv
  have hwf0 : ∀ f ∈ lv s.levels level, Wf f := fun f hf => (inv.files level f hf).wf
  have hwf1 : ∀ f ∈ lv s.levels (level + 1), Wf f := fun f hf => (inv.files (level + 1) f hf).wf
  have hnd0 : (lv s.levels level).Nodup := nodup_of_map_num (inv.numsL level)
  have hnd1 : (lv s.levels (level + 1)).Nodup := nodup_of_map_num (inv.numsL (level + 1))
  have hl1 : LevelOk (lv s.levels (level + 1)) := inv.lvls (level + 1) (by omega)
  obtain ⟨⟨kr, hkr, h2⟩, hcase⟩ := setup_cases size s.levels level seed maxFileSize hne
  apply validInputs_of inv hlev
  · -- the level-`L` inputs
    rcases hcase with e | ⟨hne1, a, b, e⟩
    · rw [e]
      by_cases hz : level = 0
      · subst hz
        refine selOk_level0_newer (fun f hf => inv.files 0 f hf)
          (fun f hf g hg h => inv.order 0 0 f g hf hg (Or.inr ⟨rfl, rfl, h⟩)) hsub hd hne ?_
        intro lo hi hH
        exact h0 rfl lo hi (hull_of_isHull hH)
      · exact selOk_levelN hz hwf0 (inv.lvls level (by omega)) hsub hd hne (hn hz)
    · rw [e]
      have hXne : overlapping (lv s.levels level) (level == 0) (some a) (some b) ≠ [] := by
        intro h; rw [e, h, addBoundary_nil] at hne1; exact hne1 rfl
      have hXsub := (overlapping_sublist (lv s.levels level) (level == 0) (some a) (some b))
      by_cases hz : level = 0
      · subst hz
        exact selOk_level0 hwf0 (fun f hf => hXsub.subset hf) (hXsub.nodup hnd0) hXne
          (overlapping_hullClosed _ _ _)
      · have hb : (level == 0) = false := by simpa using hz
        rw [hb] at hXne hXsub ⊢
        refine selOk_levelN hz hwf0 (inv.lvls level (by omega)) (fun f hf => hXsub.subset hf)
          (hXsub.nodup hnd0) hXne ?_
        rw [overlapping_notL0]
        exact filter_inRange_conv hwf0 _ _
  · -- the level-`L+1` inputs
    intro lo hi hH
    obtain ⟨rfl, rfl⟩ := hH.unique (keyRange_isHull hkr)
    rw [h2]
    exact nextOk_of_addBoundary hwf1 hl1 hnd1 _ _

/-- **C07, input side: the inputs selected by `finalize_compaction_inputs` satisfy the input
clauses of `validCompaction`**, for every seed the callers can pass: at level 0 a seed that
leaves no older file meeting its hull behind (in particular a seed closed under user-key overlap,
`SeedClosed0.newer`), at a level ≥ 1 a seed without gaps. -/
theorem C07_selected_inputs_are_valid (s : State) (hinv : invB s = true) (level : Nat)
    (hlev : level + 1 < 7) (seed : List File) (hne : seed ≠ [])
    (hsub : seed.Sublist (s.levels.getD level []))
    (h0 : level = 0 → SeedNewer0 (s.levels.getD 0 []) seed)
    (hn : level ≠ 0 → SeedConvex (s.levels.getD level []) seed)
    (size : Nat → Nat) (maxFileSize : Nat) :
    validInputs s level
      ((setupOtherInputs size s.levels level seed maxFileSize).1.map File.num)
      ((setupOtherInputs size s.levels level seed maxFileSize).2.map File.num) = true := by
  have inv := (invB_iff s).mp hinv
  exact C07_selected_inputs_are_valid_of_mem s hinv level hlev seed hne (fun f hf => hsub.subset hf)
    (hsub.nodup (nodup_of_map_num (inv.numsL level))) h0 hn size maxFileSize

/-- together with valid outputs, the selected inputs make a valid compaction -/
theorem C07_selected_compaction_is_valid (s : State) (hinv : invB s = true) (c : Compaction)
    (seed : List File) (size : Nat → Nat) (maxFileSize : Nat) (hlev : c.level + 1 < 7)
    (hne : seed ≠ []) (hsub : seed.Sublist (s.levels.getD c.level []))
    (h0 : c.level = 0 → SeedNewer0 (s.levels.getD 0 []) seed)
    (hn : c.level ≠ 0 → SeedConvex (s.levels.getD c.level []) seed)
    (hi0 : c.inputs0 = (setupOtherInputs size s.levels c.level seed maxFileSize).1.map File.num)
    (hi1 : c.inputs1 = (setupOtherInputs size s.levels c.level seed maxFileSize).2.map File.num)
    (hout : validOutputs s c = true) : validCompaction s c = true := by
  rw [validCompaction_iff, hi0, hi1,
    C07_selected_inputs_are_valid s hinv c.level hlev seed hne hsub h0 hn size maxFileSize]
  simpa using hout

/-! ### the seeds the callers build satisfy the hypotheses -/

/-- `pick_compaction` (level 0, size- or seek-triggered) and `compact_range` (level 0): whatever
range `get_overlapping_compaction_inputs` is called with, its result is closed -/
theorem seed_level0_closed (l0 : List File) (lo hi : Option Bytes) :
    SeedClosed0 l0 (overlapping l0 true lo hi) := by
  intro l h hh g hg hov
  exact overlapping_hullClosed l0 lo hi l h (isHull_of_hull hh) g hg hov

/-- `pick_compaction` at a level ≥ 1: one file -/
theorem seed_single_convex (lvl : List File) (hwf : ∀ f ∈ lvl, kLt f.largest f.smallest = false)
    (f : File) (hf : f ∈ lvl) : SeedConvex lvl [f] :=
  conv_single hwf hf

/-- `compact_range` at a level ≥ 1: the files overlapping a range, cut to a prefix by size -/
theorem seed_prefix_convex (lvl : List File) (hwf : ∀ f ∈ lvl, kLt f.largest f.smallest = false)
    (hs : levelSorted lvl = true) (hok : ∀ f ∈ lvl, fileOk f = true) (lo hi : Option Bytes)
    (n : Nat) : SeedConvex lvl ((overlapping lvl false lo hi).take n) := by
  have hl : LevelOk lvl := (levelSorted_iff lvl (fun f hf => (fileOk_iff f).mp (hok f hf))).mp hs
  apply conv_take hwf hl (overlapping_sublist lvl false lo hi)
  rw [overlapping_notL0]
  exact filter_inRange_conv hwf lo hi

/-! ### `addBoundary` -/

/-- extensive: the inputs are kept (in front, in order) -/
theorem addBoundary_extensive (levelFiles inputs : List File) :
    inputs <+: addBoundary levelFiles inputs :=
  addBoundary_prefix levelFiles inputs

/-- only files of the level are added -/
theorem addBoundary_within (levelFiles inputs : List File) :
    ∀ f ∈ addBoundary levelFiles inputs, f ∈ inputs ∨ f ∈ levelFiles :=
  fun _ hf => addBoundary_subset hf

/-- closed: no file of the level starts above the largest key of the result on the same user key
(the loop's fuel is enough) -/
theorem addBoundary_closed (levelFiles inputs : List File)
    (hwf : ∀ f ∈ levelFiles, kLt f.largest f.smallest = false) (hne : inputs ≠ []) :
    ∃ m, maxKey (addBoundary levelFiles inputs) = some m ∧
      ∀ g ∈ levelFiles, ¬ (kLt m g.smallest = true ∧ g.smallest.1 = m.1) := by
  obtain ⟨m, h1, h2⟩ := Lemmas.addBoundary_closed hwf hne
  refine ⟨m, h1, fun g hg hc => ?_⟩
  have := h2 g hg
  rw [isCand_iff.mpr hc] at this; cases this

/-- idempotent -/
theorem addBoundary_idempotent (levelFiles inputs : List File)
    (hwf : ∀ f ∈ levelFiles, kLt f.largest f.smallest = false) :
    addBoundary levelFiles (addBoundary levelFiles inputs) = addBoundary levelFiles inputs :=
  addBoundary_idem hwf

/-- in a sorted level and for inputs without gaps: every remaining file of the level lies
entirely before an input, or entirely after it and does not start with the user key that input
ends with -/
theorem addBoundary_closed_sorted (levelFiles inputs : List File)
    (hwf : ∀ f ∈ levelFiles, kLt f.largest f.smallest = false)
    (hl : levelFiles.Pairwise fun f g => kLt f.largest g.smallest = true)
    (hsub : ∀ f ∈ inputs, f ∈ levelFiles) (hne : inputs ≠ [])
    (hc : SeedConvex levelFiles inputs) :
    ∀ g ∈ levelFiles, g ∉ addBoundary levelFiles inputs → ∀ f ∈ addBoundary levelFiles inputs,
      kLt g.largest f.smallest = true ∨
        (kLt f.largest g.smallest = true ∧ g.smallest.1 ≠ f.largest.1) := by
  obtain ⟨m, hm, hcl⟩ := Lemmas.addBoundary_closed hwf hne
  exact remaining_apart hl (addBoundary_sub hsub) (addBoundary_conv hwf hl hsub hc) hm hcl

/-! ### `overlapping` -/

/-- exactly the files whose user-key range meets the final range, in level order -/
theorem overlapping_exact (files : List File) (isLevel0 : Bool) (lo hi : Option Bytes) :
    overlapping files isLevel0 lo hi =
      files.filter fun f =>
        inRange f (finalRange files isLevel0 lo hi).1 (finalRange files isLevel0 lo hi).2 :=
  overlapping_eq_filter files isLevel0 lo hi

/-- a level other than 0: the final range is the requested one -/
theorem finalRange_other_levels (files : List File) (lo hi : Option Bytes) :
    finalRange files false lo hi = (lo, hi) :=
  finalRange_notL0 files lo hi

/-- level 0: the final range is a fixpoint — no file that meets it starts before it or ends after
it (the restart loop has run to completion within its fuel) -/
theorem finalRange_level0_fixpoint (files : List File) (lo hi : Option Bytes) :
    ∀ f ∈ files,
      inRange f (finalRange files true lo hi).1 (finalRange files true lo hi).2 = true →
      widensLo f (finalRange files true lo hi).1 = false ∧
        widensHi f (finalRange files true lo hi).2 = false :=
  finalRange_fix files lo hi

/-- every file meeting the requested range is returned -/
theorem overlapping_contains (files : List File) (isLevel0 : Bool) (lo hi : Option Bytes)
    (g : File) (hg : g ∈ files) (h : inRange g lo hi = true) :
    g ∈ overlapping files isLevel0 lo hi :=
  overlapping_superset hg h

/-! ### non-vacuity: concrete layouts -/

namespace PickExample

def k (c : Char) (seq : Nat) : Bytes × Nat := ([c.toNat.toUInt8], seq)

def mk (num : Nat) (a b : Bytes × Nat) : File :=
  { num := num, smallest := a, largest := b,
    entries :=
      if a == b then [{ ukey := a.1, seq := a.2, put := true, val := [] }]
      else [{ ukey := a.1, seq := a.2, put := true, val := [] },
            { ukey := b.1, seq := b.2, put := true, val := [] }] }

/-- level 0: three memtable flushes, two of them overlapping -/
def A0 := mk 10 (k 'a' 30) (k 'c' 31)
def B0 := mk 11 (k 'b' 32) (k 'f' 33)
def C0 := mk 12 (k 'x' 34) (k 'z' 35)
/-- level 1 (the layout of the repaired defect: level `L`) -/
def Y := mk 5 (k 'b' 20) (k 'd' 21)
def X := mk 6 (k 'e' 22) (k 'e' 22)
/-- level 2 (level `L+1`): `Fb` starts with the user key `Fa` ends with -/
def F0 := mk 1 (k 'a' 5) (k 'c' 6)
def Fa := mk 2 (k 'd' 7) (k 'k' 3)
def Fb := mk 3 (k 'k' 1) (k 'k' 1)

def st : State :=
  { mem := [], imm := none, lastSeq := 40,
    levels := [[A0, B0, C0], [Y, X], [F0, Fa, Fb], [], [], [], []] }

def one : Nat → Nat := fun _ => 1

example : invB st = true := by decide +kernel

/-- the repaired defect: seed `X`; `Fa` overlaps it and drags in its boundary file `Fb`, which
belongs to the level-`L+1` inputs.  (Expansion is tried — `Y` overlaps `d..k` — and rejected
because it would pull in `F0`.) -/
example : ((setupOtherInputs one st.levels 1 [X] 100).1.map File.num,
           (setupOtherInputs one st.levels 1 [X] 100).2.map File.num) = ([6], [2, 3]) := by
  decide +kernel

example : Fb ∈ (setupOtherInputs one st.levels 1 [X] 100).2 := by decide +kernel

example : validInputs st 1 [6] [2, 3] = true := by decide +kernel

/-- what the defective code selected (boundary file missing): rejected -/
example : validInputs st 1 [6] [2] = false := by decide +kernel

/-- the expansion branch is taken: seed `Y` grows to `Y, X` without growing the next level -/
example : ((setupOtherInputs one st.levels 1 [Y] 100).1.map File.num,
           (setupOtherInputs one st.levels 1 [Y] 100).2.map File.num) = ([5, 6], [1, 2, 3]) := by
  decide +kernel

example : validInputs st 1 [5, 6] [1, 2, 3] = true := by decide +kernel

/-- … and not taken when the size limit `25 * maxFileSize` forbids it -/
example : ((setupOtherInputs one st.levels 1 [Y] 0).1.map File.num,
           (setupOtherInputs one st.levels 1 [Y] 0).2.map File.num) = ([5], [1, 2, 3]) := by
  decide +kernel

example : validInputs st 1 [5] [1, 2, 3] = true := by decide +kernel

/-- a boundary file of level `L` itself: seed `Fa` at level 2 takes `Fb` along -/
example : ((setupOtherInputs one st.levels 2 [Fa] 100).1.map File.num,
           (setupOtherInputs one st.levels 2 [Fa] 100).2.map File.num) = ([2, 3], []) := by
  decide +kernel

example : validInputs st 2 [2, 3] [] = true := by decide +kernel

/-- level 0: the restart loop widens `a..c` (the range of `A0`) to `a..f` -/
example : (overlapping [A0, B0, C0] true (some [97]) (some [99])).map File.num = [10, 11] := by
  decide +kernel

example : finalRange [A0, B0, C0] true (some [97]) (some [99]) = (some [97], some [102]) := by
  decide +kernel

example : ((setupOtherInputs one st.levels 0 [A0, B0] 100).1.map File.num,
           (setupOtherInputs one st.levels 0 [A0, B0] 100).2.map File.num) = ([10, 11], [5, 6]) := by
  decide +kernel

example : validInputs st 0 [10, 11] [5, 6] = true := by decide +kernel

/-- the hypotheses of the theorem hold for these seeds … -/
example : SeedConvex (st.levels.getD 1 []) [X] :=
  seed_single_convex _ (by decide +kernel) X (by decide +kernel)

example : SeedClosed0 (st.levels.getD 0 []) (overlapping [A0, B0, C0] true (some [97]) (some [99])) :=
  seed_level0_closed _ _ _

/-- a level-0 seed that is not closed but leaves only a NEWER overlapping file (`B0`) behind -/
example : SeedNewer0 (st.levels.getD 0 []) [A0] ∧ ¬ SeedClosed0 (st.levels.getD 0 []) [A0] := by
  constructor
  · intro lo hi hh g hg hgn hov f hf
    have e : hull [A0] = some (([97] : Bytes), ([99] : Bytes)) := by decide +kernel
    rw [e] at hh; cases hh
    have hg' : g = A0 ∨ g = B0 ∨ g = C0 := by simpa [st] using hg
    have hf' : f = A0 := by simpa using hf
    subst hf'
    rcases hg' with rfl | rfl | rfl
    · exact absurd (List.mem_cons_self ..) hgn
    · decide +kernel
    · revert hov; decide +kernel
  · intro h
    have := h [97] [99] (by decide +kernel) B0 (by decide +kernel) (by decide +kernel)
    revert this; decide +kernel

example : validInputs st 0 ((setupOtherInputs one st.levels 0 [A0] 0).1.map File.num)
    ((setupOtherInputs one st.levels 0 [A0] 0).2.map File.num) = true := by decide +kernel

/-- … and cannot be dropped.  Level 0: the seed `B0` alone leaves the older, overlapping `A0`
behind (`finalize_compaction_inputs` does not widen a level-0 seed: the expansion step is skipped
because the size limit is 0 here). -/
example : ((setupOtherInputs one st.levels 0 [B0] 0).1.map File.num) = [11] := by decide +kernel

example : validInputs st 0 ((setupOtherInputs one st.levels 0 [B0] 0).1.map File.num)
    ((setupOtherInputs one st.levels 0 [B0] 0).2.map File.num) = false := by decide +kernel

/-- level ≥ 1: a seed with a gap (`P`, `R` without `Q`) leaves `Q` behind, which starts with the
user key `P` ends with -/
def P := mk 1 (k 'a' 5) (k 'k' 4)
def Q := mk 2 (k 'k' 3) (k 'm' 2)
def R := mk 3 (k 'x' 1) (k 'z' 1)

def gap : State :=
  { mem := [], imm := none, lastSeq := 40, levels := [[], [P, Q, R], [], [], [], [], []] }

example : invB gap = true := by decide +kernel

example : validInputs gap 1 ((setupOtherInputs one gap.levels 1 [P, R] 100).1.map File.num)
    ((setupOtherInputs one gap.levels 1 [P, R] 100).2.map File.num) = false := by decide +kernel

/-- the same level with the gap-free seed `P`: the boundary file `Q` is added -/
example : (setupOtherInputs one gap.levels 1 [P] 100).1.map File.num = [1, 2] := by decide +kernel

end PickExample

end Rain.Lsm
