import Rain.MakeRoomCheck
import Rain.Props.MakeRoom
/-
The executable hypothesis is the hypothesis: a positive answer of `coherentB` on the views of a
recorded call puts that call under `C09_make_room_never_spins`.
-/
namespace Rain.Props.MakeRoom
open Rain.MakeRoom

theorem C09_coherentB_sound (rotated : Bool) (x : Vars) (vs : List View) :
    coherentB rotated x vs = true ↔ Coherent rotated x vs := by
  induction vs generalizing rotated x with
  | nil => simp [coherentB, Coherent]
  | cons v vs ih =>
    simp only [coherentB, Coherent, Bool.and_eq_true, Bool.or_eq_true, Bool.not_eq_true', ih]
    constructor
    · rintro ⟨h1, h2⟩
      refine ⟨fun hr => ?_, h2⟩
      cases h1 with
      | inl h => rw [hr] at h; cases h
      | inr h => exact h
    · rintro ⟨h1, h2⟩
      refine ⟨?_, h2⟩
      cases hr : rotated
      · exact Or.inl rfl
      · exact Or.inr (h1 hr)

/-- **A recorded call that passes the executable check is bounded**: at most one rotation, one
sleep and two iterations that neither return nor wait. -/
theorem C09_checked_call_never_spins (force : Bool) (views : List View)
    (h : coherentB false (start force) views = true) :
    (run (start force) views).count .rotate ≤ 1 ∧ (run (start force) views).count .delay ≤ 1 ∧
    busy (run (start force) views) ≤ 2 :=
  C09_make_room_never_spins force views ((C09_coherentB_sound false (start force) views).mp h)

example : coherentB false (start false)
    [{ bad := false, l0 := 9, fits := false, empty := false, imm := false, prevWal := false },
     { bad := false, l0 := 9, fits := false, empty := false, imm := false, prevWal := false },
     { bad := false, l0 := 9, fits := false, empty := true, imm := true, prevWal := false }] = true := by decide

end Rain.Props.MakeRoom
