import Rain.Props.Pick
import Rain.Grandparent
import Rain.Lemmas.Manual
/-
The DECISION to move a file down instead of merging it (`CompactionManifest::is_trivial_move` on the
inputs `finalize_compaction_inputs` selected): whenever it says "move", the trivial-move transition
of the LSM model is enabled — nothing of the next level overlaps the file, at level 0 no other
level-0 file overlaps it, at a deeper level no later file starts with the user key it ends with —
so the move changes no read (`C07_invisible`) and keeps the invariant.  Part of C07.
-/
namespace Rain.Props.TrivialMove
open Rain Rain.Lsm Rain.Lsm.Lemmas Rain.Grandparent Rain.Manual.Lemmas

theorem pick_single {fs : List File} (hnd : (fs.map File.num).Nodup) {f : File} (hf : f ∈ fs) :
    pick fs [f.num] = [f] := by
  induction fs with
  | nil => cases hf
  | cons a rest ih =>
    have hn : a.num ∉ rest.map File.num ∧ (rest.map File.num).Nodup := by
      rw [List.map_cons] at hnd; exact List.nodup_cons.mp hnd
    unfold pick at ih ⊢
    rw [List.filter_cons]
    rcases List.mem_cons.mp hf with rfl | hf'
    · have : ([f.num].contains f.num) = true := by simp
      rw [if_pos this]
      congr 1
      rw [List.filter_eq_nil_iff]
      intro g hg hc
      have : g.num = f.num := by simpa using hc
      exact hn.1 (List.mem_map.mpr ⟨g, hg, this⟩)
    · have hne : a.num ≠ f.num := fun e => hn.1 (List.mem_map.mpr ⟨f, hf', e.symm⟩)
      have : ([f.num].contains a.num) = false := by simpa using hne
      rw [if_neg (by rw [this]; simp)]
      exact ih hn.2 hf'

theorem eq_single_of_prefix {X : List File} {f : File} (hne : X ≠ []) (hp : X <+: [f]) : X = [f] := by
  obtain ⟨t, ht⟩ := hp
  cases X with
  | nil => exact absurd rfl hne
  | cons a l =>
    simp only [List.cons_append, List.cons.injEq] at ht
    obtain ⟨rfl, h2⟩ := ht
    have : l = [] := (List.append_eq_nil_iff.mp h2).1
    rw [this]

theorem keyRange_single (f : File) : keyRange [f] = some (f.smallest, f.largest) := by
  simp [keyRange, rangeStep, k_st.irrefl, bytes_st.irrefl]

theorem hull_single (f : File) : hull [f] = some (f.smallest.1, f.largest.1) := by
  simp [hull]

/-- **C07: a trivial move the code decides on is a valid trivial move of the model.**  For every
state satisfying the invariant, every level, every seed the callers build (at level 0 closed under
overlap, as `pick_compaction` makes it), every size setting: if the selected inputs are one level
file and no parent file — the part of `is_trivial_move` that matters for correctness; the
grandparent limit only decides whether the move is WANTED — then `stepTrivialMove` accepts it. -/
theorem C07_trivial_move_decision_is_valid (s : State) (h : Inv s) (level : Nat) (hlev : level + 1 < 7)
    (seed : List File) (hne : seed ≠ []) (hsub : ∀ g ∈ seed, g ∈ lv s.levels level)
    (h0 : level = 0 → SeedClosed0 (s.levels.getD 0 []) seed) (size : Nat → Nat) (maxFileSize : Nat)
    (f : File) (hi0 : (setupOtherInputs size s.levels level seed maxFileSize).1 = [f])
    (hi1 : (setupOtherInputs size s.levels level seed maxFileSize).2 = []) :
    (stepTrivialMove s f.num level).isSome = true := by
  have inv := (inv_iff s).mp h
  have hwf : ∀ g ∈ lv s.levels level, Wf g := fun g hg => (inv.files level g hg).wf
  obtain ⟨⟨kr, hkr, h2⟩, hcase⟩ := setup_cases size s.levels level seed maxFileSize hne
  rw [hi0] at hkr hcase
  rw [hi1] at h2
  rw [keyRange_single] at hkr
  simp only [Option.some.injEq] at hkr
  subst hkr
  -- the level input is the boundary closure of a non-empty list `X` of level files, so `X = [f]`
  have hX : ∃ X, X ≠ [] ∧ [f] = addBoundary (lv s.levels level) X ∧ (∀ g ∈ X, g ∈ lv s.levels level) ∧
      (level = 0 → ∀ lo hi, IsHull X lo hi → ∀ g ∈ lv s.levels 0, userRangeOverlaps g lo hi = true → g ∈ X) := by
    rcases hcase with e | ⟨_, a, b, e⟩
    · refine ⟨seed, hne, e, hsub, ?_⟩
      intro hz lo hi hH g hg hov
      exact h0 hz lo hi (hull_of_isHull hH) g hg hov
    · refine ⟨_, ?_, e, fun g hg => (overlapping_sublist _ _ _ _).subset hg, ?_⟩
      · intro hnil; rw [hnil, addBoundary_nil] at e; cases e
      · intro hz lo hi hH g hg hov
        subst hz
        exact overlapping_hullClosed _ _ _ lo hi hH g hg hov
  obtain ⟨X, hXne, hXe, hXsub, hXcl⟩ := hX
  have hXf : X = [f] := eq_single_of_prefix hXne (by rw [hXe]; exact addBoundary_prefix _ X)
  subst hXf
  have hf : f ∈ lv s.levels level := hXsub f (List.mem_cons_self ..)
  have hpick : pick (s.levels.getD level []) [f.num] = [f] := pick_single (inv.numsL level) hf
  -- nothing of the next level overlaps the file
  have hnext : ∀ g ∈ s.levels.getD (level + 1) [], userRangeOverlaps g f.smallest.1 f.largest.1 = false := by
    intro g hg
    have hnil : overlapping (lv s.levels (level + 1)) false (some f.smallest.1) (some f.largest.1) = [] := by
      cases hov : overlapping (lv s.levels (level + 1)) false (some f.smallest.1) (some f.largest.1) with
      | nil => rfl
      | cons a l =>
        exfalso
        have hp := addBoundary_prefix (lv s.levels (level + 1))
          (overlapping (lv s.levels (level + 1)) false (some f.smallest.1) (some f.largest.1))
        rw [← h2, hov] at hp
        obtain ⟨t, ht⟩ := hp
        cases ht
    rw [overlapping_notL0] at hnil
    have := List.filter_eq_nil_iff.mp hnil g hg
    rw [inRange_some_some] at this
    simpa using this
  -- the other files of the level
  have hothers : ∀ g ∈ unpick (s.levels.getD level []) [f.num], g ∈ lv s.levels level ∧ g ≠ f := by
    intro g hg
    have hg' : g ∈ lv s.levels level ∧ ([f.num].contains g.num) = false := by
      simpa [unpick, List.mem_filter, lv] using hg
    refine ⟨hg'.1, ?_⟩
    intro e
    rw [e] at hg'
    simp at hg'
  unfold stepTrivialMove
  rw [hpick]
  simp only
  have hok : (decide (level + 1 < 7) &&
      ((s.levels.getD (level + 1) []).all fun g => !userRangeOverlaps g f.smallest.1 f.largest.1) &&
      (level != 0 || (unpick (s.levels.getD level []) [f.num]).all fun g =>
        !userRangeOverlaps g f.smallest.1 f.largest.1) &&
      (level == 0 || (unpick (s.levels.getD level []) [f.num]).all fun g =>
        !(kLt f.largest g.smallest && g.smallest.1 == f.largest.1))) = true := by
    simp only [Bool.and_eq_true, decide_eq_true_eq, List.all_eq_true, Bool.not_eq_true',
      Bool.or_eq_true, bne_iff_ne, ne_eq, beq_iff_eq]
    refine ⟨⟨⟨hlev, hnext⟩, ?_⟩, ?_⟩
    · by_cases hz : level = 0
      · right
        intro g hg
        obtain ⟨hgl, hgf⟩ := hothers g hg
        cases hov : userRangeOverlaps g f.smallest.1 f.largest.1 with
        | false => rfl
        | true =>
          exfalso
          have hH : IsHull [f] f.smallest.1 f.largest.1 := isHull_of_hull (hull_single f)
          have := hXcl hz _ _ hH g (by rw [hz] at hgl; exact hgl) hov
          exact hgf (List.mem_singleton.mp this)
      · exact Or.inl hz
    · by_cases hz : level = 0
      · exact Or.inl hz
      · right
        intro g hg
        obtain ⟨hgl, _⟩ := hothers g hg
        obtain ⟨m, hm, hcl⟩ := Lemmas.addBoundary_closed (lf := lv s.levels level) (X := [f]) hwf
          (by simp)
        rw [← hXe] at hm
        have hmf : m = f.largest := by
          simp [maxKey] at hm; exact hm.symm
        subst hmf
        have := hcl g hgl
        cases hk : kLt f.largest g.smallest with
        | false => simp
        | true =>
          cases he : (g.smallest.1 == f.largest.1) with
          | false => simp
          | true =>
            exfalso
            rw [isCand_iff.mpr ⟨hk, by simpa using he⟩] at this
            cases this
  rw [if_pos hok]
  rfl

end Rain.Props.TrivialMove
