import Rain.FileNames
import Rain.Lemmas.FileNames
import Rain.Files
/-
File NAMES (C11, C02).  The retention model (`Rain/Files.lean`) and the durability model speak about
file NUMBERS; the code decides on the NAMES it finds in three folders.  These theorems close the
gap for every file number a `u64` can hold: every name the database writes parses back to its
kind and number, so the deletion pass over names IS the deletion pass over numbers, recovery finds
exactly the WALs it must replay, CURRENT is read back as the manifest it was written for, and a
name that does not parse is never touched.
Model: `Rain/FileNames.lean` (literals regenerated from `src/file_names.rs`).
-/
namespace Rain.Props.FileNames
open Rain.FileNames Rain.FileNames.Lemmas Rain.Gen

/-- **C11/C02: every name the database writes parses back to its kind and number** — for every
number below 2^64, i.e. every `u64`: WALs, tables, manifests, temp files, CURRENT and LOCK. -/
theorem C11_written_names_parse_back (k : Kind)
    (hk : match k with | .wal n | .table n | .manifest n | .temp n => n < U64 | _ => True) :
    parse (nameOf k) = some k := by
  obtain ⟨hwp, hmp, hwe, hte, hme, hpe, _, _⟩ := lit_no_dot
  obtain ⟨pw, pm, pt, pp⟩ := lit_prefixes
  obtain ⟨e1, e2, e3, e4, e5, e6, e7⟩ := lit_exts
  cases k with
  | current => simp [nameOf, parse]
  | lock => simp [nameOf, parse, e7.symm]
  | wal n =>
    obtain ⟨h1, h2, h3⟩ := parse_fmt FN_WAL_FMT_PREFIX FN_WAL_EXT n hwp hwe
    simp only [nameOf, walName, parse, h1, h2, h3, if_false, e1, if_true, parseNumber, pw,
      stripPrefix_append, parseU64_digits n hk, Option.map_some]
  | manifest n =>
    obtain ⟨h1, h2, h3⟩ := parse_fmt FN_MANIFEST_FMT_PREFIX FN_MANIFEST_EXT n hmp hme
    simp only [nameOf, manifestName, parse, h1, h2, h3, if_false, if_true, parseNumber, pm,
      stripPrefix_append, parseU64_digits n hk, Option.map_some]
  | table n =>
    obtain ⟨h1, h2, h3⟩ := parse_fmt [] FN_TABLE_EXT n no_dot_nil hte
    simp only [List.nil_append] at h1 h2 h3
    simp only [nameOf, tableName, parse, h1, h2, h3, if_false, e2, e3, if_true, parseNumber, pt,
      stripPrefix, parseU64_digits n hk, Option.map_some]
  | temp n =>
    obtain ⟨h1, h2, h3⟩ := parse_fmt [] FN_TEMP_EXT n no_dot_nil hpe
    simp only [List.nil_append] at h1 h2 h3
    simp only [nameOf, tempName, parse, h1, h2, h3, if_false, e4, e5, e6, if_true, parseNumber, pp,
      stripPrefix, parseU64_digits n hk, Option.map_some]

/-- **No two files of the database share a name**: different kinds or numbers give different
names (so no creation, rename or removal can hit another live file). -/
theorem C11_written_names_are_distinct (k k' : Kind)
    (hk : match k with | .wal n | .table n | .manifest n | .temp n => n < U64 | _ => True)
    (hk' : match k' with | .wal n | .table n | .manifest n | .temp n => n < U64 | _ => True)
    (h : nameOf k = nameOf k') : k = k' := by
  have a := C11_written_names_parse_back k hk
  have b := C11_written_names_parse_back k' hk'
  rw [h, b] at a
  exact (Option.some.inj a).symm

/-- **Nothing live is deleted, at the level of names**: the deletion pass never lists the table
file of a live number, a WAL at or above the current WAL number or the WAL being flushed, the
current (or a newer) manifest, a live temp file, CURRENT or LOCK — in whatever folder they are
found. -/
theorem C11_live_names_survive (L : Live) (f : Folder) :
    (∀ n, n < U64 → n ∈ L.live → deletes L f (tableName n) = false) ∧
    (∀ n, n < U64 → (L.walNo ≤ n ∨ L.prevWal = some n) → deletes L f (walName n) = false) ∧
    (∀ n, n < U64 → L.manifestNo ≤ n → deletes L f (manifestName n) = false) ∧
    (∀ n, n < U64 → n ∈ L.live → deletes L f (tempName n) = false) ∧
    deletes L f FN_CURRENT_FILE = false ∧ deletes L f FN_LOCK_FILE = false := by
  refine ⟨?_, ?_, ?_, ?_, ?_, ?_⟩
  · intro n hn hl
    have := C11_written_names_parse_back (.table n) hn
    simp only [nameOf] at this
    cases f <;> simp [deletes, this, hl]
  · intro n hn hl
    have := C11_written_names_parse_back (.wal n) hn
    simp only [nameOf] at this
    cases f <;> simp [deletes, this]
    cases hl with
    | inl h => intro h'; omega
    | inr h => intro _; exact h
  · intro n hn hl
    have := C11_written_names_parse_back (.manifest n) hn
    simp only [nameOf] at this
    cases f <;> simp [deletes, this]
    omega
  · intro n hn hl
    have := C11_written_names_parse_back (.temp n) hn
    simp only [nameOf] at this
    cases f <;> simp [deletes, this, hl]
  · have := C11_written_names_parse_back .current trivial
    simp only [nameOf] at this
    cases f <;> simp [deletes, this]
  · have := C11_written_names_parse_back .lock trivial
    simp only [nameOf] at this
    cases f <;> simp [deletes, this]

/-- **A foreign file is never touched**: a name the parser rejects is not deleted, and neither is
a file of a kind that does not belong into the folder it is found in. -/
theorem C11_foreign_names_survive (L : Live) (f : Folder) (name : Name) :
    (parse name = none → deletes L f name = false) ∧
    (deletes L f name = true →
      (f = .wal ∧ ∃ n, parse name = some (.wal n) ∧ n < L.walNo ∧ L.prevWal ≠ some n) ∨
      (f = .data ∧ ∃ n, parse name = some (.table n) ∧ n ∉ L.live) ∨
      (f = .main ∧ ∃ n, (parse name = some (.manifest n) ∧ n < L.manifestNo) ∨
                        (parse name = some (.temp n) ∧ n ∉ L.live))) := by
  constructor
  · intro h; cases f <;> simp [deletes, h]
  · intro h
    unfold deletes at h
    split at h
    · rename_i n hp
      simp only [Bool.and_eq_true, Bool.not_eq_true', decide_eq_false_iff_not, beq_eq_false_iff_ne] at h
      exact Or.inl ⟨rfl, n, hp, by omega, h.2⟩
    · rename_i n hp
      simp only [Bool.not_eq_true', List.contains_eq_mem, decide_eq_false_iff_not] at h
      exact Or.inr (Or.inl ⟨rfl, n, hp, h⟩)
    · rename_i n hp
      simp only [decide_eq_true_eq] at h
      exact Or.inr (Or.inr ⟨rfl, n, Or.inl ⟨hp, h⟩⟩)
    · rename_i n hp
      simp only [Bool.not_eq_true', List.contains_eq_mem, decide_eq_false_iff_not] at h
      exact Or.inr (Or.inr ⟨rfl, n, Or.inr ⟨hp, h⟩⟩)
    · exact absurd h (by simp)

/-- what `remove_obsolete_files` consults, read off a state of the retention model -/
def liveOf (s : Rain.Files.State) : Live :=
  { live := Rain.Files.liveTables s, walNo := s.walNo, prevWal := s.prevWal, manifestNo := s.manifestNo }

/-- **The deletion pass over names is the deletion pass over numbers** (`Rain.Files.clean`, about
which the C11 retention theorems speak): for every state of the retention model whose directory
holds the files of its numbers under the names the database writes, what survives in each folder
is exactly the named image of `clean`. -/
theorem C11_name_level_pass_is_the_number_level_pass (s : Rain.Files.State)
    (hb : (∀ n ∈ s.dir.tables, n < U64) ∧ (∀ n ∈ s.dir.wals, n < U64) ∧
          (∀ n ∈ s.dir.manifests, n < U64) ∧ (∀ n ∈ s.dir.temps, n < U64)) :
    survivors (liveOf s) .data (s.dir.tables.map tableName) = (Rain.Files.clean s).tables.map tableName ∧
    survivors (liveOf s) .wal (s.dir.wals.map walName) = (Rain.Files.clean s).wals.map walName ∧
    survivors (liveOf s) .main (s.dir.manifests.map manifestName) = (Rain.Files.clean s).manifests.map manifestName ∧
    survivors (liveOf s) .main (s.dir.temps.map tempName) = (Rain.Files.clean s).temps.map tempName := by
  obtain ⟨ht, hw, hm, hp⟩ := hb
  refine ⟨?_, ?_, ?_, ?_⟩
  · apply filter_map_names
    intro n hn
    have := C11_written_names_parse_back (.table n) (ht n hn)
    simp only [nameOf] at this
    simp [deletes, this, liveOf]
  · apply filter_map_names
    intro n hn
    have := C11_written_names_parse_back (.wal n) (hw n hn)
    simp only [nameOf] at this
    simp only [deletes, this, liveOf, Rain.Files.keepWal, Bool.not_and, Bool.not_not]
    cases s.prevWal <;> rfl
  · apply filter_map_names
    intro n hn
    have := C11_written_names_parse_back (.manifest n) (hm n hn)
    simp only [nameOf] at this
    simp only [deletes, this, liveOf]
    by_cases h : n < s.manifestNo
    · have : ¬ s.manifestNo ≤ n := by omega
      simp [h, this]
    · have : s.manifestNo ≤ n := by omega
      simp [h, this]
  · apply filter_map_names
    intro n hn
    have := C11_written_names_parse_back (.temp n) (hp n hn)
    simp only [nameOf] at this
    simp [deletes, this, liveOf]

/-- **C02: recovery finds exactly the WALs it must replay.**  Among the names of all three
folders — tables, WALs, manifests, temp files, CURRENT, LOCK, under the names the database
writes — `recover_unrecorded_logs` selects exactly the WAL numbers at or above the number the
manifest records, each once, whatever else is there. -/
theorem C02_recovery_finds_exactly_the_live_wals (minLog : Nat) (tables wals manifests temps : List Nat)
    (hb : (∀ n ∈ tables, n < U64) ∧ (∀ n ∈ wals, n < U64) ∧ (∀ n ∈ manifests, n < U64) ∧
          (∀ n ∈ temps, n < U64)) :
    logsToRecover minLog
      ((manifests.map manifestName ++ temps.map tempName ++ [FN_CURRENT_FILE, FN_LOCK_FILE]) ++
        wals.map walName ++ tables.map tableName)
    = wals.filter (fun n => decide (minLog ≤ n)) := by
  obtain ⟨ht, hw, hm, hp⟩ := hb
  have h1 : logsToRecover minLog (manifests.map manifestName) = manifests.filterMap (fun _ => none) := by
    apply logs_map
    intro n hn
    have := C11_written_names_parse_back (.manifest n) (hm n hn)
    simp only [nameOf] at this
    simp [walToReplay, this]
  have h2 : logsToRecover minLog (temps.map tempName) = temps.filterMap (fun _ => none) := by
    apply logs_map
    intro n hn
    have := C11_written_names_parse_back (.temp n) (hp n hn)
    simp only [nameOf] at this
    simp [walToReplay, this]
  have h3 : logsToRecover minLog (tables.map tableName) = tables.filterMap (fun _ => none) := by
    apply logs_map
    intro n hn
    have := C11_written_names_parse_back (.table n) (ht n hn)
    simp only [nameOf] at this
    simp [walToReplay, this]
  have h4 : logsToRecover minLog (wals.map walName) =
      wals.filterMap (fun n => if minLog ≤ n then some n else none) := by
    apply logs_map
    intro n hn
    have := C11_written_names_parse_back (.wal n) (hw n hn)
    simp only [nameOf] at this
    simp [walToReplay, this]
  have h5 : logsToRecover minLog [FN_CURRENT_FILE, FN_LOCK_FILE] = [] := by
    have a := C11_written_names_parse_back .current trivial
    have b := C11_written_names_parse_back .lock trivial
    simp only [nameOf] at a b
    simp [logsToRecover, walToReplay, a, b]
  have hnone : ∀ l : List Nat, l.filterMap (fun _ => (none : Option Nat)) = [] := by
    intro l; induction l <;> simp_all
  have hfm := filterMap_ite_eq_filter minLog wals
  rw [logs_append, logs_append, logs_append, logs_append, h1, h2, h3, h4, h5, hnone, hnone, hnone, hfm]
  simp

/-- **C02: CURRENT is read back as the manifest it was written for**, for every manifest number;
contents that are empty or do not end in a newline (a torn CURRENT) are rejected. -/
theorem C02_current_round_trip (n : Nat) (h : n < U64) :
    parseCurrent (currentContents n) = some n ∧ parseCurrent [] = none ∧
    parseCurrent (manifestName n) = none := by
  have hp := C11_written_names_parse_back (.manifest n) h
  simp only [nameOf] at hp
  refine ⟨?_, rfl, ?_⟩
  · simp [parseCurrent, currentContents, hp]
  · -- the last character of a manifest name is the last character of its extension, not a newline
    have hfmt : manifestName n = (FN_MANIFEST_FMT_PREFIX ++ digits n) ++ dot :: FN_MANIFEST_EXT :=
      setExtension_fmt _ _ n lit_no_dot.2.1
    have hlast : ∃ c rest, FN_MANIFEST_EXT.reverse = c :: rest ∧ c ≠ newline :=
      ⟨FN_MANIFEST_EXT.reverse.headD 0, FN_MANIFEST_EXT.reverse.tail, by decide, by decide⟩
    obtain ⟨c, rest, he, hc⟩ := hlast
    have : (manifestName n).reverse = c :: (rest ++ dot :: (FN_MANIFEST_FMT_PREFIX ++ digits n).reverse) := by
      rw [hfmt, List.reverse_append, List.reverse_cons, he]; simp
    simp [parseCurrent, this, hc]

/-- **C02: recovery misses no file that is there.**  In a directory that holds the files of the
numbers `tables`, `wals`, `manifests`, `temps` under the names the database writes (plus CURRENT
and LOCK), exactly the live numbers that are in none of the four sets are reported missing: a
database whose live tables are all on disk opens, and **C15: a live table that is gone is
detected at open** (the error `missing files`) unless another file carries its number. -/
theorem C02_missing_files_are_exactly_the_absent_ones (live tables wals manifests temps : List Nat)
    (hb : (∀ n ∈ tables, n < U64) ∧ (∀ n ∈ wals, n < U64) ∧ (∀ n ∈ manifests, n < U64) ∧
          (∀ n ∈ temps, n < U64)) :
    missingFiles live
      ((manifests.map manifestName ++ temps.map tempName ++ [FN_CURRENT_FILE, FN_LOCK_FILE]) ++
        wals.map walName ++ tables.map tableName)
    = live.filter (fun n => !((manifests ++ temps ++ wals ++ tables).contains n)) := by
  obtain ⟨ht, hw, hm, hp⟩ := hb
  have h1 : presentNumbers (manifests.map manifestName) = manifests := by
    apply present_map; intro n hn
    have := C11_written_names_parse_back (.manifest n) (hm n hn)
    simp only [nameOf] at this; simp [this, numberOf]
  have h2 : presentNumbers (temps.map tempName) = temps := by
    apply present_map; intro n hn
    have := C11_written_names_parse_back (.temp n) (hp n hn)
    simp only [nameOf] at this; simp [this, numberOf]
  have h3 : presentNumbers (wals.map walName) = wals := by
    apply present_map; intro n hn
    have := C11_written_names_parse_back (.wal n) (hw n hn)
    simp only [nameOf] at this; simp [this, numberOf]
  have h4 : presentNumbers (tables.map tableName) = tables := by
    apply present_map; intro n hn
    have := C11_written_names_parse_back (.table n) (ht n hn)
    simp only [nameOf] at this; simp [this, numberOf]
  have h5 : presentNumbers [FN_CURRENT_FILE, FN_LOCK_FILE] = [] := by
    have a := C11_written_names_parse_back .current trivial
    have b := C11_written_names_parse_back .lock trivial
    simp only [nameOf] at a b
    simp [presentNumbers, a, b, numberOf]
  have happ : ∀ a b : List Name, presentNumbers (a ++ b) = presentNumbers a ++ presentNumbers b := by
    intro a b; simp [presentNumbers, List.filterMap_append]
  unfold missingFiles
  rw [happ, happ, happ, happ, h1, h2, h3, h4, h5]
  simp

/-- in particular: all live tables on disk ⇒ nothing is missing -/
theorem C02_no_file_missing_when_the_live_tables_are_there (live tables wals manifests temps : List Nat)
    (hb : (∀ n ∈ tables, n < U64) ∧ (∀ n ∈ wals, n < U64) ∧ (∀ n ∈ manifests, n < U64) ∧
          (∀ n ∈ temps, n < U64))
    (hl : ∀ n ∈ live, n ∈ tables) :
    missingFiles live
      ((manifests.map manifestName ++ temps.map tempName ++ [FN_CURRENT_FILE, FN_LOCK_FILE]) ++
        wals.map walName ++ tables.map tableName) = [] := by
  rw [C02_missing_files_are_exactly_the_absent_ones live tables wals manifests temps hb]
  rw [List.filter_eq_nil_iff]
  intro n hn
  have := hl n hn
  simp [this]

example : missingFiles [5, 7] [tableName 5, walName 9, [120], FN_CURRENT_FILE] = [7] := by decide +kernel
/-- a foreign spelling of the missing table's number hides the loss from this test (C11g: names the
    database never writes) -/
example : missingFiles [7] [[43, 55, 46, 114, 100, 98]] = [] := by decide +kernel

/-! ### non-vacuity and the corners of the parser (kernel-checked on the literals of the source) -/

private def s (x : String) : Name := x.toList.map Char.toNat

example : nameOf (.wal 12) = [119, 97, 108, 45, 49, 50, 46, 108, 111, 103] := by decide +kernel
example : parse (nameOf (.table 18446744073709551615)) = some (.table 18446744073709551615) := by
  decide +kernel
/-- 2^64 does not fit: the name is rejected (and such a number is never allocated) -/
example : parse (tableName 18446744073709551616) = none := by decide +kernel
/-- non-canonical spellings the parser accepts: a leading `+`, leading zeros -/
example : parse [43, 55, 46, 114, 100, 98] = some (.table 7) := by decide +kernel
example : parse [48, 48, 55, 46, 114, 100, 98] = some (.table 7) := by decide +kernel
/-- rejected: no number, a sign only, a minus, a dot-file without a second dot, a double extension
    that ends in something else -/
example : parse [46, 114, 100, 98] = none := by decide +kernel
example : parse [43, 46, 114, 100, 98] = none := by decide +kernel
example : parse [45, 55, 46, 114, 100, 98] = none := by decide +kernel
example : parse [55, 46, 114, 100, 98, 46, 98, 97, 107] = none := by decide +kernel
/-- a deletion pass: table 5 is dead, table 6 live, WAL 3 old, WAL 4 being flushed, WAL 9 current -/
example :
    let L : Live := { live := [6], walNo := 9, prevWal := some 4, manifestNo := 2 }
    (survivors L .data [tableName 5, tableName 6, [120]] = [tableName 6, [120]]) ∧
    (survivors L .wal [walName 3, walName 4, walName 9, tableName 5] = [walName 4, walName 9, tableName 5]) ∧
    (survivors L .main [manifestName 1, manifestName 2, tempName 2, tempName 6, FN_CURRENT_FILE, FN_LOCK_FILE]
      = [manifestName 2, tempName 6, FN_CURRENT_FILE, FN_LOCK_FILE]) := by decide +kernel
example : logsToRecover 4 [walName 3, walName 10, walName 4, tableName 7, FN_CURRENT_FILE] = [10, 4] := by
  decide +kernel

end Rain.Props.FileNames
