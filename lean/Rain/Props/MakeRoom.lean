import Rain.MakeRoom
import Rain.Lemmas.MakeRoom
/-
`DB::make_room_for_write` (C09): the loop every write passes through.  For every sequence of
states the iterations of one call can read: the call sleeps at most once and rotates the memtable at
most once, after its rotation it never waits and returns within two iterations, it blocks on the
condition variable only in states in which the scheduling protocol (`Rain/Sched.lean`) says a writer
is blocked - so `C09_no_sleeper_without_waker` applies to it -, a forced call (the flush of
`compact_range` / `force_memtable_compaction`) never returns Ok without having rotated, and the
"already undergoing compaction" error is unreachable while a previous WAL number implies an
immutable memtable.
Model: `Rain/MakeRoom.lean` (triggers regenerated from `src/config.rs`).
-/
namespace Rain.Props.MakeRoom
open Rain.MakeRoom Rain.MakeRoom.Lemmas Rain.Gen

/-- **The call rotates the memtable at most once and sleeps at most once**; after its rotation it
never waits (`C09_make_room_after_rotation`).  Hence every call performs at most two iterations
that neither return nor wait on the condition variable: the loop itself cannot spin (the class of
D13, where a memtable limit below the empty memtable's footprint made it rotate for ever - the
`is_empty` disjunct is what the proof uses). -/
theorem C09_make_room_never_spins (force : Bool) (views : List View)
    (hc : Coherent false (start force) views) :
    (run (start force) views).count .rotate ≤ 1 ∧ (run (start force) views).count .delay ≤ 1 ∧
    busy (run (start force) views) ≤ 2 := by
  have a := rotate_once views (start force) hc
  have b := delay_once views (start force)
  have b' : (run (start force) views).count .delay ≤ 1 := by
    cases h : (start force).allowDelay <;> simp [h] at b <;> omega
  exact ⟨a, b', by rw [busy_eq]; omega⟩

/-- **After its own rotation a call never waits**: every later iteration returns or is the one
sleep - the new memtable is empty, so there is room. -/
theorem C09_make_room_after_rotation (x : Vars) (hf : x.force = false) (vs : List View)
    (hc : Coherent true x vs) : ∀ b ∈ run x vs, b = .errBad ∨ b = .delay ∨ b = .proceed :=
  after_rotated x hf vs hc

/-- **The call blocks only where the scheduling protocol says a writer is blocked**: whenever an
iteration waits on the condition variable, `Rain.Sched.writerBlocked` holds of the state it read
(no sticky error, and an immutable memtable exists or level 0 is at the stop trigger) - the premise
under which `C09_no_sleeper_without_waker` guarantees a pending or running background task. -/
theorem C09_make_room_waits_only_when_blocked (x : Vars) (v : View) (p : Rain.Sched.Params)
    (s : Rain.Sched.State) (hp : p.l0Stop = L0_STOP_WRITES_TRIGGER)
    (hs : s.bad = v.bad ∧ s.imm = v.imm ∧ s.l0 = v.l0) (hw : waits (branch x v) = true) :
    Rain.Sched.writerBlocked p s = true := by
  obtain ⟨h1, h2, h3⟩ := hs
  unfold branch at hw
  unfold Rain.Sched.writerBlocked
  rw [h1, h2, h3, hp]
  by_cases hb : v.bad = true
  · simp [hb, waits] at hw
  · simp only [hb, if_false, Bool.false_eq_true] at hw
    split at hw
    · simp [waits] at hw
    · split at hw
      · simp [waits] at hw
      · by_cases hi : v.imm = true
        · simp [hb, hi]
        · simp only [hi, if_false, Bool.false_eq_true] at hw
          split at hw
          · rename_i h; simp [hb, h]
          · split at hw <;> simp [waits] at hw

/-- **A recorded background error ends the call at the next iteration**, whatever else the
iteration reads and whatever the loop variables are: the error test is the FIRST branch of the
chain, and every wake-up from a wait starts a new iteration (`run` feeds the next view to `branch`).
A writer that waits for a flush therefore comes back with the error once the flush has failed and
the worker has notified - the seeded change C09i (inner `while condition { wait }` loops that never
return to the head of the chain) is a different loop, and the scenario
`writer-waits-for-failing-flush` exhibits the hang on the real code. -/
theorem C09_make_room_reports_the_sticky_error (x : Vars) (v : View) (vs : List View)
    (hb : v.bad = true) : branch x v = .errBad ∧ run x (v :: vs) = [.errBad] := by
  have h : branch x v = .errBad := by simp [branch, hb]
  exact ⟨h, by simp [run, h, returns]⟩

/-- **A forced call never returns Ok without rotating**: the flush `compact_range` asks for really
happens (or an error is returned). -/
theorem C09_forced_call_rotates_before_ok (views : List View)
    (h : .proceed ∈ run (start true) views) : .rotate ∈ run (start true) views := by
  have key : ∀ (vs : List View) (x : Vars), x.force = true → .proceed ∈ run x vs → .rotate ∈ run x vs := by
    intro vs
    induction vs with
    | nil => intro x _ h; simp [run] at h
    | cons v vs ih =>
      intro x hf hmem
      have hnp : branch x v ≠ .proceed := by
        unfold branch
        simp only [hf, Bool.not_true, Bool.false_and, Bool.false_eq_true, if_false]
        repeat (first | split | simp)
      simp only [run] at hmem ⊢
      split at hmem
      · simp only [List.mem_singleton] at hmem; exact absurd hmem.symm hnp
      · rename_i hret
        simp only [hret, if_false, Bool.false_eq_true]
        rcases List.mem_cons.mp hmem with h' | h'
        · exact absurd h'.symm hnp
        · by_cases hr : branch x v = .rotate
          · simp [hr]
          · have : (after x (branch x v)).force = true := by
              cases hb : branch x v <;> simp_all [after]
            exact List.mem_cons_of_mem _ (ih _ this h')
  exact key views (start true) rfl h

/-- **"Already undergoing compaction" is unreachable** in a state where a previous WAL number
implies an immutable memtable (the field is a LevelDB legacy: nothing in this code base sets it
except the recovery of a manifest that recorded one; the hypothesis is checked on every iteration
the real code records). -/
theorem C09_prev_wal_error_unreachable (x : Vars) (v : View) (hinv : v.prevWal = true → v.imm = true) :
    branch x v ≠ .errPrevWal := by
  unfold branch
  split; · simp
  split; · simp
  split; · simp
  split; · simp
  split; · simp
  split
  · simp_all
  · simp

/-! ### non-vacuity (triggers of the source: slow-down at 8, stop at 12 level-0 files) -/

private def full : View := { bad := false, l0 := 9, fits := false, empty := false, imm := true, prevWal := true }

/-- a full memtable, nine level-0 files, a flush in progress: sleep, wait, (flush done) rotate,
    then the new empty memtable has room -/
example : run (start false)
    [full, full, { full with imm := false, prevWal := false },
     { full with imm := true, empty := true }] = [.delay, .waitImm, .rotate, .proceed] := by decide
example : Coherent false (start false)
    [full, full, { full with imm := false, prevWal := false }, { full with imm := true, empty := true }] := by
  simp [Coherent, branch, after, start, full, L0_SLOWDOWN_WRITES_TRIGGER, L0_STOP_WRITES_TRIGGER]
/-- a forced call on an empty memtable still rotates -/
example : run (start true) [{ full with l0 := 0, imm := false, prevWal := false, empty := true, fits := true },
    { full with l0 := 0, imm := true, empty := true, fits := true }] = [.rotate, .proceed] := by decide
/-- what D13 was: without the `empty` disjunct a memtable that never "fits" rotates again -/
example : branch { force := false, allowDelay := false }
    { bad := false, l0 := 0, fits := false, empty := true, imm := false, prevWal := false } = .proceed := by decide

end Rain.Props.MakeRoom
