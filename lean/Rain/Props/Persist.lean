import Rain.Lemmas.PersistTight
import Rain.Props.Lsm
import Rain.Props.Durable
/-
Property theorems of the PERSISTED system (`Rain/Persist.lean`): the LSM state machine and the
durability model composed.

`Rain/Props/Lsm.lean` proves what a running instance reads; `Rain/Props/Durable.lean` proves that
every prefix of a stream of filesystem operations accepted by the monitor recovers to the
acknowledged writes — but leaves the monitor's SEMANTIC conditions on manifest edits ("the
recovered contents do not change") to be checked on every real edit.  Here the two are joined:
when the LSM transitions are persisted in the order the code persists them, every operation is
accepted by the monitor, for every run — the semantic conditions FOLLOW from the LSM theorems —
and the image always recovers to exactly what the running instance reads.

Quantifiers: every action list (any writes, rotations, flushes to any admissible level, table
compactions with any admissible inputs and output cuts, trivial moves, manifest switches, reopens), every crash point between
two filesystem operations of the resulting stream.
-/
namespace Rain.Props.Persist
open Rain Rain.Lsm Rain.Durable Rain.Persist Rain.Persist.Lemmas Rain.Lsm.Lemmas

/-- one step, with everything the lemmas establish about it -/
theorem step_ok (p p' : PState) (a : PAction) (h : Rel p) (hs : pstep p a = some p') :
    StepOk p p' (opsOf p a) := by
  unfold pstep at hs
  cases a with
  | write ops =>
    simp only [lsmStep, PAction.toAction?, step, if_true, Option.some.injEq] at hs
    subst hs
    have := write_ok h ops
    exact this
  | rotate w =>
    simp only [lsmStep, PAction.toAction?, step] at hs
    split at hs
    · rename_i hx
      cases hst : stepRotate p.s with
      | none => rw [hst] at hs; cases hs
      | some s' =>
        rw [hst] at hs
        simp only [Option.some.injEq] at hs
        subst hs
        have hw : ∀ x ∈ p.d.wals, x.1 < w := by
          intro x hx'
          have := List.all_eq_true.mp hx x hx'
          simpa using this
        have := rotate_ok h w hw s' hst
        exact this
    · cases hs
  | flush num lvl =>
    simp only [lsmStep, PAction.toAction?, step, if_true] at hs
    cases hst : stepFlush p.s num lvl with
    | none => rw [hst] at hs; cases hs
    | some s' =>
      rw [hst] at hs
      simp only [Option.some.injEq] at hs
      subst hs
      have := flush_ok h num lvl s' hst
      exact this
  | compact c =>
    simp only [lsmStep, PAction.toAction?, step, if_true] at hs
    cases hst : stepCompact p.s c with
    | none => rw [hst] at hs; cases hs
    | some s' =>
      rw [hst] at hs
      simp only [Option.some.injEq] at hs
      subst hs
      have := compact_ok h c s' hst
      exact this
  | trivialMove num lvl =>
    simp only [lsmStep, PAction.toAction?, step, if_true] at hs
    cases hst : stepTrivialMove p.s num lvl with
    | none => rw [hst] at hs; cases hs
    | some s' =>
      rw [hst] at hs
      simp only [Option.some.injEq] at hs
      subst hs
      have := move_ok h num lvl s' hst
      exact this
  | switchManifest m' =>
    simp only [lsmStep, PAction.toAction?] at hs
    split at hs
    · rename_i hx
      simp only [Option.some.injEq] at hs
      subst hs
      have hf : ∀ x ∈ p.d.manifests, x.1 < m' := by
        intro x hx'
        have := List.all_eq_true.mp hx x hx'
        simpa using this
      have := switch_ok h m' hf
      exact this
    · cases hs
  | reopen t1 t2 w' m' =>
    simp only [lsmStep] at hs
    split at hs
    · rename_i hx
      cases hst : run p.s (reopenActions p.s t1 t2) with
      | none => rw [hst] at hs; cases hs
      | some s3 =>
        rw [hst] at hs
        simp only [Option.some.injEq] at hs
        subst hs
        rw [Bool.and_eq_true] at hx
        have hw : ∀ x ∈ p.d.wals, x.1 < w' := by
          intro x hx'
          have := List.all_eq_true.mp hx.1 x hx'
          simpa using this
        have hm : ∀ x ∈ p.d.manifests, x.1 < m' := by
          intro x hx'
          have := List.all_eq_true.mp hx.2 x hx'
          simpa using this
        have := reopen_ok h t1 t2 w' m' hw hm s3 hst
        exact this
    · cases hs

/-- **one step: the operations are accepted by the monitor, the correspondence is kept** -/
theorem C02_step_accepted (p p' : PState) (a : PAction) (h : Rel p) (hs : pstep p a = some p') :
    runOk p.d (opsOf p a) = some p'.d ∧ Rel p' :=
  ⟨(step_ok p p' a h hs).run, (step_ok p p' a h hs).rel⟩

/-- **C08 / C02 at every point INSIDE a step**: after the first `i` filesystem operations of any
action — i.e. when the `i+1`-th call fails, or the process dies there — the operations so far were
accepted by the monitor and the image corresponds to the instance state BEFORE the step or to the
state AFTER it (the switch is the manifest append, for a reopen the switch of CURRENT).  Whatever
the instance does with the failure, its memory and the disk describe the same database. -/
theorem C08_every_point_of_a_step_is_consistent (p p' : PState) (a : PAction) (h : Rel p)
    (hs : pstep p a = some p') (i : Nat) (hi : i ≤ (opsOf p a).length) :
    runOk p.d ((opsOf p a).take i) = some (((opsOf p a).take i).foldl apply p.d) ∧
    (Rel { s := p.s, d := ((opsOf p a).take i).foldl apply p.d, c := p.c } ∨
     Rel { s := p'.s, d := ((opsOf p a).take i).foldl apply p.d, c := p'.c }) := by
  have := (step_ok p p' a h hs).chain.prefix i hi
  exact ⟨this.2, this.1⟩

/-- … hence the image at that point recovers to what the instance reads before the step or to what
it reads after it -/
theorem C08_image_inside_a_step_is_what_is_read (p p' : PState) (a : PAction) (h : Rel p)
    (hs : pstep p a = some p') (i : Nat) (hi : i ≤ (opsOf p a).length) :
    ∃ r, recover (((opsOf p a).take i).foldl apply p.d) = some r ∧
      ((∀ k, latest r.entries k = dbGet p.s k p.s.lastSeq) ∨
       (∀ k, latest r.entries k = dbGet p'.s k p'.s.lastSeq)) := by
  rcases (C08_every_point_of_a_step_is_consistent p p' a h hs i hi).2 with hr | hr
  · obtain ⟨r, h1, h2⟩ := rel_reads hr
    exact ⟨r, h1, Or.inl h2⟩
  · obtain ⟨r, h1, h2⟩ := rel_reads hr
    exact ⟨r, h1, Or.inr h2⟩

/-- **every run: the whole operation stream is accepted by the monitor** -/
theorem C02_run_accepted (as : List PAction) (p p' : PState) (h : Rel p) (hr : prun p as = some p') :
    runOk p.d (streamOf p as) = some p'.d ∧ Rel p' := by
  induction as generalizing p with
  | nil =>
    simp only [prun, Option.some.injEq] at hr
    subst hr
    exact ⟨rfl, h⟩
  | cons a rest ih =>
    simp only [prun] at hr
    cases hst : pstep p a with
    | none => rw [hst] at hr; cases hr
    | some p1 =>
      rw [hst] at hr
      obtain ⟨h1, hR1⟩ := C02_step_accepted p p1 a h hst
      obtain ⟨h2, hR2⟩ := ih p1 hR1 hr
      refine ⟨?_, hR2⟩
      simp only [streamOf, hst]
      rw [runOk_append h1]; exact h2

/-- **the image recovers to exactly what the running instance reads** -/
theorem C02_image_is_what_is_read (p : PState) (h : Rel p) :
    ∃ r, recover p.d = some r ∧ ∀ k, latest r.entries k = dbGet p.s k p.s.lastSeq :=
  rel_reads h

theorem pstep_step {p p1 : PState} {a : PAction} (h : pstep p a = some p1) :
    lsmStep p.s a = some p1.s := by
  cases hq : lsmStep p.s a with
  | none =>
    unfold pstep at h
    rw [hq] at h
    cases a <;> simp at h
  | some s' =>
    unfold pstep at h
    rw [hq] at h
    cases a <;> simp at h
    all_goals first
      | (obtain ⟨_, h⟩ := h; subst h; rfl)
      | (subst h; rfl)

/-- the LSM actions of one persisted action in a given state (a manifest switch has none; a
reopen is the run that puts both memtables into level-0 tables) -/
def lsmActionsOf (s : State) : PAction → List Action
  | .reopen t1 t2 _ _ => reopenActions s t1 t2
  | a => match a.toAction? with
    | some x => [x]
    | none => []

/-- the LSM actions of a persisted run -/
def lsmTrace (p : PState) : List PAction → List Action
  | [] => []
  | a :: rest => match pstep p a with
    | some p' => lsmActionsOf p.s a ++ lsmTrace p' rest
    | none => []

theorem run_append {s s1 : State} {a b : List Action} (h : run s a = some s1) :
    run s (a ++ b) = run s1 b := by
  induction a generalizing s with
  | nil => simp only [run, Option.some.injEq] at h; subst h; rfl
  | cons x rest ih =>
    simp only [List.cons_append, run] at h ⊢
    cases hx : step s x with
    | none => rw [hx] at h; cases h
    | some s' => rw [hx] at h; exact ih h

theorem lsmStep_run {s s1 : State} {a : PAction} (h : lsmStep s a = some s1) :
    run s (lsmActionsOf s a) = some s1 := by
  cases a with
  | reopen t1 t2 w m => exact h
  | write ops =>
    simp only [lsmStep, PAction.toAction?] at h
    simp only [lsmActionsOf, PAction.toAction?, run, h]
  | rotate w =>
    simp only [lsmStep, PAction.toAction?] at h
    simp only [lsmActionsOf, PAction.toAction?, run, h]
  | flush n l =>
    simp only [lsmStep, PAction.toAction?] at h
    simp only [lsmActionsOf, PAction.toAction?, run, h]
  | compact c =>
    simp only [lsmStep, PAction.toAction?] at h
    simp only [lsmActionsOf, PAction.toAction?, run, h]
  | trivialMove n l =>
    simp only [lsmStep, PAction.toAction?] at h
    simp only [lsmActionsOf, PAction.toAction?, run, h]
  | switchManifest m =>
    simp only [lsmStep, PAction.toAction?, Option.some.injEq] at h
    subst h
    simp [lsmActionsOf, PAction.toAction?, run]

/-- the LSM part of a persisted run is a run of the LSM model -/
theorem prun_run (as : List PAction) (p p' : PState) (hr : prun p as = some p') :
    run p.s (lsmTrace p as) = some p'.s := by
  induction as generalizing p with
  | nil => simp only [prun, Option.some.injEq] at hr; subst hr; rfl
  | cons a rest ih =>
    simp only [prun] at hr
    cases hst : pstep p a with
    | none => rw [hst] at hr; cases hr
    | some p1 =>
      rw [hst] at hr
      simp only [lsmTrace, hst]
      rw [run_append (lsmStep_run (pstep_step hst))]
      exact ih p1 hr

/-- **a step that is not a write changes nothing that is read**: flushes, compactions, moves,
manifest switches and reopens leave every key's value as it was (C07 on the composed model; with
the two theorems above: a failure anywhere inside background work loses nothing acknowledged) -/
theorem C08_background_step_reads_unchanged (p p' : PState) (a : PAction) (h : Rel p)
    (hs : pstep p a = some p') (hbg : ∀ ops, a ≠ .write ops) (k : Bytes) :
    dbGet p'.s k p'.s.lastSeq = dbGet p.s k p.s.lastSeq := by
  have hl := pstep_step hs
  cases a with
  | write ops => exact absurd rfl (hbg ops)
  | rotate w =>
    simp only [lsmStep, PAction.toAction?] at hl
    exact step_get h.inv hl rfl k
  | flush n l =>
    simp only [lsmStep, PAction.toAction?] at hl
    exact step_get h.inv hl rfl k
  | compact c =>
    simp only [lsmStep, PAction.toAction?] at hl
    exact step_get h.inv hl rfl k
  | trivialMove n l =>
    simp only [lsmStep, PAction.toAction?] at hl
    exact step_get h.inv hl rfl k
  | switchManifest m =>
    simp only [lsmStep, PAction.toAction?, Option.some.injEq] at hl
    rw [← hl]
  | reopen t1 t2 w m =>
    simp only [lsmStep] at hl
    exact (reopen_lsm h.inv hl).get k

/-- **a crash (or a failing call) at ANY point inside ANY step, followed by a reopen**: the image
corresponds to the state `q` before or after the interrupted step; whenever the reopen of that
image is enabled (fresh file numbers), the recovered instance is again in correspondence with its
image and reads exactly what `q` read — so the run continues under all theorems of this file, for
any number of crash / recover rounds. -/
theorem C02_crash_inside_a_step_then_reopen (p p' : PState) (a : PAction) (h : Rel p)
    (hs : pstep p a = some p') (i : Nat) (hi : i ≤ (opsOf p a).length) :
    ∃ q : PState, (q.s = p.s ∧ q.c = p.c ∨ q.s = p'.s ∧ q.c = p'.c) ∧
      q.d = ((opsOf p a).take i).foldl apply p.d ∧ Rel q ∧
      ∀ (t1 t2 w' m' : Nat) (pr : PState), pstep q (.reopen t1 t2 w' m') = some pr →
        Rel pr ∧ ∀ k, dbGet pr.s k pr.s.lastSeq = dbGet q.s k q.s.lastSeq := by
  rcases (C08_every_point_of_a_step_is_consistent p p' a h hs i hi).2 with hr | hr
  · refine ⟨{ s := p.s, d := ((opsOf p a).take i).foldl apply p.d, c := p.c }, Or.inl ⟨rfl, rfl⟩, rfl, hr, ?_⟩
    intro t1 t2 w' m' pr hp
    exact ⟨(C02_step_accepted _ pr _ hr hp).2,
      C08_background_step_reads_unchanged _ pr _ hr hp (fun ops => by simp)⟩
  · refine ⟨{ s := p'.s, d := ((opsOf p a).take i).foldl apply p.d, c := p'.c }, Or.inr ⟨rfl, rfl⟩, rfl, hr, ?_⟩
    intro t1 t2 w' m' pr hp
    exact ⟨(C02_step_accepted _ pr _ hr hp).2,
      C08_background_step_reads_unchanged _ pr _ hr hp (fun ops => by simp)⟩

/-- a freshly created database is in correspondence with the empty LSM state -/
theorem fresh_rel (m w : Nat) : Rel (pinit m w) := by
  have hlv : ∀ j, lv init.levels j = [] := by
    intro j
    simp only [lv, init, List.getD_eq_getElem?_getD, List.getElem?_replicate]
    split <;> rfl
  have hs : (pinit m w).s = init := rfl
  refine { inv := (inv_iff init).mp Rain.Lsm.inv_init, wf := ?_, cur := rfl, edits := ?_, tables := ?_,
           walMem := ?_, walImm := Or.inl ⟨rfl, rfl⟩, others := ?_, walMax := ?_,
           manLe := by simp [Ctx.w0, pinit] }
  · simp [WF, pinit]
  · refine ⟨[{ walNumber := some w, added := [], deleted := [] }], by simp [pinit, lookup],
      by simp [walNoOf, pinit], ?_⟩
    intro q
    simp only [versionOf, List.foldl_cons, List.foldl_nil, List.filter_nil, List.append_nil,
      List.not_mem_nil, false_iff]
    rintro ⟨f, hf, _⟩
    rw [hs, hlv q.1] at hf; cases hf
  · intro l f hf
    rw [hs, hlv l] at hf; cases hf
  · exact ⟨[], by simp [pinit, lookup], by intro e; simp [batchesFlat, pinit, init]⟩
  · intro x hx
    simp [pinit] at hx; subst hx; exact Or.inl rfl
  · intro x hx
    simp [pinit] at hx; subst hx; exact Or.inl (Nat.le_refl _)

/-- **C01 + C02 composed: after ANY run of the persisted system the image on disk recovers to the
most recent write of every key** -/
theorem C02_persisted_image_holds_latest_writes (m w : Nat) (as : List PAction) (p : PState)
    (hr : prun (pinit m w) as = some p) :
    ∃ r, recover p.d = some r ∧ ∀ k, latest r.entries k = specOf (lsmTrace (pinit m w) as) k := by
  obtain ⟨_, hR⟩ := C02_run_accepted as (pinit m w) p (fresh_rel m w) hr
  obtain ⟨r, hrec, hl⟩ := rel_reads hR
  refine ⟨r, hrec, fun k => ?_⟩
  rw [hl k]
  exact C01_reads_latest _ p.s (prun_run as (pinit m w) p hr) k

/-- **C02 for the persisted LSM: a crash between ANY two filesystem operations of ANY run leaves an
image that recovers to exactly the batches whose WAL append completed** -/
theorem C02_persisted_every_crash_point_recovers (m w : Nat) (as : List PAction) (p : PState)
    (hr : prun (pinit m w) as = some p) (i : Nat) (hi : i ≤ (streamOf (pinit m w) as).length) :
    ∃ di, runOk (pinit m w).d ((streamOf (pinit m w) as).take i) = some di ∧
      Safe di (acked ((streamOf (pinit m w) as).take i)) := by
  obtain ⟨hrun, _⟩ := C02_run_accepted as (pinit m w) p (fresh_rel m w) hr
  have h0 : Safe (pinit m w).d [] := by
    obtain ⟨r, hrec, hl⟩ := rel_reads (fresh_rel m w)
    refine ⟨(fresh_rel m w).wf, r, hrec, fun k => ?_⟩
    rw [hl k]
    have := C01_reads_latest [] init rfl k
    simpa [specOf, specOfBatches, pinit] using this
  have := C02_every_prefix_recovers (pinit m w).d [] h0 _ p.d hrun i hi
  simpa using this

/-! ### C11 over the composed model -/

/-- **one step keeps the directory exact**: exactly the tables of the version, the WALs of the two
memtables and the current manifest are on disk after the operations of the step -/
theorem C11_step_keeps_directory_exact (p p' : PState) (a : PAction) (h : Rel p) (t : Tight p)
    (hs : pstep p a = some p') : Tight p' := by
  unfold pstep at hs
  cases a with
  | write ops =>
    simp only [lsmStep, PAction.toAction?, step, if_true, Option.some.injEq] at hs
    subst hs; exact tight_write t ops
  | rotate w =>
    simp only [lsmStep, PAction.toAction?, step] at hs
    split at hs
    · cases hst : stepRotate p.s with
      | none => rw [hst] at hs; cases hs
      | some s' =>
        rw [hst] at hs
        simp only [Option.some.injEq] at hs
        subst hs; exact tight_rotate t h w s' hst
    · cases hs
  | flush num lvl =>
    simp only [lsmStep, PAction.toAction?, step, if_true] at hs
    cases hst : stepFlush p.s num lvl with
    | none => rw [hst] at hs; cases hs
    | some s' =>
      rw [hst] at hs
      simp only [Option.some.injEq] at hs
      subst hs; exact tight_flush t h num lvl s' hst
  | compact c =>
    simp only [lsmStep, PAction.toAction?, step, if_true] at hs
    cases hst : stepCompact p.s c with
    | none => rw [hst] at hs; cases hs
    | some s' =>
      rw [hst] at hs
      simp only [Option.some.injEq] at hs
      subst hs; exact tight_compact t h c s' hst
  | trivialMove num lvl =>
    simp only [lsmStep, PAction.toAction?, step, if_true] at hs
    cases hst : stepTrivialMove p.s num lvl with
    | none => rw [hst] at hs; cases hs
    | some s' =>
      rw [hst] at hs
      simp only [Option.some.injEq] at hs
      subst hs; exact tight_move t h num lvl s' hst
  | switchManifest m' =>
    simp only [lsmStep, PAction.toAction?] at hs
    split at hs
    · rename_i hx
      simp only [Option.some.injEq] at hs
      subst hs
      obtain ⟨es, hes, _, _⟩ := h.edits
      have hlt := List.all_eq_true.mp hx _ (Rain.Durable.Lemmas.mem_of_lookup _ _ _ hes)
      have hne : p.c.manifest ≠ m' := by
        have : p.c.manifest < m' := by simpa using hlt
        omega
      exact tight_switch t h m' hne
    · cases hs
  | reopen t1 t2 w' m' =>
    simp only [lsmStep] at hs
    split at hs
    · rename_i hx
      cases hst : run p.s (reopenActions p.s t1 t2) with
      | none => rw [hst] at hs; cases hs
      | some s3 =>
        rw [hst] at hs
        simp only [Option.some.injEq] at hs
        subst hs
        rw [Bool.and_eq_true] at hx
        have hw : ∀ x ∈ p.d.wals, x.1 < w' := by
          intro x hx'
          have := List.all_eq_true.mp hx.1 x hx'
          simpa using this
        obtain ⟨es, hes, _, _⟩ := h.edits
        have hlt := List.all_eq_true.mp hx.2 _ (Rain.Durable.Lemmas.mem_of_lookup _ _ _ hes)
        have hne : p.c.manifest ≠ m' := by
          have : p.c.manifest < m' := by simpa using hlt
          omega
        exact tight_reopen t h t1 t2 w' m' hw hne s3 hst
    · cases hs

theorem fresh_tight (m w : Nat) : Tight (pinit m w) := by
  have hlv : ∀ j, lv init.levels j = [] := by
    intro j
    simp only [lv, init, List.getD_eq_getElem?_getD, List.getElem?_replicate]
    split <;> rfl
  refine ⟨?_, ?_, ?_⟩
  · intro t
    simp only [pinit, keys, List.map_nil, List.not_mem_nil, false_iff]
    rintro ⟨l, f, hf, _⟩
    rw [hlv l] at hf; cases hf
  · intro n; simp [pinit, keys]
  · intro k; simp [pinit, keys]

/-- **C11 for the persisted LSM: after every action of every run — writes, rotations, flushes,
compactions, trivial moves, manifest switches, reopens — the directory holds exactly CURRENT's
manifest, the WALs of the memtable and of the immutable memtable, and the table files of the
current version: nothing needed is missing (`Rel`), nothing dead is kept (`Tight`).**  (In the
model the removals are part of the step; the real code defers them to the next
`remove_obsolete_files` pass, see the known finding about lingering files.) -/
theorem C11_persisted_directory_exact (m w : Nat) (as : List PAction) (p : PState)
    (hr : prun (pinit m w) as = some p) :
    (∀ t, t ∈ p.d.tables.map Prod.fst ↔ ∃ l f, f ∈ lv p.s.levels l ∧ f.num = t) ∧
    (∀ n, n ∈ p.d.wals.map Prod.fst ↔ n = p.c.wal ∨ some n = p.c.immWal) ∧
    (∀ k, k ∈ p.d.manifests.map Prod.fst ↔ k = p.c.manifest) ∧
    p.d.current = some p.c.manifest := by
  have key : ∀ (as : List PAction) (q : PState), Rel q → Tight q → prun q as = some p → Rel p ∧ Tight p := by
    intro as
    induction as with
    | nil => intro q hq tq h; simp only [prun, Option.some.injEq] at h; subst h; exact ⟨hq, tq⟩
    | cons a rest ih =>
      intro q hq tq h
      simp only [prun] at h
      cases hst : pstep q a with
      | none => rw [hst] at h; cases h
      | some q1 =>
        rw [hst] at h
        exact ih q1 (C02_step_accepted q q1 a hq hst).2 (C11_step_keeps_directory_exact q q1 a hq tq hst) h
  obtain ⟨hR, hT⟩ := key as (pinit m w) (fresh_rel m w) (fresh_tight m w) hr
  exact ⟨hT.tables, hT.wals, hT.manifests, hR.cur⟩

/-! ### non-vacuity: a run with writes, a rotation, a flush, a second flush and a trivial move -/

private def exRun : List PAction :=
  [.write [([107], some [1]), ([108], some [2])], .rotate 3, .write [([110], none)], .flush 4 0,
   .rotate 5, .flush 6 0, .trivialMove 4 0, .switchManifest 7, .write [([111], some [3])],
   .reopen 8 9 10 11]

example : (prun (pinit 1 2) exRun).isSome = true := by decide +kernel
example : (streamOf (pinit 1 2) exRun).length = 24 := by decide +kernel
example : ((prun (pinit 1 2) exRun).map fun p =>
      (p.d.current, p.d.manifests.map Prod.fst, p.d.wals.map Prod.fst, p.d.tables.map Prod.fst)) =
    some (some 11, [11], [10], [4, 6, 9]) := by decide +kernel

end Rain.Props.Persist
