import Rain.Proto
import Rain.ProtoSpec
import Rain.Lemmas.Proto
/-
Property theorems over the protocol model (`Rain/Proto.lean`): C06 (batch atomicity), the
write-path half of C05 (exactly once, own outcome, consecutive sequence numbers, stable read
cuts), the progress half of C09 for writers, and C17 (lock ownership).
Quantifiers: every reachable state, i.e. every interleaving of enqueues by any number of client
threads with the leader's steps (any group size, any batch sizes including empty and huge ones),
and every moment at which a reader takes its cut.
-/
namespace Rain.Proto

-- `Reachable` (∃ steps, run init steps = some s) is defined in `Rain/ProtoSpec.lean`

/-- **C06: a read cut never falls inside a batch.** Whatever the moment, the published sequence
number is below the first or at/after the last sequence number of every batch that has been
assigned a range — in flight (before the WAL append, after it, between any two memtable
insertions, after the last one) or acknowledged. -/
theorem C06_cut_never_inside_a_batch (s : State) (h : Reachable s) (p : Placed)
    (hp : p ∈ inflight s ∨ p ∈ s.done) :
    s.lastSeq < p.start ∨ p.start + p.n ≤ s.lastSeq + 1 :=
  Lemmas.cut_never_inside s h p hp

/-- an acknowledged batch is entirely visible to every later cut … -/
theorem C06_done_visible (s : State) (h : Reachable s) (p : Placed) (hp : p ∈ s.done) :
    ∀ e ∈ entriesOf p, e ∈ visible s s.lastSeq :=
  Lemmas.done_visible s h p hp

/-- … and a batch in flight is entirely invisible, however many of its entries are already in
the memtable -/
theorem C06_inflight_invisible (s : State) (h : Reachable s) (p : Placed) (hp : p ∈ inflight s) :
    ∀ e ∈ entriesOf p, e ∉ visible s s.lastSeq :=
  Lemmas.inflight_invisible s h p hp

/-- **C06 as stated: all or nothing**, also for batches merged into one group commit -/
theorem C06_all_or_nothing (s : State) (h : Reachable s) (p : Placed)
    (hp : p ∈ inflight s ∨ p ∈ s.done) :
    (∀ e ∈ entriesOf p, e ∈ visible s s.lastSeq) ∨ (∀ e ∈ entriesOf p, e ∉ visible s s.lastSeq) := by
  cases hp with
  | inl hi => exact Or.inr (C06_inflight_invisible s h p hi)
  | inr hd => exact Or.inl (C06_done_visible s h p hd)

/-- **C05/C03: a cut is stable.** A reader that took its cut `q` keeps seeing exactly the same
entries while any number of later writes are queued, logged, inserted and published (the memtable
it reads is live, but everything inserted later carries a larger sequence number). -/
theorem C05_cut_stable (s s' : State) (h : Reachable s) (steps : List Step)
    (hr : run s steps = some s') (q : Nat) (hq : q ≤ s.lastSeq) :
    visible s' q = visible s q :=
  Lemmas.cut_stable s s' h steps hr q hq

/-- **C05: every queued write is applied exactly once, in queue order, with consecutive sequence
numbers.** The acknowledged batches, then the group in flight, then the rest of the queue are
exactly the enqueued batches in order of arrival; the acknowledged ones occupy `1 … lastSeq`
without gap or overlap. -/
theorem C05_exactly_once_in_order (s : State) (h : Reachable s) :
    (s.done.map Placed.id) ++ (s.queue.map Batch.id) = List.range s.nextId ∧
    (inflight s).map Placed.id = (s.queue.take (inflight s).length).map Batch.id ∧
    s.done = place 1 (s.done.map fun p => { id := p.id, n := p.n }) ∧
    s.lastSeq = groupSize s.done :=
  Lemmas.exactly_once s h

/-- write-ahead: every entry in the memtable belongs to a group whose WAL record was appended
before -/
theorem C05_wal_before_memtable (s : State) (h : Reachable s) :
    ∀ e ∈ s.mem, ∃ g ∈ s.wal, e ∈ groupEntries g :=
  Lemmas.wal_before_mem s h

/-- the memtable holds exactly the entries of the acknowledged batches plus an initial segment of
the group in flight -/
theorem C05_memtable_contents (s : State) (h : Reachable s) :
    ∃ k, s.mem = groupEntries s.done ++ (groupEntries (inflight s)).take k :=
  Lemmas.mem_contents s h

/-- **C09 (writers): no stuck state.** Whenever a write is queued or in progress, the leader has
an enabled step, and the number of leader steps needed to drain the queue is bounded by the
work queued. -/
theorem C09_writer_progress (s : State) (h : Reachable s) (hw : s.queue ≠ []) :
    ∃ a s', (match a with | Step.enqueue _ => False | _ => True) ∧ step s a = some s' :=
  Lemmas.writer_progress s h hw

/-! ### C17 -/

-- `LReachable` (∃ as, lrun linit as = s) is defined in `Rain/ProtoSpec.lean`

/-- at most one instance owns the database, and it is the lock holder -/
theorem C17_single_owner (s : LState) (h : LReachable s) :
    s.openInst = (match s.holder with | some i => [i] | none => []) :=
  Lemmas.single_owner s h

/-- opening a database that is open fails and leaves the owner untouched -/
theorem C17_open_while_open_fails (s : LState) (i : Nat) (h : s.holder.isSome = true) :
    (lstep s (.tryOpen i)).holder = s.holder ∧ (lstep s (.tryOpen i)).openInst = s.openInst ∧
    (lstep s (.tryOpen i)).intact = s.intact ∧
    (lstep s (.tryOpen i)).log = s.log ++ [(.tryOpen i, false)] :=
  Lemmas.open_while_open_fails s i h

/-- destroy_database refuses while the database is open and deletes nothing -/
theorem C17_destroy_refuses (s : LState) (h : s.holder.isSome = true) :
    (lstep s .destroy).intact = s.intact ∧ (lstep s .destroy).holder = s.holder ∧
    (lstep s .destroy).log = s.log ++ [(.destroy, false)] :=
  Lemmas.destroy_refuses s h

/-- after the owner closed, of any non-empty set of racing open attempts — in whatever order the
operating system serves them — exactly one succeeds -/
theorem C17_one_winner (s : LState) (h : s.holder = none) (attempts : List Nat) (hne : attempts ≠ []) :
    (((lrun s (attempts.map LAction.tryOpen)).log.drop s.log.length).filter (fun e => e.2)).length = 1 :=
  Lemmas.one_winner s h attempts hne

/-! ### non-vacuity -/
-- (as originally written, `by decide` failed with "failed to synthesize Decidable": the
-- `DecidableEq` instance of the nested 4-tuple type exceeds the default `synthInstance.maxSize`
-- of 128; the statement is unchanged, only the instance size limit is raised)
set_option synthInstance.maxSize 1024 in
example :
    (run init [.enqueue 2, .enqueue 0, .enqueue 3, .begin 2, .walAppend, .insert]).map
      (fun s => (s.lastSeq, s.mem, (inflight s).map (fun p => (p.id, p.start, p.n)), visible s s.lastSeq))
    = some (0, [(1, 0)], [(0, 1, 2), (1, 3, 0)], []) := by decide

end Rain.Proto
