import Rain.Snap
import Rain.Props.Lsm
/-
C03 with the snapshot list in the model (`Rain/Snap.lean`): what `C03_snapshot_stable` assumes
about compactions is here a consequence of how the smallest snapshot is obtained.
-/
namespace Rain.Props.Snap
open Rain Rain.Lsm Rain.Snap Rain.Lsm.Lemmas

/-- the invariant of the snapshot list: ordered by sequence number, nothing from the future,
identities distinct and already allocated -/
structure SInv (s : SState) : Prop where
  lsm : Inv s.lsm
  sorted : s.snaps.Pairwise fun a b => a.2 ≤ b.2
  past : ∀ x ∈ s.snaps, x.2 ≤ s.lsm.lastSeq
  ids : ∀ x ∈ s.snaps, x.1 < s.nextId
  nodup : (s.snaps.map Prod.fst).Nodup

theorem sinit_inv : SInv sinit := by
  refine { lsm := Rain.Lsm.inv_init, sorted := List.Pairwise.nil, past := ?_, ids := ?_, nodup := List.nodup_nil }
  · intro x hx; cases hx
  · intro x hx; cases hx

theorem lastSeq_mono {s s' : State} {a : Action} (hs : step s a = some s') : s.lastSeq ≤ s'.lastSeq := by
  cases a with
  | write ops =>
    simp only [step, Option.some.injEq] at hs
    subst hs
    show s.lastSeq ≤ s.lastSeq + ops.length
    omega
  | rotate => rw [step_lastSeq hs rfl]; exact Nat.le_refl _
  | flush n l => rw [step_lastSeq hs rfl]; exact Nat.le_refl _
  | compact c => rw [step_lastSeq hs rfl]; exact Nat.le_refl _
  | trivialMove n l => rw [step_lastSeq hs rfl]; exact Nat.le_refl _

theorem sstep_inv {s s' : SState} {a : SAction} (h : SInv s) (hs : sstep s a = some s') : SInv s' := by
  cases a with
  | lsm act =>
    simp only [sstep] at hs
    split at hs
    · cases hst : step s.lsm act with
      | none => rw [hst] at hs; cases hs
      | some l =>
        rw [hst] at hs
        simp only [Option.map_some, Option.some.injEq] at hs
        subst hs
        exact { lsm := Rain.Lsm.step_inv s.lsm l act h.lsm hst, sorted := h.sorted,
                past := fun x hx => Nat.le_trans (h.past x hx) (lastSeq_mono hst),
                ids := h.ids, nodup := h.nodup }
    · cases hs
  | take =>
    simp only [sstep, Option.some.injEq] at hs
    subst hs
    refine { lsm := h.lsm, sorted := ?_, past := ?_, ids := ?_, nodup := ?_ }
    · rw [List.pairwise_append]
      refine ⟨h.sorted, List.pairwise_singleton _ _, ?_⟩
      intro a ha b hb
      simp only [List.mem_singleton] at hb
      subst hb
      exact h.past a ha
    · intro x hx
      rcases List.mem_append.mp hx with hx | hx
      · exact h.past x hx
      · simp only [List.mem_singleton] at hx; subst hx; exact Nat.le_refl _
    · intro x hx
      rcases List.mem_append.mp hx with hx | hx
      · have := h.ids x hx; show x.1 < s.nextId + 1; omega
      · simp only [List.mem_singleton] at hx; subst hx; show s.nextId < s.nextId + 1; omega
    · rw [List.map_append, List.nodup_append]
      refine ⟨h.nodup, by simp, ?_⟩
      intro a ha b hb
      simp only [List.map_cons, List.map_nil, List.mem_singleton] at hb
      subst hb
      obtain ⟨x, hx, rfl⟩ := List.mem_map.mp ha
      have := h.ids x hx
      omega
  | release id =>
    simp only [sstep, Option.some.injEq] at hs
    subst hs
    exact { lsm := h.lsm, sorted := List.Pairwise.sublist List.filter_sublist h.sorted,
            past := fun x hx => h.past x (List.mem_filter.mp hx).1,
            ids := fun x hx => h.ids x (List.mem_filter.mp hx).1,
            nodup := List.Nodup.sublist (List.Sublist.map _ List.filter_sublist) h.nodup }

theorem srun_inv {s s' : SState} {as : List SAction} (h : SInv s) (hr : srun s as = some s') : SInv s' := by
  induction as generalizing s with
  | nil => simp only [srun, Option.some.injEq] at hr; subst hr; exact h
  | cons a rest ih =>
    simp only [srun] at hr
    cases hst : sstep s a with
    | none => rw [hst] at hr; cases hr
    | some s1 => rw [hst] at hr; exact ih (sstep_inv h hst) hr

/-- the oldest snapshot is not newer than any live one -/
theorem smallest_le_live {s : SState} (h : SInv s) {x : Nat × Nat} (hx : x ∈ s.snaps) :
    smallestSnapshot s ≤ x.2 := by
  unfold smallestSnapshot
  cases hl : s.snaps with
  | nil => rw [hl] at hx; cases hx
  | cons y rest =>
    rw [hl] at hx
    rcases List.mem_cons.mp hx with rfl | hx
    · exact Nat.le_refl _
    · have := h.sorted
      rw [hl] at this
      exact (List.pairwise_cons.mp this).1 x hx

/-- **`SnapshotList::new_snapshot`'s assertion never fires** (C09: no panic in `get_snapshot`) -/
theorem C09_new_snapshot_assertion_holds (as : List SAction) (s : SState) (hr : srun sinit as = some s) :
    newSnapshotAssertion s = true := by
  have h := srun_inv sinit_inv hr
  unfold newSnapshotAssertion
  cases hl : s.snaps.getLast? with
  | none => rfl
  | some x =>
    have hx : x ∈ s.snaps := List.mem_of_getLast? hl
    simpa using h.past x hx

/-- one step does not change what a live snapshot sees -/
theorem sstep_snapshot_stable {s s' : SState} {a : SAction} (h : SInv s) (hs : sstep s a = some s')
    (j q : Nat) (hj : (j, q) ∈ s.snaps) (hnot : a ≠ .release j) (k : Bytes) :
    (j, q) ∈ s'.snaps ∧ dbGet s'.lsm k q = dbGet s.lsm k q := by
  cases a with
  | lsm act =>
    simp only [sstep] at hs
    split at hs
    · rename_i hf
      cases hst : step s.lsm act with
      | none => rw [hst] at hs; cases hs
      | some l =>
        rw [hst] at hs
        simp only [Option.map_some, Option.some.injEq] at hs
        subst hs
        refine ⟨hj, ?_⟩
        have hrun : run s.lsm [act] = some l := by simp [run, hst]
        apply C03_snapshot_stable s.lsm l [act] h.lsm hrun q (h.past _ hj)
        intro a ha
        simp only [List.mem_singleton] at ha
        subst ha
        cases a with
        | compact c =>
          simp only [floorOk, beq_iff_eq] at hf
          show c.smallestSnapshot ≤ q
          rw [hf]
          exact smallest_le_live h hj
        | write ops => exact Nat.zero_le _
        | rotate => exact Nat.zero_le _
        | flush n l => exact Nat.zero_le _
        | trivialMove n l => exact Nat.zero_le _
    · cases hs
  | take =>
    simp only [sstep, Option.some.injEq] at hs
    subst hs
    exact ⟨List.mem_append.mpr (Or.inl hj), rfl⟩
  | release id =>
    simp only [sstep, Option.some.injEq] at hs
    subst hs
    refine ⟨List.mem_filter.mpr ⟨hj, ?_⟩, rfl⟩
    have : id ≠ j := fun e => hnot (by rw [e])
    simp [this.symm]

/-- **C03 with the snapshot list modelled: a snapshot that is not released keeps seeing exactly the
state at its creation** — through any number of writes, rotations, flushes, trivial moves and
table compactions (each using the smallest snapshot the list yields when it starts), and while
other snapshots are taken and released in any order. -/
theorem C03_live_snapshot_is_stable (s s' : SState) (as : List SAction) (h : SInv s)
    (hr : srun s as = some s') (j q : Nat) (hj : (j, q) ∈ s.snaps)
    (hnot : ∀ a ∈ as, a ≠ .release j) (k : Bytes) :
    dbGet s'.lsm k q = dbGet s.lsm k q := by
  induction as generalizing s with
  | nil => simp only [srun, Option.some.injEq] at hr; subst hr; rfl
  | cons a rest ih =>
    simp only [srun] at hr
    cases hst : sstep s a with
    | none => rw [hst] at hr; cases hr
    | some s1 =>
      rw [hst] at hr
      obtain ⟨hj1, hg1⟩ := sstep_snapshot_stable h hst j q hj (hnot a List.mem_cons_self) k
      rw [ih s1 (sstep_inv h hst) hr hj1 (fun b hb => hnot b (List.mem_cons_of_mem _ hb)), hg1]

/-- … from the moment it is taken: the snapshot returned by `get_snapshot` in state `s` reads, for
ever, what a get at the latest sequence number read at that moment -/
theorem C03_snapshot_sees_state_at_creation (s s1 s' : SState) (as : List SAction) (h : SInv s)
    (ht : sstep s .take = some s1) (hr : srun s1 as = some s')
    (hnot : ∀ a ∈ as, a ≠ .release s.nextId) (k : Bytes) :
    dbGet s'.lsm k s.lsm.lastSeq = dbGet s.lsm k s.lsm.lastSeq := by
  have h1 := sstep_inv h ht
  simp only [sstep, Option.some.injEq] at ht
  subst ht
  exact C03_live_snapshot_is_stable _ s' as h1 hr s.nextId s.lsm.lastSeq
    (List.mem_append.mpr (Or.inr (List.mem_singleton.mpr rfl))) hnot k

/-! ### non-vacuity -/
private def exActs : List SAction :=
  [.lsm (.write [([107], some [1])]), .take, .lsm (.write [([107], some [2])]), .take, .release 0,
   .lsm .rotate, .lsm (.flush 5 0), .take]

example : ((srun sinit exActs).map fun s => s.snaps) = some [(1, 2), (2, 2)] := by decide +kernel

end Rain.Props.Snap
