import Rain.Potential
import Rain.LsmSpec
import Rain.Lemmas.Potential
/-
C09 — "Compaction terminates": table work (table compactions and trivial moves) cannot go on for
ever without new data.  Model: `Rain/Lsm.lean`, potential: `Rain/Potential.lean`, helper lemmas:
`Rain/Lemmas/Potential.lean`.

Every stored entry weighs the number of levels still below it (`6 - level`; `6` in the memtable
and in the immutable memtable).  Quantifiers: every state satisfying the invariant, every valid
table compaction (any level, any admissible choice of inputs, any smallest snapshot, any cut of
the output into files), every trivial move, every flush to any admissible level, every batch, and
every interleaving of them.  No size threshold appears, so every `DbOptions` is covered.
-/
namespace Rain.Potential
open Rain Rain.Lsm

/-- **A table compaction strictly decreases the potential.** -/
theorem C09_compaction_decreases_potential (s s' : State) (c : Compaction) (h : Inv s)
    (hs : stepCompact s c = some s') : potential s' < potential s :=
  Lemmas.compact_decreases s s' c h hs

/-- … by at least the number of entries of its level-`L` input files (each moves one level down
or disappears; nothing else gets heavier). -/
theorem C09_compaction_potential_drop (s s' : State) (c : Compaction) (h : Inv s)
    (hs : stepCompact s c = some s') :
    potential s' + filesEntries (pick (s.levels.getD c.level []) c.inputs0) ≤ potential s :=
  Lemmas.compact_drop s s' c h hs

/-- **A trivial move strictly decreases the potential.** -/
theorem C09_trivial_move_decreases_potential (s s' : State) (num lvl : Nat) (h : Inv s)
    (hs : stepTrivialMove s num lvl = some s') : potential s' < potential s :=
  Lemmas.move_decreases s s' num lvl h hs

/-- a memtable flush never increases it (an entry weighs 6 in the immutable memtable and
`6 - lvl` in the new table) -/
theorem C09_flush_does_not_increase_potential (s s' : State) (num lvl : Nat) (h : Inv s)
    (hs : stepFlush s num lvl = some s') : potential s' ≤ potential s :=
  Lemmas.flush_le s s' num lvl h hs

theorem C09_rotate_keeps_potential (s s' : State) (hs : stepRotate s = some s') :
    potential s' = potential s :=
  Lemmas.rotate_eq s s' hs

/-- only new data adds to it: 6 per written operation -/
theorem C09_write_adds_to_potential (s : State) (ops : List (Bytes × Option Bytes)) :
    potential (stepWrite s ops) = potential s + 6 * ops.length :=
  Lemmas.write_eq s ops

/-- **The amount of table work in any history is bounded** by the potential at its start plus six
times the number of operations written during it. -/
theorem C09_table_work_is_bounded (s s' : State) (as : List Action) (h : Inv s)
    (hr : run s as = some s') :
    tableWorkCount as + potential s' ≤ potential s + 6 * written as :=
  Lemmas.run_bound s s' as h hr

/-- from an empty database: at most six table compactions or trivial moves per written operation,
in every history -/
theorem C09_table_work_is_bounded_from_init (as : List Action) (s' : State)
    (hr : run init as = some s') : tableWorkCount as ≤ 6 * written as :=
  Lemmas.run_bound_init as s' hr

/-- without writes, a history from `s` holds at most `potential s` table compactions and trivial
moves: the background work stops -/
theorem C09_table_work_terminates (s s' : State) (as : List Action) (h : Inv s)
    (hr : run s as = some s') (hw : written as = 0) : tableWorkCount as ≤ potential s :=
  Lemmas.run_bound_quiet s s' as h hr hw

/-! ### non-vacuity -/

def exEntry (k : UInt8) (seq : Nat) : Entry := { ukey := [k], seq := seq, put := true, val := [k] }

/-- level 0: file 5 (keys 4, 6) and file 3 (keys 1, 4; its key 4 is shadowed by file 5);
level 1: file 2 (keys 20, 30) -/
def exState : State :=
  { mem := [], imm := none,
    levels := [[mkFile 5 [exEntry 4 6, exEntry 6 5], mkFile 3 [exEntry 1 4, exEntry 4 3]],
               [mkFile 2 [exEntry 20 2, exEntry 30 1]], [], [], [], [], []],
    lastSeq := 9 }

/-- both level-0 files into level 1; no snapshot is live, so the shadowed entry is dropped -/
def exCompaction : Compaction :=
  { level := 0, inputs0 := [5, 3], inputs1 := [], smallestSnapshot := 9,
    outputs := [(10, [exEntry 1 4, exEntry 4 6]), (11, [exEntry 6 5])] }

/-- the state satisfies the invariant, the compaction is valid, and the potential falls from
`4·6 + 2·5 = 34` to `3·5 + 2·5 = 25` -/
example :
    Inv exState ∧ potential exState = 34 ∧
    (stepCompact exState exCompaction).map State.levels = some
      [[], [mkFile 10 [exEntry 1 4, exEntry 4 6], mkFile 11 [exEntry 6 5],
            mkFile 2 [exEntry 20 2, exEntry 30 1]], [], [], [], [], []] ∧
    (stepCompact exState exCompaction).map potential = some 25 := by
  unfold Lsm.Inv; decide +kernel

/-- the trivial move of file 2 from level 1 to level 2: `34 → 32` -/
example : (stepTrivialMove exState 2 1).map potential = some 32 := by decide +kernel

/-- a history from the empty database: two operations written, flushed to level 0, moved down
twice; the potential goes `0 → 12 → 12 → 12 → 10 → 8` and two units of table work were done -/
example :
    let as : List Action :=
      [.write [([1], some [7]), ([2], none)], .rotate, .flush 1 0, .trivialMove 1 0, .trivialMove 1 1]
    (run init as).map potential = some 8 ∧ tableWorkCount as = 2 ∧ written as = 2 := by
  decide +kernel

end Rain.Potential
