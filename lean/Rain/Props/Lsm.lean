import Rain.LsmSpec
import Rain.Lemmas.Lsm
/-
Property theorems over the LSM model (`Rain/Lsm.lean`) shared by C01, C03, C07 and C10.
Helper lemmas live in `Rain/Lemmas/Lsm*.lean`.

Quantifiers: every state satisfying the invariant, every user key and sequence bound, every
action list — any interleaving of writes (any batches, any byte-string keys and values),
memtable rotations, flushes to any admissible level, table compactions with any admissible
choice of inputs and any cut of the output into files, and trivial moves.  No size threshold
appears, so every `DbOptions` is covered.
-/
namespace Rain.Lsm

/-- **C01 core: the read path returns the newest entry at or below the bound**, wherever it lives
(memtable, immutable memtable, any level-0 file, any deeper level). -/
theorem get_eq_view (s : State) (h : Inv s) (k : Bytes) (snap : Nat) :
    dbGet s k snap = view (allEntries s) snap k :=
  Lemmas.get_eq_view s h k snap

theorem inv_init : Inv init := Lemmas.inv_init

/-- **C10 core: every action preserves the invariant** (hence `maybe_add_file`'s overlap assertion
in `VersionBuilder` can never fire for a valid action — C09). -/
theorem step_inv (s s' : State) (a : Action) (h : Inv s) (hs : step s a = some s') : Inv s' :=
  Lemmas.step_inv s s' a h hs

theorem run_inv (s s' : State) (as : List Action) (h : Inv s) (hr : run s as = some s') : Inv s' :=
  Lemmas.run_inv s s' as h hr

/-- a write makes exactly its batch visible at the new sequence number … -/
theorem write_view_latest (s : State) (h : Inv s) (ops : List (Bytes × Option Bytes)) (k : Bytes) :
    view (allEntries (stepWrite s ops)) (s.lastSeq + ops.length) k
      = specApply (view (allEntries s) s.lastSeq) ops k :=
  Lemmas.write_view_latest s h ops k

/-- … and changes nothing at or below the previous one (what snapshots rely on) -/
theorem write_view_old (s : State) (h : Inv s) (ops : List (Bytes × Option Bytes)) (k : Bytes)
    (snap : Nat) (hs : snap ≤ s.lastSeq) :
    view (allEntries (stepWrite s ops)) snap k = view (allEntries s) snap k :=
  Lemmas.write_view_old s h ops k snap hs

/-- **C07 core: rotation, flush, compaction and trivial move change no view** at any bound that is
at least the compaction's smallest snapshot. -/
theorem rearrange_view (s s' : State) (a : Action) (h : Inv s) (hs : step s a = some s')
    (hw : a.isWrite = false) (snap : Nat) (hq : a.floor ≤ snap) (k : Bytes) :
    view (allEntries s') snap k = view (allEntries s) snap k :=
  Lemmas.rearrange_view s s' a h hs hw snap hq k

/-- C07 as the property states it, on the read path itself -/
theorem C07_invisible (s s' : State) (a : Action) (h : Inv s) (hs : step s a = some s')
    (hw : a.isWrite = false) (snap : Nat) (hq : a.floor ≤ snap) (k : Bytes) :
    dbGet s' k snap = dbGet s k snap := by
  rw [get_eq_view s' (step_inv s s' a h hs) k snap, get_eq_view s h k snap]
  exact rearrange_view s s' a h hs hw snap hq k

/-- **C01: for every history, a get at the latest sequence number returns the value of the most
recent write to that key** (or nothing if that write was a delete or there is none). -/
theorem C01_reads_latest (as : List Action) (s : State) (hr : run init as = some s) (k : Bytes) :
    dbGet s k s.lastSeq = specOf as k :=
  Lemmas.reads_latest as s hr k

/-- **C03: a snapshot is stable.** Whatever happens after sequence number `snap` was current —
writes, rotations, flushes, trivial moves, and compactions that respect the snapshot
(`smallestSnapshot ≤ snap`, which the database guarantees while the snapshot is live) — a get at
`snap` returns what it returned when the snapshot was taken. -/
theorem C03_snapshot_stable (s s' : State) (as : List Action) (h : Inv s) (hr : run s as = some s')
    (snap : Nat) (hs : snap ≤ s.lastSeq) (hq : ∀ a ∈ as, a.floor ≤ snap) (k : Bytes) :
    dbGet s' k snap = dbGet s k snap :=
  Lemmas.snapshot_stable s s' as h hr snap hs hq k

theorem C10_wellformed (s : State) (h : Inv s) : WellFormed s := Lemmas.wellformed s h

theorem C10_wellformed_reachable (as : List Action) (s : State) (hr : run init as = some s) :
    WellFormed s :=
  C10_wellformed s (run_inv init s as inv_init hr)

end Rain.Lsm
