import Rain.PersistCheck
import Rain.Lemmas.PersistTight
/-
The executable relation check is sound: a positive answer of `relB` on a (real) state and image
gives the relation `Rel` all theorems of `Rain/Props/Persist.lean` start from.
-/
namespace Rain.Props.PersistCheck
open Rain Rain.Lsm Rain.Durable Rain.Persist Rain.Persist.Lemmas Rain.Lsm.Lemmas

theorem subList_mem {α : Type} [BEq α] [LawfulBEq α] {a b : List α} (h : subList a b = true) :
    ∀ x ∈ a, x ∈ b := by
  intro x hx
  have := List.all_eq_true.mp h x hx
  simpa using this

theorem sameSet_mem {α : Type} [BEq α] [LawfulBEq α] {a b : List α} (h : sameSet a b = true) (x : α) :
    x ∈ a ↔ x ∈ b := by
  unfold sameSet at h
  rw [Bool.and_eq_true] at h
  exact ⟨subList_mem h.1 x, subList_mem h.2 x⟩

/-- **the executable check implies the relation** -/
theorem relB_sound (p : PState) (h : relB p = true) : Rel p := by
  unfold relB at h
  simp only [Bool.and_eq_true, decide_eq_true_eq, beq_iff_eq] at h
  obtain ⟨⟨⟨⟨⟨⟨⟨⟨⟨⟨hinv, hn1⟩, hn2⟩, hn3⟩, hcur⟩, hed⟩, htab⟩, hmem⟩, himm⟩, hoth⟩, hmax⟩ := h
  refine { inv := (inv_iff p.s).mp hinv, wf := ⟨hn1, hn2, hn3⟩, cur := hcur, edits := ?_, tables := ?_,
           walMem := ?_, walImm := ?_, others := ?_, walMax := ?_, manLe := ?_ }
  · cases hl : lookup p.d.manifests p.c.manifest with
    | none => rw [hl] at hed; cases hed
    | some es =>
      rw [hl] at hed
      simp only [Bool.and_eq_true, beq_iff_eq, decide_eq_true_eq] at hed
      refine ⟨es, rfl, hed.1.1, fun q => ?_⟩
      rw [sameSet_mem hed.2 q, mem_levelPairs]
  · intro l f hf
    have := List.all_eq_true.mp htab f (mem_flatten_iff_lv.mpr ⟨l, hf⟩)
    simpa using this
  · cases hl : lookup p.d.wals p.c.wal with
    | none => rw [hl] at hmem; cases hmem
    | some bs =>
      rw [hl] at hmem
      exact ⟨bs, rfl, fun e => sameSet_mem hmem e⟩
  · cases hi : p.c.immWal with
    | none =>
      cases hs : p.s.imm with
      | none => exact Or.inl ⟨rfl, rfl⟩
      | some im => rw [hi, hs] at himm; cases himm
    | some wi =>
      cases hs : p.s.imm with
      | none => rw [hi, hs] at himm; cases himm
      | some im =>
        rw [hi, hs] at himm
        simp only [Bool.and_eq_true, decide_eq_true_eq] at himm
        cases hl : lookup p.d.wals wi with
        | none => rw [hl] at himm; exact absurd himm.2 (by simp)
        | some bs =>
          rw [hl] at himm
          exact Or.inr ⟨wi, im, bs, rfl, rfl, himm.1, hl, fun e => sameSet_mem himm.2 e⟩
  · intro x hx
    have := List.all_eq_true.mp hoth x hx
    simp only [Bool.or_eq_true, beq_iff_eq, decide_eq_true_eq, List.isEmpty_iff] at this
    rcases this with ((h1 | h1) | h1) | h1
    · exact Or.inl h1
    · exact Or.inr (Or.inl h1)
    · exact Or.inr (Or.inr (Or.inl h1))
    · exact Or.inr (Or.inr (Or.inr h1))
  · intro x hx
    have := List.all_eq_true.mp hmax x hx
    simp only [Bool.or_eq_true, decide_eq_true_eq, List.isEmpty_iff] at this
    exact this
  · cases hl : lookup p.d.manifests p.c.manifest with
    | none => rw [hl] at hed; cases hed
    | some es =>
      rw [hl] at hed
      simp only [Bool.and_eq_true, beq_iff_eq, decide_eq_true_eq] at hed
      exact hed.1.2

/-- … hence everything proved from `Rel`: the image recovers to what the instance reads -/
theorem relB_image_is_what_is_read (p : PState) (h : relB p = true) :
    ∃ r, recover p.d = some r ∧ ∀ k, latest r.entries k = dbGet p.s k p.s.lastSeq :=
  rel_reads (relB_sound p h)

/-- the executable directory check implies `Tight` -/
theorem tightB_sound (p : PState) (h : tightB p = true) : Tight p := by
  unfold tightB at h
  simp only [Bool.and_eq_true] at h
  obtain ⟨⟨h1, h2⟩, h3⟩ := h
  refine ⟨?_, ?_, ?_⟩
  · intro t
    show t ∈ p.d.tables.map Prod.fst ↔ _
    rw [sameSet_mem h1 t, List.mem_map]
    constructor
    · rintro ⟨f, hf, hn⟩
      obtain ⟨l, hl⟩ := mem_flatten_iff_lv.mp hf
      exact ⟨l, f, hl, hn⟩
    · rintro ⟨l, f, hf, hn⟩
      exact ⟨f, mem_flatten_iff_lv.mpr ⟨l, hf⟩, hn⟩
  · intro n
    show n ∈ p.d.wals.map Prod.fst ↔ _
    rw [sameSet_mem h2 n]
    cases hi : p.c.immWal with
    | none => simp
    | some w => simp
  · intro k
    show k ∈ p.d.manifests.map Prod.fst ↔ _
    rw [sameSet_mem h3 k]; simp

example : relB (pinit 1 2) = true := by decide +kernel
example : tightB (pinit 1 2) = true := by decide +kernel

end Rain.Props.PersistCheck
