import Rain.Lemmas.Manual
import Rain.Props.Pick
import Rain.Props.Lsm
/-
Property theorems about MANUAL compaction (`Rain/Manual.lean`, the model of `DB::compact_range`,
`DB::force_level_compaction`, the manual branch of the compaction thread and
`VersionSet::compact_range`).

* C07: every compaction a manual request performs — with the inputs the selection dictates, for
  every range, every file-size setting, every assignment of file sizes — is a VALID compaction of
  the LSM model, and a whole `compact_range` changes no read at any sequence number no compaction
  of it was told to forget.
* C09: a request performs at most as many rounds as its level has files (every round removes at
  least one file from the level and adds none), it can always make its next round (the selection
  never yields inputs the compaction rejects), and the levels `compact_range` passes to
  `force_level_compaction` satisfy that function's assertion.

Quantifiers: every state satisfying the invariant, every request, all sizes, all outputs the LSM
model accepts.  What is NOT covered: flushes and automatic compactions interleaved between the
rounds (each of them is a step of the LSM model in its own right, but the bound on the number of
rounds then grows by the number of files they add to the level).
-/
namespace Rain.Props.Manual
open Rain Rain.Lsm Rain.Lsm.Lemmas Rain.Manual Rain.Manual.Lemmas

variable {size : Nat → Nat} {maxFileSize : Nat}

/-! ### the seed satisfies what the input selection needs -/

theorem seed_sublist (levels : List (List File)) (m : ManualReq) :
    (manualSeed size maxFileSize levels m).Sublist (levels.getD m.level []) := by
  unfold manualSeed
  simp only
  split
  · exact overlapping_sublist _ _ _ _
  · exact (sizeCut_sublist _ _ _ _).trans (overlapping_sublist _ _ _ _)

theorem seed_level0 (levels : List (List File)) (m : ManualReq) (h0 : m.level = 0) :
    SeedNewer0 (levels.getD 0 []) (manualSeed size maxFileSize levels m) := by
  unfold manualSeed
  simp only [h0, if_true, beq_self_eq_true]
  exact (seed_level0_closed _ _ _).newer

theorem seed_deeper (s : State) (h : Inv s) (m : ManualReq) (hn : m.level ≠ 0) :
    SeedConvex (s.levels.getD m.level []) (manualSeed size maxFileSize s.levels m) := by
  have inv := (inv_iff s).mp h
  have hwf : ∀ f ∈ lv s.levels m.level, Wf f := fun f hf => (inv.files m.level f hf).wf
  have hl : LevelOk (lv s.levels m.level) := inv.lvls m.level (by omega)
  unfold manualSeed
  have hb : (m.level == 0) = false := by simpa using hn
  simp only [if_neg hn, hb]
  obtain ⟨n, e, _⟩ := sizeCut_eq_take size maxFileSize 0
    (overlapping (s.levels.getD m.level []) false (m.begin_.map Prod.fst) (m.end_.map Prod.fst))
  rw [e]
  apply conv_take hwf hl (overlapping_sublist _ false _ _)
  show Conv (lv s.levels m.level) (overlapping (lv s.levels m.level) false _ _)
  rw [overlapping_notL0]
  exact filter_inRange_conv hwf _ _

/-! ### C07 -/

/-- **every round of a manual request is a valid compaction**: with the inputs
`VersionSet::compact_range` selects (range overlap, size cut, boundary files, expansion) and any
outputs the LSM model accepts, the compaction satisfies `validCompaction` -/
theorem C07_manual_round_is_valid (s : State) (h : Inv s) (m : ManualReq) (hl : m.level + 1 < 7)
    (sel : List File × List File) (hsel : manualInputs size maxFileSize s.levels m = some sel)
    (c : Compaction) (hc : c.level = m.level) (hi0 : c.inputs0 = sel.1.map File.num)
    (hi1 : c.inputs1 = sel.2.map File.num) (hout : validOutputs s c = true) :
    validCompaction s c = true := by
  unfold manualInputs at hsel
  cases hseed : manualSeed size maxFileSize s.levels m with
  | nil => rw [hseed] at hsel; cases hsel
  | cons f fs =>
    rw [hseed] at hsel
    simp only [Option.some.injEq] at hsel
    subst hsel
    have hsub := seed_sublist (size := size) (maxFileSize := maxFileSize) s.levels m
    rw [hseed] at hsub
    refine C07_selected_compaction_is_valid s h c (f :: fs) size maxFileSize (by rw [hc]; exact hl)
      (by simp) (by rw [hc]; exact hsub) ?_ ?_ (by rw [hc]; exact hi0) (by rw [hc]; exact hi1) hout
    · intro h0
      rw [hc] at h0
      have := seed_level0 (size := size) (maxFileSize := maxFileSize) s.levels m h0
      rw [hseed] at this; exact this
    · intro hn
      rw [hc] at hn ⊢
      have := seed_deeper (size := size) (maxFileSize := maxFileSize) s h m hn
      rw [hseed] at this; exact this

/-- a finished request is a run of the LSM model -/
theorem manual_run_is_run {s s' : State} {m : ManualReq} {cs : List Compaction}
    (hr : ManualRun size maxFileSize s m cs s') : run s (cs.map Action.compact) = some s' := by
  induction hr with
  | done _ => rfl
  | round _ _ _ _ hstep _ ih =>
    simp only [List.map_cons, run, step, hstep]
    exact ih

theorem rounds_is_run {s s' : State} {m : ManualReq} {cs : List Compaction}
    (hr : ManualRounds size maxFileSize s m cs s') : run s (cs.map Action.compact) = some s' := by
  induction hr with
  | here => rfl
  | round _ _ _ _ hstep _ ih =>
    simp only [List.map_cons, run, step, hstep]
    exact ih

theorem run_append {s s1 s' : State} {as bs : List Action} (h1 : run s as = some s1)
    (h2 : run s1 bs = some s') : run s (as ++ bs) = some s' := by
  induction as generalizing s with
  | nil => simp only [run, Option.some.injEq] at h1; subst h1; exact h2
  | cons a as ih =>
    simp only [run, List.cons_append] at h1 ⊢
    cases hs : step s a with
    | none => rw [hs] at h1; cases h1
    | some s2 => rw [hs] at h1; exact ih h1

theorem range_run_is_run {lo hi : Option Bytes} {s s' : State} {ls : List Nat}
    {cs : List Compaction} (hr : RangeRun size maxFileSize lo hi s ls cs s') :
    run s (cs.map Action.compact) = some s' := by
  induction hr with
  | nil => rfl
  | cons h1 _ ih =>
    rw [List.map_append]
    exact run_append (manual_run_is_run h1) ih

/-- a run of rearranging actions changes no read at a bound all of them respect -/
theorem run_invisible (as : List Action) (s s' : State) (h : Inv s) (hr : run s as = some s')
    (hw : ∀ a ∈ as, a.isWrite = false) (snap : Nat) (hq : ∀ a ∈ as, a.floor ≤ snap) (k : Bytes) :
    Inv s' ∧ dbGet s' k snap = dbGet s k snap := by
  induction as generalizing s with
  | nil => simp only [run, Option.some.injEq] at hr; subst hr; exact ⟨h, rfl⟩
  | cons a as ih =>
    simp only [run] at hr
    cases hs : step s a with
    | none => rw [hs] at hr; cases hr
    | some s1 =>
      rw [hs] at hr
      have h1 := Lsm.step_inv s s1 a h hs
      obtain ⟨hi, he⟩ := ih s1 h1 hr (fun b hb => hw b (List.mem_cons_of_mem _ hb))
        (fun b hb => hq b (List.mem_cons_of_mem _ hb))
      refine ⟨hi, he.trans ?_⟩
      exact C07_invisible s s1 a h hs (hw a (List.mem_cons_self ..)) snap
        (hq a (List.mem_cons_self ..)) k

/-- **C07: a whole `compact_range` is invisible** — after all its requests, on every level, a get
at any sequence number that every one of its compactions respects (`smallestSnapshot ≤ snap`:
the latest state, and every snapshot live while it ran) returns what it returned before; and
the invariant (hence C10's well-formed shape) still holds -/
theorem C07_compact_range_invisible {lo hi : Option Bytes} {s s' : State} {ls : List Nat}
    {cs : List Compaction} (h : Inv s) (hr : RangeRun size maxFileSize lo hi s ls cs s')
    (snap : Nat) (hq : ∀ c ∈ cs, c.smallestSnapshot ≤ snap) (k : Bytes) :
    Inv s' ∧ dbGet s' k snap = dbGet s k snap := by
  apply run_invisible (cs.map Action.compact) s s' h (range_run_is_run hr)
  · intro a ha
    obtain ⟨c, _, rfl⟩ := List.mem_map.mp ha
    rfl
  · intro a ha
    obtain ⟨c, hc, rfl⟩ := List.mem_map.mp ha
    exact hq c hc

/-! ### C09 -/

/-- **a request performs at most as many rounds as its level has files**, finished or not -/
theorem C09_manual_rounds_bounded {s s' : State} {m : ManualReq} {cs : List Compaction}
    (hr : ManualRounds size maxFileSize s m cs s') :
    cs.length + (lv s'.levels m.level).length ≤ (lv s.levels m.level).length := by
  induction hr with
  | here => simp
  | round _ hc _ _ hstep _ ih =>
    have := level_shrinks hstep
    rw [hc] at this
    simp only [manualAdvance_level] at ih
    simp only [List.length_cons]
    omega

/-- the compaction of a round exists: the merged, filtered inputs written to one new table (or to
none if nothing is left) -/
theorem round_exists (s : State) (h : Inv s) (m : ManualReq) (hl : m.level + 1 < 7)
    (sel : List File × List File) (hsel : manualInputs size maxFileSize s.levels m = some sel) :
    ∃ c s1, c.level = m.level ∧ c.inputs0 = sel.1.map File.num ∧ c.inputs1 = sel.2.map File.num ∧
      stepCompact s c = some s1 := by
  let i0 := pick (s.levels.getD m.level []) (sel.1.map File.num)
  let i1 := pick (s.levels.getD (m.level + 1) []) (sel.2.map File.num)
  let kept := dropLoop s.lastSeq (isBaseLevel s.levels m.level) none
    (mergeAll ((i0 ++ i1).map File.entries))
  let fresh := (s.levels.flatten.map File.num).sum + 1
  let c : Compaction :=
    { level := m.level, inputs0 := sel.1.map File.num, inputs1 := sel.2.map File.num,
      smallestSnapshot := s.lastSeq, outputs := if kept.isEmpty then [] else [(fresh, kept)] }
  have hout : validOutputs s c = true := by
    show (decide (s.lastSeq ≤ s.lastSeq) &&
      (if kept.isEmpty then [] else [(fresh, kept)]).all (fun o => !o.2.isEmpty) &&
      decide (((if kept.isEmpty then [] else [(fresh, kept)]).map Prod.snd).flatten = kept) &&
      distinctNums ((if kept.isEmpty then [] else [(fresh, kept)]).map Prod.fst) &&
      (if kept.isEmpty then [] else [(fresh, kept)]).all
        (fun o => !(s.levels.flatten.map File.num).contains o.1)) = true
    have hf : (s.levels.flatten.map File.num).contains fresh = false := by
      cases hc : (s.levels.flatten.map File.num).contains fresh with
      | false => rfl
      | true => exact absurd (List.contains_iff_mem.mp hc) (fresh_not_mem _)
    cases hk : kept.isEmpty with
    | true =>
      have : kept = [] := List.isEmpty_iff.mp hk
      simp [this, distinctNums]
    | false =>
      have hf' : ∀ a ∈ s.levels, ∀ x ∈ a, ¬ x.num = fresh := by
        intro a ha x hx e
        have : fresh ∈ s.levels.flatten.map File.num :=
          List.mem_map.mpr ⟨x, List.mem_flatten.mpr ⟨a, ha, hx⟩, e⟩
        exact fresh_not_mem _ this
      simpa [hk, distinctNums] using hf'
  have hv := C07_manual_round_is_valid s h m hl sel hsel c rfl rfl rfl hout
  exact ⟨c, _, rfl, rfl, rfl, by unfold stepCompact; rw [if_pos hv]⟩

/-- **a request always finishes**: from every state satisfying the invariant and for every
request at a level `force_level_compaction` accepts there is a finished run (no selection is ever
rejected by the compaction), and by `C09_manual_rounds_bounded` none is longer than the level -/
theorem C09_manual_request_finishes (s : State) (h : Inv s) (m : ManualReq) (hl : m.level + 1 < 7) :
    ∃ cs s', ManualRun size maxFileSize s m cs s' ∧ cs.length ≤ (lv s.levels m.level).length := by
  generalize hn : (lv s.levels m.level).length = n
  induction n using Nat.strongRecOn generalizing s m with
  | _ n ih =>
    cases hsel : manualInputs size maxFileSize s.levels m with
    | none => exact ⟨[], s, ManualRun.done hsel, Nat.zero_le _⟩
    | some sel =>
      obtain ⟨c, s1, hc, hi0, hi1, hstep⟩ := round_exists s h m hl sel hsel
      have hs1 : Inv s1 := Lsm.step_inv s s1 (.compact c) h hstep
      have hlt := level_shrinks hstep
      rw [hc, hn] at hlt
      obtain ⟨cs, s', hr, hlen⟩ := ih _ hlt s1 hs1 (manualAdvance m (some sel))
        (by rw [manualAdvance_level]; exact hl) (by rw [manualAdvance_level])
      refine ⟨c :: cs, s', ManualRun.round hsel hc hi0 hi1 hstep hr, ?_⟩
      simp only [List.length_cons]
      omega

/-- the deepest level with overlap lies in `1 ..= 6` -/
theorem maxLevel_bounds (levels : List (List File)) (lo hi : Option Bytes) :
    1 ≤ maxLevelWithOverlap levels lo hi ∧ maxLevelWithOverlap levels lo hi ≤ 6 := by
  unfold maxLevelWithOverlap
  rcases foldl_pick_mem (fun l => hasOverlapInLevelO levels l lo hi)
    ((List.range (Rain.Gen.MAX_NUM_LEVELS - 1)).map (· + 1)) 1 with h | h
  · rw [h]; exact ⟨Nat.le_refl _, by decide⟩
  · obtain ⟨a, ha, e⟩ := List.mem_map.mp h
    rw [← e]
    have : a < Rain.Gen.MAX_NUM_LEVELS - 1 := List.mem_range.mp ha
    have h7 : Rain.Gen.MAX_NUM_LEVELS = 7 := rfl
    omega

/-- **no level below the ones `compact_range` visits holds a file of the range**: every level
deeper than `max_level_with_files_for_compaction` has no file whose user-key range meets
`lo..hi` (open or closed ends) — the binary-search overlap test misses nothing -/
theorem C07_unvisited_levels_hold_nothing_of_the_range (s : State) (h : Inv s)
    (hlast : s.lastSeq ≤ Rain.FlushLevel.maxSeqNo) (lo hi : Option Bytes) (l : Nat)
    (hl : maxLevelWithOverlap s.levels lo hi < l) (h7 : l < 7) :
    ∀ g ∈ lv s.levels l, inRange g lo hi = false := by
  have hp := (inv_iff s).mp h
  have hno : hasOverlapInLevelO s.levels l lo hi = false := by
    cases hov : hasOverlapInLevelO s.levels l lo hi with
    | false => rfl
    | true =>
      exfalso
      have h1 : 1 ≤ l := by have := (maxLevel_bounds s.levels lo hi).1; omega
      have hmem : l ∈ (List.range (Rain.Gen.MAX_NUM_LEVELS - 1)).map (· + 1) := by
        refine List.mem_map.mpr ⟨l - 1, List.mem_range.mpr ?_, by omega⟩
        have : Rain.Gen.MAX_NUM_LEVELS = 7 := rfl
        omega
      have hsorted : ((List.range (Rain.Gen.MAX_NUM_LEVELS - 1)).map (· + 1)).Pairwise (· < ·) := by
        decide
      have := foldl_pick_ge (fun l => hasOverlapInLevelO s.levels l lo hi) _ hsorted 1 hmem hov
      unfold maxLevelWithOverlap at hl
      omega
  apply no_overlap_of_falseO (disjoint := decide (0 < l)) (fun f hf => hp.files l f hf)
  · intro hd
    have : 0 < l := by simpa using hd
    exact hp.lvls l this
  · intro f hf
    have hfo := hp.files l f hf
    obtain ⟨ys, e, hys, hk⟩ := hfo.large_mem
    have hm : e ∈ f.entries := by rw [hys]; simp
    have := hp.seqF l f hf e hm
    rw [← hk]; show e.seq ≤ Rain.FlushLevel.maxSeqNo; omega
  · exact hno

/-- **the assertion of `force_level_compaction` never fires**: every level `compact_range` passes
satisfies `level + 1 < MAX_NUM_LEVELS` -/
theorem C09_manual_levels_in_range (levels : List (List File)) (lo hi : Option Bytes) :
    ∀ l ∈ manualLevels levels lo hi, l + 1 < 7 := by
  intro l hl
  have := List.mem_range.mp hl
  have := (maxLevel_bounds levels lo hi).2
  omega

/-- **`compact_range` always finishes**: for every state satisfying the invariant and every range
there is a complete run over the levels it visits -/
theorem C09_compact_range_finishes (s : State) (h : Inv s) (lo hi : Option Bytes) (ls : List Nat)
    (hls : ∀ l ∈ ls, l + 1 < 7) :
    ∃ cs s', RangeRun size maxFileSize lo hi s ls cs s' := by
  induction ls generalizing s with
  | nil => exact ⟨[], s, RangeRun.nil⟩
  | cons l ls ih =>
    obtain ⟨cs, s1, hr, _⟩ := C09_manual_request_finishes (size := size) (maxFileSize := maxFileSize)
      s h (ManualReq.start l lo hi) (hls l (List.mem_cons_self ..))
    have hs1 : Inv s1 :=
      Lsm.run_inv s s1 (cs.map Action.compact) h (manual_run_is_run hr)
    obtain ⟨cs', s', hr'⟩ := ih s1 hs1 (fun x hx => hls x (List.mem_cons_of_mem _ hx))
    exact ⟨cs ++ cs', s', RangeRun.cons hr hr'⟩

/-! ### non-vacuity: the layout of `PickExample` (level 0: three overlapping flushes, level 1:
`Y = b..d`, `X = e..e`, level 2: `F0, Fa, Fb`) -/

section Example
open Rain.Lsm.PickExample

example : Inv st := by show invB st = true; decide +kernel

/-- the whole key range: levels 0 and 1 are visited -/
example : manualLevels st.levels none none = [0, 1] := by decide +kernel

/-- a range that only meets level 1 and 2 files -/
example : maxLevelWithOverlap st.levels (some (k 'e' 0).1) (some (k 'e' 0).1) = 2 := by
  decide +kernel

/-- level 1, whole range, files of size 1 and `max_file_size = 1`: the size cut keeps `Y` alone;
`Y` ends at `d`, the selection pulls in `F0`, `Fa` and the boundary file `Fb`, and the expansion
step adds `X` (it lies inside `a..k` and brings no further level-2 file in) -/
example : (manualInputs one 1 st.levels (ManualReq.start 1 none none)).map
    (fun sel => (sel.1.map File.num, sel.2.map File.num)) = some ([5, 6], [1, 2, 3]) := by
  decide +kernel

/-- the request afterwards starts at the largest key of the last level-1 input, `X` -/
example : (manualAdvance (ManualReq.start 1 none none)
    (manualInputs one 1 st.levels (ManualReq.start 1 none none))).begin_ = some (k 'e' 22) := by
  decide +kernel

/-- with room for both files the seed is the whole level -/
example : (manualInputs one 100 st.levels (ManualReq.start 1 none none)).map
    (fun sel => sel.1.map File.num) = some [5, 6] := by
  decide +kernel

/-- a range beyond every file: done at once -/
example : manualInputs one 100 st.levels (ManualReq.start 1 (some (k 'y' 0).1) none) = none := by
  decide +kernel

/-- the theorems apply to this state -/
example : ∃ cs s', RangeRun one 1 none none st (manualLevels st.levels none none) cs s' :=
  C09_compact_range_finishes st (by show invB st = true; decide +kernel) none none _
    (C09_manual_levels_in_range st.levels none none)

end Example

end Rain.Props.Manual
