import Rain.Builder
import Rain.LsmSpec
import Rain.Lemmas.BuilderHist
import Rain.Lemmas.BuilderDur
import Rain.Lemmas.BuilderPtr
/-
Property theorems over the model of the version builder (`Rain/Builder.lean`).
Helper lemmas live in `Rain/Lemmas/Builder*.lean`.

Quantifiers: every base version (any number of levels, any files), every list of edits (any
deleted pairs, any added files, any compaction pointers) satisfying the stated side condition.
The side condition of (a) and (c) is `Fresh base edits`: no (level, file number) pair enters the
version twice — distinct numbers within each base level, and an edit never adds a number to a
level that already received it from the base or from an earlier edit (deleted since or not), nor
twice itself.  The same NUMBER at a different LEVEL is fine (a trivial move deletes at `L` and adds
at `L + 1` in one edit).  The examples at the end of section (a) show that no part of the
condition can be dropped.
-/
namespace Rain.Builder
open Rain Rain.Lsm

/-! ## (a) one builder for the whole manifest = one builder per edit -/

/-- **All at once = first part, then the rest on its result**, on the files the builder produces
(no assertion involved): every level is the same LIST, level 0 included, because the builder
sorts every level and numbers are distinct. -/
theorem builder_split_raw (base : Levels) (es₁ es₂ : List Edit) (h : Fresh base (es₁ ++ es₂)) :
    applyRaw ((es₁ ++ es₂).foldl accumulate empty) base =
      applyRaw (es₂.foldl accumulate empty) (applyRaw (es₁.foldl accumulate empty) base) :=
  Lemmas.applyRaw_split h

/-- the side condition carries over to the intermediate version -/
theorem builder_fresh_step (base v : Levels) (es₁ es₂ : List Edit) (h : Fresh base (es₁ ++ es₂))
    (h1 : applyEdits base es₁ = some v) : Fresh base es₁ ∧ Fresh v es₂ := by
  rw [Lemmas.applyTo_eq_some h1]
  exact ⟨Lemmas.Fresh.prefix h, Lemmas.Fresh.step h⟩

/-- **Recovery agrees with the running instance.**  If applying `es₁` is defined (no panic) and
gives `v`, then applying `es₁ ++ es₂` in one builder is defined exactly when applying `es₂` to `v`
is, and gives the same version. -/
theorem builder_split (base v : Levels) (es₁ es₂ : List Edit) (h : Fresh base (es₁ ++ es₂))
    (h1 : applyEdits base es₁ = some v) :
    applyEdits base (es₁ ++ es₂) = applyEdits v es₂ := by
  have hv := Lemmas.applyTo_eq_some h1
  unfold applyEdits
  apply Lemmas.applyTo_congr
  rw [Lemmas.applyRaw_split h, hv]

/-- the same in monadic form -/
theorem builder_split_bind (base : Levels) (es₁ es₂ : List Edit) (h : Fresh base (es₁ ++ es₂))
    (h1 : (applyEdits base es₁).isSome = true) :
    applyEdits base (es₁ ++ es₂) = (applyEdits base es₁).bind fun v => applyEdits v es₂ := by
  cases hv : applyEdits base es₁ with
  | none => rw [hv] at h1; cases h1
  | some v => rw [builder_split base v es₁ es₂ h hv]; rfl

theorem builder_agree_refl (r : Levels) : Agree r r := ⟨rfl, fun _ => List.Perm.refl _, rfl⟩

/-- … and in the order-insensitive form: same files per level, same list at levels ≥ 1 -/
theorem builder_split_agree (base v : Levels) (es₁ es₂ : List Edit) (h : Fresh base (es₁ ++ es₂))
    (h1 : applyEdits base es₁ = some v) :
    AgreeOpt (applyEdits base (es₁ ++ es₂)) (applyEdits v es₂) := by
  rw [builder_split base v es₁ es₂ h h1]
  cases applyEdits v es₂ with
  | none => trivial
  | some r => exact builder_agree_refl r

/-- **One builder per edit (the running database) ⇒ one builder for all (recovery).**  If the edits
of a non-empty manifest can be installed one at a time without a panic, replaying them all at
once gives the same version.  (The converse fails: `builder_all_at_once_hides_panic`.  The
manifest must be non-empty only because `applySeq` of no edits returns the base untouched while
the builder always re-sorts it.) -/
theorem builder_recovery_eq_running (es : List Edit) : ∀ (e : Edit) (base v : Levels),
    Fresh base (e :: es) → applySeq base (e :: es) = some v → applyEdits base (e :: es) = some v := by
  induction es with
  | nil =>
    intro e base v _ h
    simp only [applySeq] at h
    split at h
    · rename_i v1 h1
      rw [h1]; exact h
    · cases h
  | cons e' es ih =>
    intro e base v hf h
    simp only [applySeq] at h
    split at h
    · rename_i v1 h1
      have hf' : Fresh base ([e] ++ e' :: es) := hf
      have h2 := ih e' v1 v (builder_fresh_step base v1 [e] (e' :: es) hf' h1).2 (by simpa [applySeq] using h)
      rw [← h2]
      exact builder_split base v1 [e] (e' :: es) hf' h1
    · cases h

/-- compaction pointers: one builder for all edits leaves the version set's pointers as one
builder per edit does (no side condition: the last pointer per level wins either way) -/
theorem builder_pointers_split (es₁ es₂ : List Edit) (vset : List (Option Key)) :
    applyPointers ((es₁ ++ es₂).foldl accumulate empty) vset =
      applyPointers (es₂.foldl accumulate empty)
        (applyPointers (es₁.foldl accumulate empty) vset) := by
  rw [List.foldl_append]
  exact Lemmas.applyPointers_split es₂ _ vset

/-! ## (b) agreement with the transitions of `Rain.Lsm` -/

/-- **Flush.**  For a state satisfying the invariant and an admissible flush, the edit the flush
writes is fresh, the builder does NOT panic on it, and its result has the files of the LSM model's
next state at every level — the same list at levels ≥ 1, a permutation at level 0 (the model
appends the new file, the builder sorts level 0 by smallest key). -/
theorem builder_flush_agrees (s s' : State) (num lvl : Nat) (h : Inv s)
    (hs : stepFlush s num lvl = some s') :
    Fresh s.levels [flushEditOf s num lvl] ∧
      ∃ r, applyEdits s.levels [flushEditOf s num lvl] = some r ∧ Agree r s'.levels :=
  Lemmas.flush_agree ((Rain.Lsm.Lemmas.inv_iff s).mp h) hs

/-- **Trivial move**: the file is deleted at `lvl` and added at `lvl + 1` by ONE edit. -/
theorem builder_move_agrees (s s' : State) (num lvl : Nat) (f : File) (h : Inv s)
    (hs : stepTrivialMove s num lvl = some s') (hf : pick (s.levels.getD lvl []) [num] = [f]) :
    Fresh s.levels [moveEdit f lvl] ∧
      ∃ r, applyEdits s.levels [moveEdit f lvl] = some r ∧ Agree r s'.levels :=
  Lemmas.move_agree ((Rain.Lsm.Lemmas.inv_iff s).mp h) hs hf

/-- **Table compaction**: inputs deleted at their levels, outputs added at `level + 1`. -/
theorem builder_compact_agrees (s : State) (c : Compaction) (h : Inv s)
    (hv : validCompaction s c = true) :
    Fresh s.levels [compactEdit c] ∧
      ∃ r s', stepCompact s c = some s' ∧
        applyEdits s.levels [compactEdit c] = some r ∧ Agree r s'.levels := by
  cases hs : stepCompact s c with
  | none => simp [stepCompact, hv] at hs
  | some s' =>
    obtain ⟨hf, r, hr, ha⟩ := Lemmas.compact_agree ((Rain.Lsm.Lemmas.inv_iff s).mp h) hs
    exact ⟨hf, r, s', rfl, hr, ha⟩

/-- **`maybe_add_file`'s overlap assertion cannot fire** for the edit of any action the LSM model
allows. -/
theorem builder_step_never_panics (s s' : State) (a : Action) (e : Edit) (h : Inv s)
    (hs : step s a = some s') (he : editOf s a = some e) :
    panicLevel (accumulate empty e) s.levels = none := by
  obtain ⟨_, r, hr, _⟩ := Lemmas.step_agree ((Rain.Lsm.Lemmas.inv_iff s).mp h) hs he
  unfold applyEdits applyTo at hr
  simp only [List.foldl_cons, List.foldl_nil] at hr
  split at hr
  · cases hr
  · assumption

/-- every action at once: edit, freshness, no panic, agreement -/
theorem builder_step_agrees (s s' : State) (a : Action) (e : Edit) (h : Inv s)
    (hs : step s a = some s') (he : editOf s a = some e) :
    Fresh s.levels [e] ∧ ∃ r, applyEdits s.levels [e] = some r ∧ Agree r s'.levels :=
  Lemmas.step_agree ((Rain.Lsm.Lemmas.inv_iff s).mp h) hs he

/-- **Recovery reproduces the running instance, for whole histories.**  Take any history of the LSM
model from a state satisfying the invariant; collect the edits its flushes, moves and compactions
append to the manifest.  If no (level, number) pair is used twice in that manifest, ONE builder fed
with all the edits and applied to the starting version neither panics nor differs from the levels
the running instance ended with (same list at levels ≥ 1, same files at level 0). -/
theorem builder_history_agrees (s s' : State) (as : List Action) (h : Inv s)
    (hr : run s as = some s') (hf : Fresh s.levels (editsOf s as)) :
    ∃ r, applyEdits s.levels (editsOf s as) = some r ∧ Agree r s'.levels :=
  Lemmas.history_agree as s s' s.levels ((Rain.Lsm.Lemmas.inv_iff s).mp h) hr (builder_agree_refl _) hf

/-! ## (c) agreement with `Rain.Durable.versionOf` -/

/-- **The (level, number) pairs of the recovered version are those of `versionOf`** (as a
permutation: both lists are duplicate-free), for a manifest replayed on the empty version of `n`
levels. -/
theorem builder_versionOf_raw (n : Nat) (es : List Edit) (hf : Fresh (List.replicate n []) es)
    (hr : levelsInRange n es) :
    (pairsOf (applyRaw (es.foldl accumulate empty) (List.replicate n []))).Perm
      (Rain.Durable.versionOf (es.map toDurable)) :=
  Lemmas.versionOf_agree n es hf hr

theorem builder_versionOf (n : Nat) (es : List Edit) (v : Levels)
    (hf : Fresh (List.replicate n []) es) (hr : levelsInRange n es)
    (hv : applyEdits (List.replicate n []) es = some v) :
    (pairsOf v).Perm (Rain.Durable.versionOf (es.map toDurable)) := by
  rw [Lemmas.applyTo_eq_some hv]
  exact Lemmas.versionOf_agree n es hf hr

/-- … as sets -/
theorem builder_versionOf_mem (n : Nat) (es : List Edit) (v : Levels)
    (hf : Fresh (List.replicate n []) es) (hr : levelsInRange n es)
    (hv : applyEdits (List.replicate n []) es = some v) (p : Nat × Nat) :
    p ∈ pairsOf v ↔ p ∈ Rain.Durable.versionOf (es.map toDurable) :=
  (builder_versionOf n es v hf hr hv).mem_iff

/-! ## (d) the statements are not vacuous, and the side condition is needed -/

/-- file metadata for the examples: number, first and last user key (one byte each) -/
def exF (n : Nat) (lo hi : UInt8) : File :=
  { num := n, smallest := ([lo], 9), largest := ([hi], 1), entries := [] }

/-- a trivial move in ONE edit (same number deleted at level 0 and added at level 1), then a flush:
fresh, and both ways give the same version; level 0 comes out sorted by key, not by age -/
example :
    Fresh [[exF 5 4 6, exF 3 1 9], []] [moveEdit (exF 5 4 6) 0, flushEdit (exF 7 0 2) 0] ∧
    applyEdits [[exF 5 4 6, exF 3 1 9], []] [moveEdit (exF 5 4 6) 0]
      = some [[exF 3 1 9], [exF 5 4 6]] ∧
    applyEdits [[exF 3 1 9], [exF 5 4 6]] [flushEdit (exF 7 0 2) 0]
      = some [[exF 7 0 2, exF 3 1 9], [exF 5 4 6]] ∧
    applyEdits [[exF 5 4 6, exF 3 1 9], []] [moveEdit (exF 5 4 6) 0, flushEdit (exF 7 0 2) 0]
      = some [[exF 7 0 2, exF 3 1 9], [exF 5 4 6]] ∧
    applySeq [[exF 5 4 6, exF 3 1 9], []] [moveEdit (exF 5 4 6) 0, flushEdit (exF 7 0 2) 0]
      = some [[exF 7 0 2, exF 3 1 9], [exF 5 4 6]] := by decide

/-- a file added by one edit and deleted by a later one: fine -/
example :
    Fresh [[], []] [flushEdit (exF 5 1 3) 1, { deleted := [(1, 5)], added := [(1, exF 6 1 3)] }] ∧
    applyEdits [[], []] [flushEdit (exF 5 1 3) 1, { deleted := [(1, 5)], added := [(1, exF 6 1 3)] }]
      = some [[], [exF 6 1 3]] ∧
    applySeq [[], []] [flushEdit (exF 5 1 3) 1, { deleted := [(1, 5)], added := [(1, exF 6 1 3)] }]
      = some [[], [exF 6 1 3]] := by decide

/-- **the assertion**: two overlapping files at level 1 panic at level 1 … -/
example :
    applyEdits [[], []] [{ deleted := [], added := [(1, exF 1 1 3), (1, exF 2 2 4)] }] = none ∧
    panicLevel (accumulate empty { deleted := [], added := [(1, exF 1 1 3), (1, exF 2 2 4)] }) [[], []]
      = some 1 ∧
    -- … at level 0 they do not
    applyEdits [[], []] [{ deleted := [], added := [(0, exF 1 1 3), (0, exF 2 2 4)] }]
      = some [[exF 1 1 3, exF 2 2 4], []] := by decide

/-- **one builder hides a panic the running instance would have had**: the converse of
`builder_recovery_eq_running` fails even for fresh manifests -/
theorem builder_all_at_once_hides_panic :
    let es : List Edit := [{ deleted := [], added := [(1, exF 1 1 3), (1, exF 2 2 4)] },
                           { deleted := [(1, 2)], added := [] }]
    Fresh [[], []] es ∧ applySeq [[], []] es = none ∧ applyEdits [[], []] es = some [[], [exF 1 1 3]] := by
  decide

/-- **`Fresh` is needed (1): a number re-used at the same level for a different file.**  Recovery
resurrects the deleted file: added, deleted, then the number added again — one builder keeps BOTH
files (its added set never shrinks and the last add clears the deletion), edit by edit only the
last one survives. -/
theorem builder_counterexample_reused_number :
    let es : List Edit := [flushEdit (exF 5 1 3) 0, { deleted := [(0, 5)], added := [] },
                           flushEdit (exF 5 4 6) 0]
    ¬ Fresh [[]] es ∧ applySeq [[]] es = some [[exF 5 4 6]] ∧
      applyEdits [[]] es = some [[exF 5 1 3, exF 5 4 6]] := by
  decide

/-- **`Fresh` is needed (2): a base file deleted and later re-added (the very same file).**
One builder: the add cancels the deletion and the file is in the base AND in the added set — it
appears twice.  Edit by edit it appears once. -/
theorem builder_counterexample_readded :
    let es : List Edit := [{ deleted := [(0, 5)], added := [] }, flushEdit (exF 5 1 3) 0]
    ¬ Fresh [[exF 5 1 3]] es ∧ applySeq [[exF 5 1 3]] es = some [[exF 5 1 3]] ∧
      applyEdits [[exF 5 1 3]] es = some [[exF 5 1 3, exF 5 1 3]] := by
  decide

/-- **`Fresh` is needed (3): a file added although it is present.**  Edit by edit every add
duplicates it; one builder adds it once (the added set is a set). -/
theorem builder_counterexample_already_present :
    let es : List Edit := [flushEdit (exF 5 1 3) 0, flushEdit (exF 5 1 3) 0]
    ¬ Fresh [[exF 5 1 3]] es ∧
      applySeq [[exF 5 1 3]] es = some [[exF 5 1 3, exF 5 1 3, exF 5 1 3]] ∧
      applyEdits [[exF 5 1 3]] es = some [[exF 5 1 3, exF 5 1 3]] := by
  decide

/-- **`Fresh` is needed for (c)**: ONE edit that deletes number 5 at level 0 and adds a file numbered
5 there — `versionOf` filters, then appends (one pair); the builder's add cancels the deletion, the
old file stays (two files numbered 5) -/
theorem builder_counterexample_versionOf :
    let e : Edit := { deleted := [(0, 5)], added := [(0, exF 5 4 6)] }
    ¬ Fresh [[exF 5 1 3]] [e] ∧
      applyEdits [[exF 5 1 3]] [e] = some [[exF 5 1 3, exF 5 4 6]] ∧
      Rain.Durable.versionOf (([flushEdit (exF 5 1 3) 0, e]).map toDurable) = [(0, 5)] ∧
      (applyEdits [[]] [flushEdit (exF 5 1 3) 0, e]).map pairsOf = some [(0, 5), (0, 5)] := by
  decide

/-- (c) on a fresh manifest: snapshot, flush, trivial move, compaction -/
example :
    let es : List Edit := [flushEdit (exF 3 1 9) 0, flushEdit (exF 5 4 6) 0, moveEdit (exF 5 4 6) 0,
      { deleted := [(0, 3), (1, 5)], added := [(1, exF 8 1 5), (1, exF 9 6 9)] }]
    Fresh (List.replicate 3 []) es ∧ levelsInRange 3 es ∧
      applyEdits (List.replicate 3 []) es = some [[], [exF 8 1 5, exF 9 6 9], []] ∧
      Rain.Durable.versionOf (es.map toDurable) = [(1, 8), (1, 9)] := by decide

/-- compaction pointers: the last one per level wins -/
example :
    applyPointers ([{ deleted := [], added := [], pointers := [(1, ([1], 5)), (2, ([2], 5))] },
                    { deleted := [], added := [], pointers := [(1, ([7], 3))] }].foldl accumulate empty)
      [none, some ([0], 1), none, some ([9], 9)]
      = [none, some ([7], 3), some ([2], 5), some ([9], 9)] := by decide

/-! ### (b) on a concrete state -/

def exEntry (k : UInt8) (seq : Nat) : Entry := { ukey := [k], seq := seq, put := true, val := [k] }

/-- level 0: files 5 (keys 4–6) and 3 (keys 1–9, older); level 1: file 2 (keys 20–30) -/
def exState : State :=
  { mem := [], imm := some [exEntry 0 9, exEntry 2 8],
    levels := [[mkFile 5 [exEntry 4 6, exEntry 6 5], mkFile 3 [exEntry 1 4, exEntry 9 3]],
               [mkFile 2 [exEntry 20 2, exEntry 30 1]], [], [], [], [], []],
    lastSeq := 9 }

/-- a flush to level 0: the LSM model appends file 7, the builder puts it first (smallest key) -/
example :
    invB exState = true ∧
    (stepFlush exState 7 0).map State.levels = some
      [[mkFile 5 [exEntry 4 6, exEntry 6 5], mkFile 3 [exEntry 1 4, exEntry 9 3],
        mkFile 7 [exEntry 0 9, exEntry 2 8]],
       [mkFile 2 [exEntry 20 2, exEntry 30 1]], [], [], [], [], []] ∧
    applyEdits exState.levels [flushEditOf exState 7 0] = some
      [[mkFile 7 [exEntry 0 9, exEntry 2 8], mkFile 3 [exEntry 1 4, exEntry 9 3],
        mkFile 5 [exEntry 4 6, exEntry 6 5]],
       [mkFile 2 [exEntry 20 2, exEntry 30 1]], [], [], [], [], []] := by decide +kernel

/-- a compaction of level 0 into level 1 (both level-0 files, no level-1 input), two output files -/
def exCompaction : Compaction :=
  { level := 0, inputs0 := [5, 3], inputs1 := [], smallestSnapshot := 0,
    outputs := [(10, [exEntry 1 4, exEntry 4 6]), (11, [exEntry 6 5, exEntry 9 3])] }

example :
    validCompaction exState exCompaction = true ∧
    (stepCompact exState exCompaction).map State.levels = some
      [[], [mkFile 10 [exEntry 1 4, exEntry 4 6], mkFile 11 [exEntry 6 5, exEntry 9 3],
            mkFile 2 [exEntry 20 2, exEntry 30 1]], [], [], [], [], []] ∧
    applyEdits exState.levels [compactEdit exCompaction] =
      (stepCompact exState exCompaction).map State.levels := by decide +kernel

/-- a trivial move of file 2 from level 1 to level 2 -/
example :
    (stepTrivialMove exState 2 1).map State.levels = some
      [[mkFile 5 [exEntry 4 6, exEntry 6 5], mkFile 3 [exEntry 1 4, exEntry 9 3]], [],
       [mkFile 2 [exEntry 20 2, exEntry 30 1]], [], [], [], []] ∧
    editOf exState (.trivialMove 2 1) = some (moveEdit (mkFile 2 [exEntry 20 2, exEntry 30 1]) 1) ∧
    applyEdits exState.levels [moveEdit (mkFile 2 [exEntry 20 2, exEntry 30 1]) 1] = some
      [[mkFile 3 [exEntry 1 4, exEntry 9 3], mkFile 5 [exEntry 4 6, exEntry 6 5]], [],
       [mkFile 2 [exEntry 20 2, exEntry 30 1]], [], [], [], []] := by decide +kernel

/-- a whole history: flush, compaction, move — the manifest is fresh and one builder reproduces
the final levels -/
example :
    let as : List Action := [.flush 7 0, .compact
      { level := 0, inputs0 := [5, 3, 7], inputs1 := [], smallestSnapshot := 0,
        outputs := [(10, [exEntry 0 9, exEntry 1 4, exEntry 2 8, exEntry 4 6]),
                    (11, [exEntry 6 5, exEntry 9 3])] }, .trivialMove 2 1]
    Fresh exState.levels (editsOf exState as) ∧ (editsOf exState as).length = 3 ∧
      applyEdits exState.levels (editsOf exState as) = (run exState as).map State.levels ∧
      (run exState as).isSome = true := by decide +kernel

end Rain.Builder
