import Rain.Generated.Constants
import Rain.Lemmas.Sched
/-
Property theorems over the background-work scheduling protocol (`Rain/Sched.lean`), C09:
nobody sleeps without somebody to wake them (no lost wake-up, no deadlock of the flag / channel /
condition-variable protocol), the worker alone brings every waiting thread to a state where its
wait condition is false (or the sticky error / shutdown it must report is set), in a bounded number
of worker steps.
-/
namespace Rain.Sched

/-- the invariant holds in every reachable state (`0 < l0Trigger`: with a zero trigger `init` itself
violates `pressureOk`, and with `l0Stop = 0` a writer could wait in `init` with nothing scheduled) -/
theorem C09_inv (p : Params) (hp : p.l0Trigger ≤ p.l0Stop) (hp0 : 0 < p.l0Trigger) (s : State)
    (h : Reachable p s) : inv p s = true :=
  (inv_iff p s).2 (Inv_reachable p hp hp0 s h)

/-- a thread blocked in `wait` always has a queued or running worker task that will notify it -/
theorem C09_sleeper_has_waker (p : Params) (hp : p.l0Trigger ≤ p.l0Stop) (hp0 : 0 < p.l0Trigger)
    (s : State) (h : Reachable p s) (hw : 0 < s.waiters) :
    (0 < s.tasks ∧ s.running = false) ∨ s.running = true := by
  have hi := Inv_reachable p hp hp0 s h
  exact scheduled_has_waker s hi.struct (hi.wake hw)

/-- whenever a writer's wait condition holds (immutable memtable present or level 0 at the stop
limit) the background work is scheduled and a worker step is enabled -/
theorem C09_blocked_writer_has_worker (p : Params) (hp : p.l0Trigger ≤ p.l0Stop) (hp0 : 0 < p.l0Trigger)
    (s : State) (h : Reachable p s) (hs : s.shutting = false) (hb : writerBlocked p s = true) :
    s.scheduled = true ∧ ∃ st, isWorkerStep st = true ∧ enabled p s st = true := by
  have hi := Inv_reachable p hp hp0 s h
  have hsch : s.scheduled = true :=
    mayWait_scheduled p hp s hi (by simp only [mayWait, hs, hb, Bool.true_or]; rfl)
  exact ⟨hsch, scheduled_worker_step p s hi.struct hsch⟩

/-- every finished worker task makes progress: it decreases the potential, or sets the sticky error -/
theorem C09_worker_task_progress (p : Params) (s : State) (o : Outcome)
    (he : enabled p s (.workerFinish o) = true) (hs : s.shutting = false) (hb : s.bad = false)
    (hw : hasWork s = true) :
    (apply s (.workerFinish o)).bad = true ∨ potential p (apply s (.workerFinish o)) < potential p s :=
  finish_bad_or_less p s o he hs hb hw

/-- a run consisting of worker steps only is bounded by the potential: at most `2 * potential` steps
(one `workerStart` and one `workerFinish` per unit; the bound is attained). Needs no assumption on `p`. -/
theorem C09_worker_runs_are_bounded (p : Params) (s s' : State)
    (h : Reachable p s) (steps : List Step) (hall : steps.all isWorkerStep = true)
    (hr : run p s steps = some s') : steps.length ≤ 2 * potential p s :=
  worker_run_bounded p s s' h steps hall hr

/-- when the worker has nothing left to do, nobody has a reason to wait: every wait condition is
false (the writer sees room or the error, the manual compaction is done, drop sees the flag clear) -/
theorem C09_worker_idle_means_nobody_waits (p : Params) (hp : p.l0Trigger ≤ p.l0Stop)
    (hp0 : 0 < p.l0Trigger) (s : State)
    (h : Reachable p s) (hidle : ∀ st, isWorkerStep st = true → enabled p s st = false) :
    quiescent s = true ∧ mayWait p s = false ∧ s.waiters = 0 :=
  idle_nobody_waits p hp s (Inv_reachable p hp hp0 s h) hidle

/-- together: from any reachable state, letting the worker run (no further client steps) releases
everybody after at most `2 * potential` steps -/
theorem C09_waiters_are_released (p : Params) (hp : p.l0Trigger ≤ p.l0Stop) (hp0 : 0 < p.l0Trigger)
    (s : State) (h : Reachable p s) :
    ∃ steps s', steps.all isWorkerStep = true ∧ run p s steps = some s' ∧
      steps.length ≤ 2 * potential p s ∧ mayWait p s' = false ∧ s'.waiters = 0 := by
  obtain ⟨steps, s', hall, hr, hidle⟩ := worker_can_rest p s (Core_reachable p s h)
  have h' := Reachable_run p s h steps s' hr
  have hq := idle_nobody_waits p hp s' (Inv_reachable p hp hp0 s' h') hidle
  exact ⟨steps, s', hall, hr, worker_run_bounded p s s' h steps hall hr, hq.2⟩

/-- ... and the worker needs no I/O error for that: from any reachable state there is a worker-only
run without a new failure (`bad` unchanged) after which every wait condition is false. Together with
`C09_worker_runs_are_bounded` and `C09_worker_idle_means_nobody_waits` (every maximal worker-only run
is finite and ends with nobody waiting) this shows the outcome guards never block the worker. -/
theorem C09_waiters_are_released_without_failure (p : Params) (hp : p.l0Trigger ≤ p.l0Stop)
    (hp0 : 0 < p.l0Trigger) (s : State) (h : Reachable p s) :
    ∃ steps s', steps.all isWorkerStep = true ∧ run p s steps = some s' ∧
      steps.length ≤ 2 * potential p s ∧ s'.bad = s.bad ∧ mayWait p s' = false ∧ s'.waiters = 0 := by
  obtain ⟨steps, s', hall, hr, hidle, hbad⟩ :=
    worker_can_rest_clean p hp hp0 s (Inv_reachable p hp hp0 s h) (Core_reachable p s h)
  have h' := Reachable_run p s h steps s' hr
  have hq := idle_nobody_waits p hp s' (Inv_reachable p hp hp0 s' h') hidle
  exact ⟨steps, s', hall, hr, worker_run_bounded p s s' h steps hall hr, hbad, hq.2⟩

/-- non-vacuity: a reachable state with a blocked writer, a sleeper and pending work -/
example : let p : Params := { l0Trigger := 4, l0Stop := 12, flushCost := 3, manualCost := 3 }
    (run p init [.rotate, .wait]).map (fun s => (writerBlocked p s, s.waiters, s.scheduled, inv p s)) =
      some (true, 1, true, true) := by decide

end Rain.Sched

namespace Rain.Sched
/-- the hypotheses on the parameters hold for the constants extracted from the code on this run -/
theorem C09_code_parameters_satisfy_the_hypotheses :
    Rain.Gen.L0_COMPACTION_TRIGGER ≤ Rain.Gen.L0_STOP_WRITES_TRIGGER ∧ 0 < Rain.Gen.L0_COMPACTION_TRIGGER := by
  decide
end Rain.Sched
