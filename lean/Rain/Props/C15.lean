import Rain.Integrity
import Rain.Lemmas.Integrity
import Rain.Props.C12
/-
C15 — "Corrupted files are detected, never served as data": what the format's integrity evidence
guarantees, as theorems, and what it does NOT guarantee, as kernel-checked counterexamples.
The exhaustive single-byte corruption of whole database images is done by the harness (it found
and led to the repair of a damaged-manifest defect and recorded three format-level findings).
-/
namespace Rain.Integrity
open Rain Rain.Log

/-- a block reads back -/
theorem C15_block_roundtrip (crc : Bytes → Nat) (hcrc : ∀ d, crc d < 2^32) (contents : Bytes) (ctype : UInt8) :
    readBlock crc (writeBlock crc contents ctype) contents.length = some (contents, ctype) :=
  Lemmas.block_roundtrip crc hcrc contents ctype

/-- **Every single-byte change of a table block — contents, compression byte or stored checksum —
is detected** before anything is decompressed or parsed. -/
theorem C15_block_detects (crc : Bytes → Nat) (hcrc : ∀ d, crc d < 2^32) (hdet : DetectsOneByte crc)
    (contents : Bytes) (ctype : UInt8) (i : Nat) (v : UInt8)
    (hi : i < (writeBlock crc contents ctype).length)
    (hv : v ≠ (writeBlock crc contents ctype).getD i 0) :
    readBlock crc (setByte (writeBlock crc contents ctype) i v) contents.length = none :=
  Lemmas.block_detects crc hcrc hdet contents ctype i v hi hv

/-- a truncated block is rejected -/
theorem C15_block_truncation (crc : Bytes → Nat) (contents : Bytes) (ctype : UInt8) (n : Nat)
    (hn : n < (writeBlock crc contents ctype).length) :
    readBlock crc ((writeBlock crc contents ctype).take n) contents.length = none :=
  Lemmas.block_truncation crc contents ctype n hn

/-- **A log fragment whose payload or stored checksum has one byte changed is rejected** (the
reader reports `bad`, drops the record it belongs to and — for the manifest — recovery fails). -/
theorem C15_fragment_detects (c : Cfg) (hcrc : ∀ d, c.crc d < 2^32) (hdet : DetectsOneByte c.crc)
    (hB : H < c.B) (ty : Nat) (hty : ty ≤ 3) (chunk tail : Bytes) (hlen : H + chunk.length ≤ c.B)
    (hlen2 : chunk.length < 65536)
    (i : Nat) (v : UInt8) (hi : i < (emit c ty chunk).length) (hfield : i < 4 ∨ 7 ≤ i)
    (hv : v ≠ (emit c ty chunk).getD i 0) :
    readPhysical c (setByte (emit c ty chunk) i v ++ tail) 0 = .bad tail ((H + chunk.length) % c.B) :=
  Lemmas.fragment_detects c hcrc hdet hB ty hty chunk tail hlen hlen2 i v hi hfield hv

/-- **What the format does not protect** (finding D11): the type byte of a fragment is covered by
no checksum. Turning a `Full` fragment into a `First` one is accepted by the reader. -/
theorem C15_type_byte_unprotected :
    readPhysical tinyCfg (setByte (emit tinyCfg TFull [1, 2]) 6 1) 0 = .ok TFirst [1, 2] [] 9 := by decide

/-- … and neither is the length: a fragment whose length byte is increased makes the reader wait
for bytes that never come (end of file — indistinguishable from a torn write) -/
theorem C15_length_unprotected :
    readPhysical tinyCfg (setByte (emit tinyCfg TFull [1, 2]) 4 3) 0 = .eof := by decide

end Rain.Integrity
