import Rain.Files
import Rain.FilesSpec
import Rain.Lemmas.Files
/-
C11 — "Exactly the needed files are on disk: nothing live deleted, nothing dead kept".
Model: `Rain/Files.lean`. Quantifiers: every sequence of reader/iterator/compaction reference
acquisitions and releases, version installations, table outputs and deletion passes.
(The durable side — no file that RECOVERY needs is removed, orphans of a crash are reclaimed by
the first deletion pass after reopen — is `C11_monitored_removal_keeps_recovery` in
`Props/Durable.lean` plus the crash enumerator.)
-/
namespace Rain.Files

-- the invariant `Good` (states the database can be in) is defined in `Rain/FilesSpec.lean`

/-- **Nothing live is deleted**: a deletion pass keeps every table of every linked version (the
current one and every one pinned by a reader, an iterator or a running compaction), every table
being written, every WAL recovery needs and the current manifest. -/
theorem C11_deletion_keeps_live_files (s : State) :
    (∀ v ∈ s.versions, ∀ t ∈ v.tables, t ∈ s.dir.tables → t ∈ (clean s).tables) ∧
    (∀ t ∈ s.inUse, t ∈ s.dir.tables → t ∈ (clean s).tables) ∧
    (∀ n ∈ s.dir.wals, s.walNo ≤ n ∨ s.prevWal = some n → n ∈ (clean s).wals) ∧
    (∀ m ∈ s.dir.manifests, s.manifestNo ≤ m → m ∈ (clean s).manifests) :=
  Lemmas.deletion_keeps_live s

/-- the invariant is preserved by every step except the defect step -/
theorem C11_good_preserved (s s' : State) (a : Step) (h : Good s) (ha : noLeak [a] = true)
    (hs : step s a = some s') : Good s' :=
  Lemmas.good_step s s' a h ha hs

/-- **Every reference that is given back unlinks its version**: when nobody holds a reference any
more, only the current version is linked … -/
theorem C11_released_means_unlinked (s : State) (h : Good s) (hq : ∀ v ∈ s.versions, v.refs = 0) :
    ∃ c, s.versions = [c] :=
  Lemmas.released_unlinked s h hq

/-- … and **nothing dead is kept**: a deletion pass in that situation (no table being written, no
sticky error) leaves exactly the current version's tables, the WALs from the current one on (and
the one being flushed), and the current manifest. -/
theorem C11_quiescent_exact (s : State) (h : Good s) (hq : ∀ v ∈ s.versions, v.refs = 0)
    (hu : s.inUse = []) :
    ∃ c, current s = some c ∧
      (∀ t, t ∈ (clean s).tables ↔ (t ∈ s.dir.tables ∧ t ∈ c.tables)) ∧
      (∀ t, t ∈ (clean s).temps → t ∈ c.tables) ∧
      (∀ n, n ∈ (clean s).wals ↔ (n ∈ s.dir.wals ∧ (s.walNo ≤ n ∨ s.prevWal = some n))) ∧
      (∀ m, m ∈ (clean s).manifests ↔ (m ∈ s.dir.manifests ∧ s.manifestNo ≤ m)) :=
  Lemmas.quiescent_exact s h hq hu

/-- **What the defect D10 did** (kernel-checked witness): one reference dropped without
`release_version` keeps the old version linked for ever; its table survives every later deletion
pass although no reader exists. -/
theorem C11_leak_keeps_dead_table :
    (run { versions := [{ id := 0, tables := [9], refs := 0 }], inUse := [], walNo := 4, prevWal := none,
           manifestNo := 2, bad := false, dir := { tables := [9], wals := [4], manifests := [2], temps := [] },
           nextId := 1 }
      [.acquire, .leak 0, .beginOutput 12, .install [12] 4 none, .endOutput 12, .removeObsolete]).map
      (fun s => (s.dir.tables, s.versions.map Version.id))
    = some ([9, 12], [0, 1]) := by decide

/-- the same history with the reference given back: the dead table is reclaimed -/
theorem C11_release_reclaims_dead_table :
    (run { versions := [{ id := 0, tables := [9], refs := 0 }], inUse := [], walNo := 4, prevWal := none,
           manifestNo := 2, bad := false, dir := { tables := [9], wals := [4], manifests := [2], temps := [] },
           nextId := 1 }
      [.acquire, .beginOutput 12, .install [12] 4 none, .endOutput 12, .release 0, .removeObsolete]).map
      (fun s => (s.dir.tables, s.versions.map Version.id))
    = some ([12], [1]) := by decide

end Rain.Files
