import Rain.Lemmas.BaseLevel
import Rain.BaseLevel
import Rain.Lemmas.LsmCompact
import Rain.Lemmas.PickBasic
import Rain.Props.Pick
/-
`is_base_level_for_key` with its forward-only pointers equals the specification the LSM model uses
(`isBaseLevel`: no deeper file has the key inside its user-key range) for every sequence of keys in
ascending order, on deeper levels that are sorted and disjoint — what the invariant guarantees and
what the sorted merged input of a compaction provides.  Part of C07: a tombstone is dropped only if
no deeper level can hold an older version of its key, also with the one-pass optimisation.
-/
namespace Rain.Props.BaseLevel
open Rain Rain.Lsm Rain.Lsm.Lemmas Rain.BaseLevel Rain.BaseLevel.Lemmas

/-- **C07: the one-pass base-level test equals its specification.**  For every state satisfying
the invariant, every compaction level and every ascending sequence of user keys (the keys of the
sorted merged input), the answers `is_base_level_for_key` gives with its forward-only pointers —
starting at 0 — are those of `Rain.Lsm.isBaseLevel`, on which the drop rule of the LSM model and
the proof that compactions change no read are built. -/
theorem C07_base_level_pointers_are_exact (s : State) (h : Inv s) (lvl : Nat) (ks : List Bytes)
    (ha : Ascending ks) :
    isBaseSeq (deeperLevels s.levels lvl) [] ks = ks.map (isBaseLevel s.levels lvl) := by
  have inv := (inv_iff s).mp h
  have hmem : ∀ fs ∈ deeperLevels s.levels lvl, ∃ j, 1 ≤ j ∧ fs = lv s.levels j := by
    intro fs hfs
    unfold deeperLevels at hfs
    obtain ⟨i, hi, rfl⟩ := List.getElem_of_mem hfs
    refine ⟨lvl + 2 + i, by omega, ?_⟩
    simp only [List.length_drop] at hi
    rw [List.getElem_drop]
    simp [lv, List.getD, List.getElem?_eq_getElem (by omega : lvl + 2 + i < s.levels.length)]
  have hw : ∀ fs ∈ deeperLevels s.levels lvl, ∀ f ∈ fs, Wf f := by
    intro fs hfs f hf
    obtain ⟨j, _, rfl⟩ := hmem fs hfs
    exact (inv.files j f hf).wf
  have hl : ∀ fs ∈ deeperLevels s.levels lvl, LevelOk fs := by
    intro fs hfs
    obtain ⟨j, hj, rfl⟩ := hmem fs hfs
    exact inv.lvls j hj
  cases ks with
  | nil => rfl
  | cons k ks =>
    have := isBaseSeq_spec (deeperLevels s.levels lvl) [] k (k :: ks) hw hl (passedAll_zero _ k)
      ⟨bytes_st.irrefl k, ha⟩
    rw [this]
    rfl

/-! ### non-vacuity: the layout of `PickExample` — level 2 holds `F0 = a..c`, `Fa = d..k`, `Fb = k..k` -/

section Example
open Rain.Lsm.PickExample

private def kb (c : Char) : Bytes := [c.toNat.toUInt8]

/-- a compaction of level 0 asks about level 2: `a`, `c`, `k` lie in a file, `l`, `z` in none;
the pointer of level 2 ends behind all three files -/
example : isBaseSeq (deeperLevels st.levels 0) [] [kb 'a', kb 'c', kb 'c', kb 'k', kb 'l', kb 'z'] =
    [false, false, false, false, true, true] := by decide +kernel

example : Ascending [kb 'a', kb 'c', kb 'c', kb 'k', kb 'l', kb 'z'] := by
  simp only [Ascending, and_true]; decide +kernel

/-- the order matters: asked out of order, the pointers have passed `F0` and the code's answer for
`a` differs from the specification's — the hypothesis `Ascending` is needed -/
example : isBaseSeq (deeperLevels st.levels 0) [] [kb 'l', kb 'a'] = [true, true] ∧
    isBaseLevel st.levels 0 (kb 'a') = false := by decide +kernel

end Example

end Rain.Props.BaseLevel
