import Rain.Seek
import Rain.Lemmas.Seek
/-
Property theorems over the model of seek charging (`Rain/Seek.lean`), part of C09 (the
background thread never panics): `pick_compaction`'s seek branch builds
`CompactionManifest::new(options, level_of_file_to_compact)` WITHOUT the
`assert!(level + 1 < MAX_NUM_LEVELS)` of the size branch, and `finalize_compaction_inputs` then
indexes `files[level + 1]` (through `get_overlapping_compaction_inputs_strong(level + 1, ..)` and
directly); a recorded level 6 would panic there, a file that is not in `files[level]` would be
"removed" from a level that does not hold it.  The theorems say neither can be recorded.
Helper lemmas live in `Rain/Lemmas/Seek.lean`.

Quantifiers: every list of levels (any files, any key ranges, sorted or not, any number of
levels: `levels.length = 7` is asked only where the bound 7 is stated), every user key and
sequence number, every `SeekState`.  The invariant `invB` of the LSM model is NOT needed: the
statements follow from the shape of `get_overlapping_files` alone (level 0 first, then at most
one file per deeper level, levels ascending).  What the invariant is needed for is the agreement
of `levelCandidate` (first file whose largest key is not below the target) with the binary search
of `find_file_with_upper_bound_range`, see `Rain/Lsm.lean`; corollaries for a `State` with
`invB s = true` are given at the end.
-/
namespace Rain.Seek
open Rain Rain.Lsm Rain.Seek.Lemmas

/-! ### the charge is tied to the result -/

/-- **`Version::get` answers with the first lookup, among the consulted files, that is not
"absent"** — the list whose head is charged is the list whose lookups make the result that the
harness already compares (`lsm.gets`). -/
theorem C09_get_walks_the_consulted_files (levels : List (List File)) (k : Bytes) (snap : Nat) :
    versionGet levels k snap = firstHit ((consulted levels k snap).map (lookupAt k snap)) :=
  versionGet_eq_consulted levels k snap

/-- what a charge means: the charged pair is the first candidate of `get_overlapping_files`, a
second candidate exists, and the lookup in the charged file answered "absent" -/
theorem C09_charge_iff (levels : List (List File)) (k : Bytes) (snap : Nat) (p : Nat × File) :
    getCharge levels k snap = some p ↔
      ∃ q rest, candidates levels k snap = p :: q :: rest ∧ lookupAt k snap p = .absent :=
  chargeOf_cutAtHit

/-! ### where the charged file is -/

/-- **the file charged by a get is a file of the version, at the recorded level** -/
theorem C09_charged_file_is_in_its_level (levels : List (List File)) (k : Bytes) (snap : Nat)
    (l : Nat) (f : File) (h : getCharge levels k snap = some (l, f)) : f ∈ levels.getD l [] := by
  obtain ⟨q, rest, hc, _⟩ := getCharge_eq_some h
  exact (head_of_two hc).1

/-- the same for `record_read_sample` -/
theorem C09_sampled_file_is_in_its_level (levels : List (List File)) (k : Bytes) (seq : Nat)
    (l : Nat) (f : File) (h : sampleCharge levels k seq = some (l, f)) : f ∈ levels.getD l [] := by
  obtain ⟨q, rest, hc⟩ := sampleCharge_eq_some h
  exact (head_of_two hc).1

/-- **the level charged by a get is not the last one**: a second file was consulted; it comes
later in the order, hence it is in level 0 as well (then `l = 0`) or in a deeper level ≤ 6. -/
theorem C09_charged_level_is_not_the_last (levels : List (List File)) (hlen : levels.length = 7)
    (k : Bytes) (snap : Nat) (l : Nat) (f : File) (h : getCharge levels k snap = some (l, f)) :
    l + 1 < 7 := by
  obtain ⟨q, rest, hc, _⟩ := getCharge_eq_some h
  have := (head_of_two hc).2
  simp only [hlen] at this
  omega

/-- the same for `record_read_sample` -/
theorem C09_sampled_level_is_not_the_last (levels : List (List File)) (hlen : levels.length = 7)
    (k : Bytes) (seq : Nat) (l : Nat) (f : File) (h : sampleCharge levels k seq = some (l, f)) :
    l + 1 < 7 := by
  obtain ⟨q, rest, hc⟩ := sampleCharge_eq_some h
  have := (head_of_two hc).2
  simp only [hlen] at this
  omega

/-- for any number of levels ≥ 2 (`MAX_NUM_LEVELS` is a constant of the code) -/
theorem C09_charged_level_has_a_next_level (levels : List (List File)) (hlen : 2 ≤ levels.length)
    (k : Bytes) (snap : Nat) (l : Nat) (f : File)
    (h : getCharge levels k snap = some (l, f) ∨ sampleCharge levels k snap = some (l, f)) :
    l + 1 < levels.length := by
  have hc : ∃ q rest, candidates levels k snap = (l, f) :: q :: rest := by
    rcases h with h | h
    · obtain ⟨q, rest, hc, _⟩ := getCharge_eq_some h; exact ⟨q, rest, hc⟩
    · exact sampleCharge_eq_some h
  obtain ⟨q, rest, hc⟩ := hc
  have := (head_of_two hc).2
  simp only at this
  omega

/-- **a get answered by the first file it consults charges nothing** -/
theorem C09_no_charge_when_first_lookup_hits (levels : List (List File)) (k : Bytes) (snap : Nat)
    (p : Nat × File) (rest : List (Nat × File)) (hc : candidates levels k snap = p :: rest)
    (hit : lookupAt k snap p ≠ .absent) :
    consulted levels k snap = [p] ∧ getCharge levels k snap = none := by
  have h1 : consulted levels k snap = [p] := by
    unfold consulted
    rw [hc]
    cases h : lookupAt k snap p <;> simp_all [cutAtHit]
  exact ⟨h1, by simp [getCharge, h1, chargeOf]⟩

/-- the user-key range of a charged file contains the key, and the file does not hold a visible
entry for it (that is what made the seek a wasted one) -/
theorem C09_charged_file_was_a_miss (levels : List (List File)) (k : Bytes) (snap : Nat)
    (l : Nat) (f : File) (h : getCharge levels k snap = some (l, f)) :
    lookupSorted f.entries k snap = .absent ∧ bytesLt k f.smallest.1 = false ∧
      (bytesLt f.largest.1 k = false ∨ kLt f.largest (k, snap) = false) := by
  obtain ⟨q, rest, hc, habs⟩ := getCharge_eq_some h
  have hp : (l, f) ∈ candidates levels k snap := by rw [hc]; simp
  refine ⟨habs, ?_⟩
  rcases candidates_range hp with ⟨a, b⟩ | ⟨a, b⟩
  · exact ⟨a, Or.inl b⟩
  · exact ⟨a, Or.inr b⟩

/-- a get that charges a file charges the file that a read sample at the same internal key would
charge (the converse fails: the sample does not look into the files) -/
theorem C09_get_charge_is_sample_charge (levels : List (List File)) (k : Bytes) (snap : Nat)
    (p : Nat × File) (h : getCharge levels k snap = some p) : sampleCharge levels k snap = some p := by
  obtain ⟨q, rest, hc, _⟩ := getCharge_eq_some h
  simp [sampleCharge, hc, chargeOf]

/-! ### `update_stats` -/

/-- **what `update_stats` records after a get is well placed**: when it answers `true` (a
compaction may be needed) the version had no `file_to_compact`, and the recorded pair is a file of
the version at the recorded level, which is not the last level; the file's `allowed_seeks` has
just reached ≤ 0. -/
theorem C09_recorded_seek_compaction_is_well_placed (levels : List (List File))
    (hlen : levels.length = 7) (k : Bytes) (snap : Nat) (s s' : SeekState)
    (h : updateStats s (getCharge levels k snap) = (s', true)) :
    ∃ l f, getCharge levels k snap = some (l, f) ∧ s.toCompact = none ∧
      s'.toCompact = some (f.num, l) ∧ f ∈ levels.getD l [] ∧ l + 1 < 7 ∧
      s'.allowed f.num = s.allowed f.num - 1 ∧ s'.allowed f.num ≤ 0 := by
  obtain ⟨l, f, hc, hn, ht, ha, hle, _⟩ := updateStats_true h
  exact ⟨l, f, hc, hn, ht, C09_charged_file_is_in_its_level levels k snap l f hc,
    C09_charged_level_is_not_the_last levels hlen k snap l f hc, ha, hle⟩

/-- the same after a read sample -/
theorem C09_recorded_sample_compaction_is_well_placed (levels : List (List File))
    (hlen : levels.length = 7) (k : Bytes) (seq : Nat) (s s' : SeekState)
    (h : updateStats s (sampleCharge levels k seq) = (s', true)) :
    ∃ l f, sampleCharge levels k seq = some (l, f) ∧ s.toCompact = none ∧
      s'.toCompact = some (f.num, l) ∧ f ∈ levels.getD l [] ∧ l + 1 < 7 ∧
      s'.allowed f.num = s.allowed f.num - 1 ∧ s'.allowed f.num ≤ 0 := by
  obtain ⟨l, f, hc, hn, ht, ha, hle, _⟩ := updateStats_true h
  exact ⟨l, f, hc, hn, ht, C09_sampled_file_is_in_its_level levels k seq l f hc,
    C09_sampled_level_is_not_the_last levels hlen k seq l f hc, ha, hle⟩

/-- **`update_stats` never overwrites a recorded `file_to_compact`** (and answers `false`) -/
theorem C09_update_stats_never_overwrites (s : SeekState) (x : Nat × Nat)
    (charge : Option (Nat × File)) (h : s.toCompact = some x) :
    (updateStats s charge).1.toCompact = some x ∧ (updateStats s charge).2 = false :=
  updateStats_keeps charge h

/-- `update_stats` touches the counter of the charged file only, by exactly one -/
theorem C09_update_stats_decrements_one (s : SeekState) (l : Nat) (f : File) (n : Nat) :
    (updateStats s (some (l, f))).1.allowed n = if n = f.num then s.allowed n - 1 else s.allowed n := by
  rw [updateStats_some]
  by_cases hc : s.allowed f.num - 1 ≤ 0 ∧ s.toCompact = none
  · rw [if_pos hc]; by_cases hn : n = f.num <;> simp [hn]
  · rw [if_neg hc]; by_cases hn : n = f.num <;> simp [hn]

/-- what `pick_compaction`'s seek branch needs of `SeekCompactionMetadata` -/
def WellPlaced (levels : List (List File)) (t : Option (Nat × Nat)) : Prop :=
  ∀ n l, t = some (n, l) → l + 1 < 7 ∧ ∃ f, f ∈ levels.getD l [] ∧ f.num = n

/-- **whatever is read from a version, and however often, its `file_to_compact` is well placed**:
a new version starts without one (`new_from_current` resets it), gets and read samples are the
only writers. -/
theorem C09_seek_compaction_stays_well_placed (levels : List (List File))
    (hlen : levels.length = 7) (reads : List Read) (s : SeekState)
    (h : WellPlaced levels s.toCompact) : WellPlaced levels (applyReads levels s reads).toCompact := by
  induction reads generalizing s with
  | nil => exact h
  | cons r rest ih =>
    apply ih
    rcases updateStats_toCompact s (r.charge levels) with he | ⟨_, l, f, hc, he⟩
    · rw [he]; exact h
    · rw [he]
      intro n l' hnl
      simp only [Option.some.injEq, Prod.mk.injEq] at hnl
      obtain ⟨rfl, rfl⟩ := hnl
      cases r with
      | get k snap =>
        exact ⟨C09_charged_level_is_not_the_last levels hlen k snap l f hc,
          f, C09_charged_file_is_in_its_level levels k snap l f hc, rfl⟩
      | sample k seq =>
        exact ⟨C09_sampled_level_is_not_the_last levels hlen k seq l f hc,
          f, C09_sampled_file_is_in_its_level levels k seq l f hc, rfl⟩

theorem C09_fresh_version_seek_compaction_well_placed (levels : List (List File))
    (hlen : levels.length = 7) (reads : List Read) (allowed : Nat → Int) :
    WellPlaced levels (applyReads levels { allowed := allowed, toCompact := none } reads).toCompact :=
  C09_seek_compaction_stays_well_placed levels hlen reads _ (by intro n l h; simp at h)

/-! ### on a database state -/

/-- `DB::get`: no charge when a memtable answers, otherwise the charge of `Version::get`; for a
state satisfying the invariant the charged file is in its level and the level is not the last -/
theorem C09_db_get_charge_is_well_placed (s : State) (hinv : invB s = true) (k : Bytes) (snap : Nat)
    (l : Nat) (f : File) (h : dbGetCharge s k snap = some (l, f)) :
    getCharge s.levels k snap = some (l, f) ∧ lookupSorted s.mem k snap = .absent ∧
      f ∈ s.levels.getD l [] ∧ l + 1 < 7 := by
  have hlen : s.levels.length = 7 := by
    simp only [invB, Bool.and_eq_true, beq_iff_eq] at hinv
    exact hinv.1.1.1.1.1.1.1
  have hg : getCharge s.levels k snap = some (l, f) ∧ lookupSorted s.mem k snap = .absent := by
    unfold dbGetCharge at h
    split at h
    · next hm =>
      split at h
      · exact ⟨h, hm⟩
      · cases h
    · cases h
  exact ⟨hg.1, hg.2, C09_charged_file_is_in_its_level s.levels k snap l f hg.1,
    C09_charged_level_is_not_the_last s.levels hlen k snap l f hg.1⟩

/-! ### non-vacuity: a small concrete layout

level 0: file 5 = { a@5, c@6 }  (range a..c, holds no `b`)
level 1: file 3 = { b@2 }
level 5: file 2 = { x@1 … z@1 without y }, level 6: file 1 = { y@0 … } for the boundary case. -/

section Examples

def exA : Bytes := [0x61]
def exB : Bytes := [0x62]
def exC : Bytes := [0x63]
def exX : Bytes := [0x78]
def exY : Bytes := [0x79]
def exZ : Bytes := [0x7a]

def exF5 : File := mkFile 5 [⟨exA, 5, true, [1]⟩, ⟨exC, 6, true, [2]⟩]
def exF3 : File := mkFile 3 [⟨exB, 2, true, [3]⟩]
def exF2 : File := mkFile 2 [⟨exX, 4, true, [4]⟩, ⟨exZ, 3, true, [5]⟩]
def exF1 : File := mkFile 1 [⟨exY, 1, true, [6]⟩]

def exLevels : List (List File) := [[exF5], [exF3], [], [], [], [exF2], [exF1]]

def exState : State := { mem := [], imm := none, levels := exLevels, lastSeq := 6 }

/-- the layout satisfies the invariant of the LSM model -/
example : invB exState = true := by decide +kernel

/-- a get of `b` consults file 5 of level 0 (absent there) and then finds `b` in level 1: the
level-0 file is charged -/
example : consulted exLevels exB 10 = [(0, exF5), (1, exF3)] ∧
    versionGet exLevels exB 10 = .found [3] ∧
    getCharge exLevels exB 10 = some (0, exF5) := by decide +kernel

/-- a get of `a` is answered by the first file consulted: nothing is charged -/
example : consulted exLevels exA 10 = [(0, exF5)] ∧ versionGet exLevels exA 10 = .found [1] ∧
    getCharge exLevels exA 10 = none := by decide +kernel

/-- a get of a key that no file range contains consults nothing and charges nothing -/
example : consulted exLevels [0x70] 10 = [] ∧ getCharge exLevels [0x70] 10 = none := by
  decide +kernel

/-- the bound `l + 1 < 7` is tight: a get of `y` misses in level 5 and hits in level 6, level 5
is charged -/
example : getCharge exLevels exY 10 = some (5, exF2) ∧ sampleCharge exLevels exY 10 = some (5, exF2) := by
  decide +kernel

/-- a get below the sequence number of `b@2` consults file 5 only (file 3 ends before the target
`b@1` in the internal-key order, so level 1 has no candidate): one miss, no charge; a sample at
`a` sees one file -/
example : consulted exLevels exB 1 = [(0, exF5)] ∧ versionGet exLevels exB 1 = .absent ∧
    getCharge exLevels exB 1 = none ∧ sampleCharge exLevels exB 1 = none ∧
    sampleCharge exLevels exB 10 = some (0, exF5) ∧ sampleCharge exLevels exA 10 = none := by
  decide +kernel

/-- when a memtable answers, `DB::get` charges nothing although `Version::get` would -/
example : dbGetCharge { exState with mem := [⟨exB, 7, false, []⟩], lastSeq := 7 } exB 10 = none ∧
    dbGetCharge exState exB 10 = some (0, exF5) := by decide +kernel

/-- `update_stats`: the last allowed seek of file 5 records (file 5, level 0) and answers `true`;
with seeks left, or with a file already recorded, nothing is recorded -/
example :
    let charge := getCharge exLevels exB 10
    let r1 := updateStats { allowed := fun _ => 1, toCompact := none } charge
    let r2 := updateStats { allowed := fun _ => 2, toCompact := none } charge
    let r3 := updateStats { allowed := fun _ => 1, toCompact := some (2, 5) } charge
    (r1.1.toCompact, r1.2, r1.1.allowed 5, r1.1.allowed 3) = (some (5, 0), true, 0, 1) ∧
    (r2.1.toCompact, r2.2, r2.1.allowed 5) = (none, false, 1) ∧
    (r3.1.toCompact, r3.2, r3.1.allowed 5) = (some (2, 5), false, 0) := by decide +kernel

/-- level 1 holds user key `b` in two files (b@5 ends file 7, b@3 starts file 8; the level is
sorted in the internal-key order), level 2 holds an older `b` -/
def exSplit : List (List File) :=
  [[], [mkFile 7 [⟨exA, 6, true, []⟩, ⟨exB, 5, true, [7]⟩], mkFile 8 [⟨exB, 3, true, [8]⟩, ⟨exC, 2, true, []⟩]],
   [mkFile 4 [⟨exB, 1, true, [4]⟩]], [], [], [], []]

/-- the sequence number of the sampled key matters below level 0: a sample at b@9 charges file 7,
a sample at b@4 charges file 8 -/
example : invB { mem := [], imm := none, levels := exSplit, lastSeq := 6 } = true ∧
    (sampleCharge exSplit exB 9).map (fun p => (p.1, p.2.num)) = some (1, 7) ∧
    (sampleCharge exSplit exB 4).map (fun p => (p.1, p.2.num)) = some (1, 8) := by decide +kernel

/-- a read sample charges where a get does not: the get of `b` at 9 is answered by the first file
it consults, the sample at b@9 sees two files whatever they hold -/
example : versionGet exSplit exB 9 = .found [7] ∧ getCharge exSplit exB 9 = none ∧
    (sampleCharge exSplit exB 9).isSome = true := by decide +kernel

end Examples

end Rain.Seek

/-! ### the seek budget of a new file -/

/-- **a new table file never starts as a seek-compaction candidate**: its budget is positive, so
the first charge of a file cannot record it (with the regenerated constants; a minimum of 0 in
`set_file_size` breaks this obligation) -/
theorem C09_initial_allowed_positive (size : Nat) : 0 < Rain.Seek.initialAllowed size := by
  unfold Rain.Seek.initialAllowed
  simp only []
  split
  · decide
  · rename_i h
    have : ((Rain.Gen.MIN_ALLOWED_SEEKS : Nat) : Int) > 0 := by decide
    omega

/-- the budget is the quotient, floored at the minimum -/
theorem C09_initial_allowed_ge_min (size : Nat) :
    (Rain.Gen.MIN_ALLOWED_SEEKS : Int) ≤ Rain.Seek.initialAllowed size ∧
    ((size / Rain.Gen.SEEK_DATA_SIZE_THRESHOLD : Nat) : Int) ≤ Rain.Seek.initialAllowed size := by
  unfold Rain.Seek.initialAllowed
  simp only []
  split <;> omega

example : Rain.Seek.initialAllowed 0 = 100 ∧ Rain.Seek.initialAllowed (200 * 16384 + 5) = 200 := by
  decide
