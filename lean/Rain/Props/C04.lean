import Rain.DbIter
import Rain.Lemmas.Merge
import Rain.Lemmas.DbIter
/-
C04 — "Iterators yield exactly the visible keys, in order, under any cursor movement".

Only property theorems; helper lemmas are in `Rain/Lemmas/Merge.lean`, `Rain/Lemmas/DbIter.lean`.
Quantifiers: every list of sorted children with globally distinct internal keys (memtable,
immutable memtable, level-0 tables, deeper levels — C13 shows a table's iterator is a cursor over
its sorted entries), every snapshot bound, every sequence of seek / seek_to_first / seek_to_last /
next / prev with arbitrary direction reversals.
-/
namespace Rain.DbIter
open Rain Rain.Lsm Rain.Table Rain.Merge

/-- the children a database iterator merges: each sorted, no internal key occurs twice -/
structure ChildrenOk (children : List (List Entry)) : Prop where
  sorted : ∀ c ∈ children, sortedE c = true
  distinct : (children.flatten.map Entry.key).Nodup

/-- **The merging iterator is a cursor over the sorted union of its children**, for every program
(the direction flag, the re-positioning of non-current children on a reversal, `find_smallest`
/ `find_largest`). -/
theorem C04_merge_refines (children : List (List Entry)) (h : ChildrenOk children) (ops : List COp) :
    (ops.foldl (mergeStep children) (MState.init children)).current children
      = (merged children)[ops.foldl (flatStep (merged children)) (merged children).length]? :=
  Merge.Lemmas.merge_refines children h.sorted h.distinct ops

/-- **The database iterator over one sorted list is a cursor over the visible pairs**: per user key
the newest entry at or below the bound, shown iff it is a put; never a deleted or shadowed entry,
no visible key skipped or repeated, in both directions and across reversals. -/
theorem C04_dbiter_refines (es : List Entry) (hs : sortedE es = true) (snap fuel : Nat)
    (hf : es.length + 1 ≤ fuel) (ops : List UOp) :
    dbCurrent (flatInner es) (ops.foldl (dbStep (flatInner es) snap fuel) (dbInit es.length))
      = (visible snap es none)[ops.foldl (specStep (visible snap es none)) (visible snap es none).length]? :=
  DbIter.Lemmas.dbiter_refines es hs snap fuel hf ops

/-- **C04: the iterator the database builds** (`DatabaseIterator` over `MergingIterator` over the
sources) is positioned exactly where a sorted map of the visible key-value pairs would be. -/
theorem C04_iterator (children : List (List Entry)) (h : ChildrenOk children) (snap fuel : Nat)
    (hf : (merged children).length + 1 ≤ fuel) (ops : List UOp) :
    dbCurrent (mergeInner children)
        (ops.foldl (dbStep (mergeInner children) snap fuel) (dbInit (MState.init children)))
      = (visible snap (merged children) none)[ops.foldl (specStep (visible snap (merged children) none))
          (visible snap (merged children) none).length]? :=
  DbIter.Lemmas.iterator_refines children h.sorted h.distinct snap fuel hf ops

/-- the visible pairs are sorted by user key without repetition (so "a sorted map" is meant
literally) -/
theorem C04_visible_sorted (es : List Entry) (hs : sortedE es = true) (snap : Nat) :
    ((visible snap es none).map Prod.fst).Pairwise (fun a b => bytesLt a b = true) :=
  DbIter.Lemmas.visible_sorted es hs snap

/-- and they are exactly what point reads return (get and iteration agree — C03) -/
theorem C04_visible_is_view (es : List Entry) (hs : sortedE es = true) (snap : Nat) (k v : Bytes) :
    (k, v) ∈ visible snap es none ↔ view es snap k = some v :=
  DbIter.Lemmas.visible_is_view es hs snap k v

/-! ### non-vacuity -/
example :
    let children : List (List Entry) :=
      [[⟨[97], 5, true, [1]⟩, ⟨[99], 2, true, [3]⟩], [⟨[97], 7, false, []⟩, ⟨[98], 1, true, [2]⟩]]
    (children.flatten.map Entry.key).Nodup ∧ (∀ c ∈ children, sortedE c = true) ∧
    visible 6 (merged children) none = [([97], [1]), ([98], [2]), ([99], [3])] ∧
    visible 9 (merged children) none = [([98], [2]), ([99], [3])] := by
  -- plain `decide` is stuck on `mergeTwo` (well-founded recursion does not unfold in the elaborator's
  -- reduction); the kernel evaluates it.  No axiom is added by `+kernel`.
  decide +kernel

end Rain.DbIter
