import Rain.Table
import Rain.Lemmas.Block
import Rain.Lemmas.Table
/-
C13 — "Table files give back exactly what was put in".

Only property theorems; helper lemmas are in `Rain/Lemmas/Block.lean`, `Rain/Lemmas/Table.lean`.
Quantifiers: every restart interval ≥ 1, every non-empty list of key/value byte strings (blocks); every
strictly sorted entry list and EVERY partition of it into non-empty blocks (hence every
`max_block_size`, from one entry per block to the whole table in one block), every lookup key
and sequence bound, every sequence of cursor operations.
-/
namespace Rain.Table
open Rain Rain.Lsm Rain.Block

-- Statement as first written (FALSE for `kvs = []`: `decodeRaw (encodeRaw 2 []) = none`, because
-- the builder always records restart offset 0 and the reader requires every recorded restart
-- offset to be matched by an entry; `src/tables/block.rs` rejects such a block too):
--   theorem C13_block_roundtrip (r : Nat) (hr : 0 < r) (kvs : List (Bytes × Bytes))
--       (hsize : (encodeRaw r kvs).length < 2^32) : decodeRaw (encodeRaw r kvs) = some kvs
-- Proved with the minimal missing hypothesis `hnonempty`; the table builder never emits an empty
-- block (`C13_partition_ok`).
/-- **Blocks round-trip**, for every restart interval and every non-empty list of key/value pairs
(prefix compression, restart points, varint lengths). `hsize` is the range in which the `u32`
fields of the format do not overflow. -/
theorem C13_block_roundtrip (r : Nat) (hr : 0 < r) (kvs : List (Bytes × Bytes))
    (hnonempty : kvs ≠ [])
    (hsize : (encodeRaw r kvs).length < 2^32) :
    decodeRaw (encodeRaw r kvs) = some kvs :=
  Block.Lemmas.block_roundtrip_partial r hr kvs hnonempty hsize

/-- the hypothesis `hnonempty` cannot be dropped -/
example : decodeRaw (encodeRaw 2 []) = none := by decide

-- (as first written, without `hnonempty`: false for `es = []`, as above)
/-- the same for internal-key entries (sequence numbers are `u64`) -/
theorem C13_entry_block_roundtrip (r : Nat) (hr : 0 < r) (es : List Entry)
    (hnonempty : es ≠ [])
    (hseq : ∀ e ∈ es, e.seq < 2^64) (hsize : (encodeBlock r es).length < 2^32) :
    decodeBlock (encodeBlock r es) = some es :=
  Block.Lemmas.entry_block_roundtrip_partial r hr es hnonempty hseq hsize

/-- **Separators**: `smaller ≤ separator < greater` … -/
theorem C13_bytes_separator (a b : Bytes) (h : bytesLt a b = true) :
    bytesLt (bytesSep a b) a = false ∧ bytesLt (bytesSep a b) b = true :=
  Block.Lemmas.bytesSep_spec a b h

theorem C13_key_separator (a b : Bytes × Nat) (h : kLt a b = true) (hb : b.2 ≤ MAXSEQ) :
    kLt (keySep a b) a = false ∧ kLt (keySep a b) b = true :=
  Block.Lemmas.keySep_spec a b h hb

/-- … and `value ≤ successor` -/
theorem C13_bytes_successor (a : Bytes) : bytesLt (bytesSucc a) a = false :=
  Block.Lemmas.bytesSucc_spec a

theorem C13_key_successor (a : Bytes × Nat) : kLt (keySucc a) a = false :=
  Block.Lemmas.keySucc_spec a

/-- **Point lookup.** For every strictly sorted entry list, every partition of it into non-empty
blocks, and every filter that does not reject stored keys, `Table::get` answers exactly as the
specification on the flat list: the first entry at or after `(k, snap)` decides — value,
deletion, or "not in this file". -/
theorem C13_table_get_spec (blocks : List (List Entry)) (hne : ∀ b ∈ blocks, b ≠ [])
    (hsorted : sortedE blocks.flatten = true) (hseq : ∀ e ∈ blocks.flatten, e.seq ≤ MAXSEQ)
    (filt : Nat → Bytes → Bool)
    (hfilt : ∀ i b, blocks[i]? = some b → ∀ e ∈ b, filt i e.ukey = true)
    (k : Bytes) (snap : Nat) (hsnap : snap ≤ MAXSEQ) :
    tableGet filt (mkTable blocks) k snap = lookupSorted blocks.flatten k snap :=
  Table.Lemmas.table_get_spec blocks hne hsorted hseq filt hfilt k snap hsnap

/-- run a cursor program on the two-level iterator / on the flat list (both start invalid) -/
def runTL (t : Table) (ops : List COp) : TL := ops.foldl (tlStep t) (TL.init t)
def runFlat (es : List Entry) (ops : List COp) : Nat := ops.foldl (flatStep es) es.length

/-- **Iteration.** After any sequence of `seek / seek_to_first / seek_to_last / next / prev`
(any reversals), the two-level iterator over any partition is valid exactly when a cursor over
the flat sorted list is, and then shows the same entry: forwards and backwards it yields exactly
the entries, in order, and `seek` lands on the first entry not less than the target. -/
theorem C13_table_iter (blocks : List (List Entry)) (hne : ∀ b ∈ blocks, b ≠ [])
    (hnb : blocks ≠ [])
    (hsorted : sortedE blocks.flatten = true) (hseq : ∀ e ∈ blocks.flatten, e.seq ≤ MAXSEQ)
    (ops : List COp) (hops : ∀ op ∈ ops, ∀ t, op = COp.seek t → t.2 ≤ MAXSEQ) :
    ((runTL (mkTable blocks) ops).valid (mkTable blocks) = decide (runFlat blocks.flatten ops < blocks.flatten.length)) ∧
    ((runTL (mkTable blocks) ops).valid (mkTable blocks) = true →
      (runTL (mkTable blocks) ops).current (mkTable blocks) = blocks.flatten[runFlat blocks.flatten ops]?) :=
  Table.Lemmas.table_iter blocks hne hnb hsorted hseq ops hops

/-- the partition the builder really uses is one of the partitions the theorems quantify over -/
theorem C13_partition_ok (maxBlock : Nat) (es : List Entry) :
    (partition maxBlock es).flatten = es ∧ ∀ b ∈ partition maxBlock es, b ≠ [] :=
  Table.Lemmas.partition_ok maxBlock es

/-- the generated restart interval is admissible -/
theorem C13_restart_interval_ok : 0 < Rain.Gen.RESTART_INTERVAL := by decide

/-! ### non-vacuity -/
example :
    let es : List Entry := [⟨[97, 98], 5, true, [1, 2, 3]⟩, ⟨[97, 98], 3, false, []⟩, ⟨[97, 99, 100], 9, true, [7]⟩]
    sortedE es = true ∧ decodeBlock (encodeBlock 2 es) = some es ∧
    (partition 30 es).length = 2 ∧
    tableGet (fun _ _ => true) (mkTable (partition 30 es)) [97, 98] 4 = Lookup.deleted := by decide

end Rain.Table
