import Rain.Generated.Constants
import Rain.Group
import Rain.Lemmas.Group
/-
Property theorems over the model of group-commit formation (`Rain/Group.lean`:
`DB::build_group_commit_batch` and the pop loop of `DB::apply_changes`), part of C05 (what a
leader writes and whom it acknowledges is a well-defined prefix of the writer queue) and of C02 (a
writer that asked for a synchronous write is never acknowledged by a group whose leader did not).
Helper lemmas live in `Rain/Lemmas/Group.lean`.

Quantifiers: every parameter set (no hypothesis on the three sizes unless stated), every queue of
writers of any length, sizes and flags; `h : build p q = some r` says that the Rust function
returned `Ok` (the queue is not empty and the leader has a batch).  Indices are positions in the
queue, the leader is at 0.  `first` is the leader (`q.head? = some first`).

Nothing here says that the WAL record of a synchronous group IS synced: the code never syncs (see
the header of `Rain/Group.lean`).
-/
namespace Rain.Group
open Rain.Group.Lemmas

/-- `build` fails exactly when the Rust returns `Err` -/
theorem C05_group_exists_iff (p : Params) (q : List Writer) :
    (build p q).isSome = true ↔ ∃ first, q.head? = some first ∧ first.hasBatch = true :=
  build_isSome_iff p q

/-- **the group is a non-empty prefix of the queue; `last_writer` is its last member, or the
batch-less writer right behind it** -/
theorem C05_group_is_a_nonempty_prefix (p : Params) (q : List Writer) (r : Result)
    (h : build p q = some r) :
    1 ≤ r.members ∧ r.members ≤ q.length ∧ r.last < q.length ∧
      (r.last + 1 = r.members ∨
        (r.last = r.members ∧ ∃ w, q[r.members]? = some w ∧ w.hasBatch = false)) :=
  prefix_shape h

/-- every member of the group has a batch (`unwrap` in the loop cannot panic, and no forced
compaction request is written to the WAL) -/
theorem C05_members_have_batches (p : Params) (q : List Writer) (r : Result)
    (h : build p q = some r) (i : Nat) (w : Writer) (hi : i < r.members) (hw : q[i]? = some w) :
    w.hasBatch = true :=
  members_have_batches h i w hi hw

/-- **a writer that asked for a synchronous write is never acknowledged by a group whose leader
did not**: if the leader is not synchronous then no popped writer — member of the group or the
trailing batch-less one — is -/
theorem C02_sync_writers_are_not_acknowledged_by_an_unsynced_group (p : Params) (q : List Writer)
    (r : Result) (h : build p q = some r) (hl : groupSync q = false) (i : Nat) (w : Writer)
    (hi : i < popped r) (hw : q[i]? = some w) : w.sync = false :=
  popped_not_sync h hl i w (Nat.le_of_lt_succ hi) hw

/-- **the size of the group**: the sum of the sizes of its members, and at most the cap — except
that the leader alone may exceed it -/
theorem C05_group_size_is_bounded (p : Params) (q : List Writer) (r : Result) (first : Writer)
    (h : build p q = some r) (hf : q.head? = some first) :
    r.total = sizeOfPrefix q r.members ∧ r.total ≤ max first.size (maxSize p first) :=
  size_bounded h hf

/-- **the group is maximal**: when `last_writer` is the last member and a writer stands right
behind the group, that writer is why the loop stopped — it is synchronous and the leader is not,
or (that not being the case) it has a batch that would push the group over the cap.  (A batch-less
writer there would have been taken as `last_writer`: `C05_batchless_follower_is_swallowed`.) -/
theorem C05_group_is_maximal (p : Params) (q : List Writer) (r : Result) (first : Writer)
    (h : build p q = some r) (hf : q.head? = some first)
    (hlast : r.last + 1 = r.members) (hlen : r.members < q.length) :
    ∃ w, q[r.members]? = some w ∧
      ((w.sync = true ∧ first.sync = false) ∨
        ((w.sync = true → first.sync = true) ∧ w.hasBatch = true ∧
          r.total + w.size > maxSize p first)) :=
  maximal h hf hlast hlen

/-- **a batch-less writer right behind the group is popped with it** (and acknowledged with the
leader's result, without its forced compaction having been performed) — unless it is synchronous
behind a non-synchronous leader, which the code never produces -/
theorem C05_batchless_follower_is_swallowed (p : Params) (q : List Writer) (r : Result)
    (first w : Writer) (h : build p q = some r) (hf : q.head? = some first)
    (hw : q[r.members]? = some w) (hb : w.hasBatch = false) :
    r.last = r.members ↔ (w.sync = true → first.sync = true) :=
  swallowed_iff h hf w hw hb

/-- **the group depends only on the prefix of the queue the loop looked at**: writers arriving
later can only extend the group, and change nothing at all when the loop had stopped before the
end of the queue it saw -/
theorem C05_group_depends_only_on_the_prefix_seen (p : Params) (q extra : List Writer)
    (r r' : Result) (h : build p q = some r) (h' : build p (q ++ extra) = some r') :
    r.members ≤ r'.members ∧ r.last ≤ r'.last ∧ r.total ≤ r'.total ∧
      (r.members < q.length → r' = r) :=
  build_append h h'

/-- the second hypothesis of `C05_group_depends_only_on_the_prefix_seen` is never the problem -/
theorem C05_group_exists_for_longer_queue (p : Params) (q extra : List Writer) (r : Result)
    (h : build p q = some r) : ∃ r', build p (q ++ extra) = some r' :=
  build_append_isSome h extra

/-- **what a harness that knows only the final arrival order `full` may conclude**: the group a
leader formed after seeing the first `n` writers is the group of the whole order, or it is all
`n` writers the leader saw (all with batches), no more than the whole order would give -/
theorem C05_observed_group (p : Params) (full : List Writer) (n : Nat) (r R : Result)
    (h : build p (full.take n) = some r) (hR : build p full = some R) :
    r = R ∨ (r.members = n ∧ r.last + 1 = n ∧ n ≤ R.members) :=
  observed h hR

/-! ### the parameters of the code -/

theorem C05_code_group_parameters :
    0 < codeParams.extra ∧ codeParams.small ≤ codeParams.maxGroup ∧
      codeParams.small + codeParams.extra ≤ codeParams.maxGroup := by decide

/-- with the constants of the code no group exceeds 1 MiB unless the leader alone does -/
theorem C05_code_group_size_cap (q : List Writer) (r : Result) (first : Writer)
    (h : build codeParams q = some r) (hf : q.head? = some first) :
    r.total ≤ max first.size Rain.Gen.MAX_GROUP_COMMIT_SIZE_BYTES := by
  have h1 := (size_bounded h hf).2
  have h2 : maxSize codeParams first ≤ codeParams.maxGroup :=
    maxSize_le C05_code_group_parameters.2.2 first
  have h3 : codeParams.maxGroup = Rain.Gen.MAX_GROUP_COMMIT_SIZE_BYTES := rfl
  omega

/-- a follower of at most `extra` bytes behind a small leader always joins (the group of a small
leader is not needlessly a singleton) -/
theorem C05_small_follower_joins (p : Params) (first w : Writer) (rest : List Writer) (r : Result)
    (h : build p (first :: w :: rest) = some r) (hs : first.size ≤ p.small)
    (hb : w.hasBatch = true) (hsync : w.sync = true → first.sync = true)
    (hw : w.size ≤ p.extra) : 2 ≤ r.members :=
  small_follower_joins h hs hb hsync hw

/-! ### non-vacuity -/

/-- a synchronous follower stops a non-synchronous leader; it is not popped -/
example : build codeParams
    [⟨100, false, true⟩, ⟨200, false, true⟩, ⟨50, true, true⟩, ⟨10, false, true⟩] =
    some { members := 2, last := 1, total := 300 } := by decide

/-- a synchronous leader takes synchronous and non-synchronous followers alike -/
example : build codeParams
    [⟨100, true, true⟩, ⟨200, false, true⟩, ⟨50, true, true⟩] =
    some { members := 3, last := 2, total := 350 } := by decide

/-- a batch-less writer is swallowed as `last_writer`: 2 members, 3 popped; the writer behind it
waits for the next leader -/
example : build codeParams
    [⟨100, false, true⟩, ⟨200, false, true⟩, ⟨0, false, false⟩, ⟨10, false, true⟩] =
    some { members := 2, last := 2, total := 300 } ∧
    popped { members := 2, last := 2, total := 300 } = 3 := by decide

/-- the size cap of a small leader (its size + 128 KiB) stops the loop; the writer that did not
fit is not skipped over: the smaller one behind it is not taken either -/
example : build codeParams
    [⟨1000, false, true⟩, ⟨131072, false, true⟩, ⟨1, false, true⟩, ⟨1, false, true⟩] =
    some { members := 2, last := 1, total := 132072 } ∧
    build codeParams
    [⟨1000, false, true⟩, ⟨131073, false, true⟩, ⟨1, false, true⟩] =
    some { members := 1, last := 0, total := 1000 } := by decide

/-- a big leader (more than 128 KiB) uses the 1 MiB cap -/
example : maxSize codeParams ⟨131073, false, true⟩ = 1048576 ∧
    build codeParams
    [⟨131073, false, true⟩, ⟨500000, false, true⟩, ⟨417503, false, true⟩, ⟨1, false, true⟩] =
    some { members := 3, last := 2, total := 1048576 } := by decide

/-- a leader above the cap goes alone (the only way a group exceeds the cap) -/
example : build codeParams [⟨2000000, false, true⟩, ⟨1, false, true⟩] =
    some { members := 1, last := 0, total := 2000000 } := by decide

/-- `Err`: empty queue, leader without a batch -/
example : build codeParams [] = none ∧
    build codeParams [⟨0, false, false⟩, ⟨1, false, true⟩] = none := by decide

/-- later arrivals extend a group that had taken everything it saw, and leave a stopped one alone -/
example : build codeParams [⟨100, false, true⟩, ⟨200, false, true⟩] =
      some { members := 2, last := 1, total := 300 } ∧
    build codeParams ([⟨100, false, true⟩, ⟨200, false, true⟩] ++ [⟨7, false, true⟩]) =
      some { members := 3, last := 2, total := 307 } ∧
    build codeParams ([⟨100, false, true⟩, ⟨200, true, true⟩] ++ [⟨7, false, true⟩]) =
      build codeParams [⟨100, false, true⟩, ⟨200, true, true⟩] := by decide

/-- the exception in `C05_batchless_follower_is_swallowed` is real in the model: a synchronous
batch-less writer behind a non-synchronous leader is left in the queue -/
example : build codeParams [⟨100, false, true⟩, ⟨0, true, false⟩] =
    some { members := 1, last := 0, total := 100 } := by decide

end Rain.Group
