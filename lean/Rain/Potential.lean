import Rain.Lsm
/-
A natural-number potential over the LSM model (`Rain/Lsm.lean`) that measures how much table work
(table compactions and trivial moves) the stored data can still cause.

Every entry weighs `6 - level` when it sits in a table of that level and `6` while it is still in
the memtable or in the immutable memtable.  A table compaction rewrites entries of level `L` and
`L + 1` into level `L + 1` (and may drop some), a trivial move pushes one table one level down:
both lose at least one unit per level-`L` input entry.  Only a write adds to it.
(`Rain/Props/Potential.lean` has the theorems.)
-/
namespace Rain.Potential
open Rain Rain.Lsm

/-- what one entry of a table of level `lvl` weighs: the number of levels still below it -/
def levelWeight (lvl : Nat) : Nat := 6 - lvl

/-- total number of entries of the files -/
def filesEntries : List File → Nat
  | [] => 0
  | f :: fs => f.entries.length + filesEntries fs

/-- weighted entries of the levels, the head of the list being level `lvl` -/
def depthPotential.go (lvl : Nat) : List (List File) → Nat
  | [] => 0
  | fs :: rest => levelWeight lvl * filesEntries fs + depthPotential.go (lvl + 1) rest

/-- sum over the levels of `levelWeight lvl * (entries stored at level lvl)` -/
def depthPotential (levels : List (List File)) : Nat := depthPotential.go 0 levels

def potential (s : State) : Nat :=
  depthPotential s.levels + 6 * ((s.imm.getD []).length + s.mem.length)

/-- table compactions and trivial moves: the work whose amount the potential bounds -/
def isTableWork : Action → Bool
  | .compact _ => true
  | .trivialMove _ _ => true
  | _ => false

def tableWorkCount : List Action → Nat
  | [] => 0
  | a :: rest => (if isTableWork a then 1 else 0) + tableWorkCount rest

/-- number of operations written by the batches of an action list -/
def written : List Action → Nat
  | [] => 0
  | .write ops :: rest => ops.length + written rest
  | _ :: rest => written rest

end Rain.Potential
