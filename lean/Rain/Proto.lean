/-
Protocol model of RainDB's write path and read cuts (`db.rs`: `apply_changes`,
`build_group_commit_batch`, `apply_batch_to_memtable`, `get`, `get_snapshot`, `new_iterator`;
`writers.rs`), at the granularity of the database mutex: every step below is one critical
section, or one shared access inside an `unlocked_fair` window (the WAL append, each single
memtable insertion).

* Writers queue up; only the head of the queue (the leader) writes. It merges the batches of the
  first `j ≥ 1` queued writers into one group, assigns them consecutive sequence numbers starting at
  `lastSeq + 1` (under the mutex), appends ONE WAL record and inserts the entries one by one
  (mutex released), then — under the mutex again — publishes `lastSeq`, pops the group and hands the
  queue to the next writer.
* Readers (get / snapshot / iterator) take their cut `q := lastSeq` under the mutex and then look
  only at entries with sequence number ≤ q.
* Memtable rotation happens in `make_room_for_write`, before the leader builds its group, never
  between two insertions of a group; it is therefore not a separate step here (the LSM model covers
  what rotation and flush do to the sources).
-/
namespace Rain.Proto

structure Batch where
  id : Nat
  /-- number of operations (0 is allowed: an empty batch) -/
  n : Nat
  deriving DecidableEq, Repr

/-- a batch with its assigned sequence range `[start, start + n)` -/
structure Placed where
  id : Nat
  start : Nat
  n : Nat
  deriving DecidableEq, Repr

/-- what the leader is doing -/
inductive Phase where
  | idle
  /-- group assigned; `walDone`: the WAL record is appended; `todo`: entries still to insert
      (sequence number, batch id), in order -/
  | writing (group : List Placed) (walDone : Bool) (todo : List (Nat × Nat))
  deriving Repr

structure State where
  /-- published sequence number (`prev_sequence_number`) -/
  lastSeq : Nat
  /-- entries in the memtable: (sequence number, batch id) -/
  mem : List (Nat × Nat)
  queue : List Batch
  phase : Phase
  /-- acknowledged batches with their ranges, oldest first -/
  done : List Placed
  /-- WAL records appended so far: one per group -/
  wal : List (List Placed)
  /-- ids handed out to `enqueue` so far (fresh ids) -/
  nextId : Nat
  deriving Repr

def init : State :=
  { lastSeq := 0, mem := [], queue := [], phase := .idle, done := [], wal := [], nextId := 0 }

/-- consecutive placement of a group starting at `s` -/
def place : Nat → List Batch → List Placed
  | _, [] => []
  | s, b :: bs => { id := b.id, start := s, n := b.n } :: place (s + b.n) bs

def entriesOf (p : Placed) : List (Nat × Nat) := (List.range p.n).map fun i => (p.start + i, p.id)

def groupEntries (g : List Placed) : List (Nat × Nat) := (g.map entriesOf).flatten

def groupSize (g : List Placed) : Nat := (g.map Placed.n).sum

inductive Step where
  /-- a client thread enqueues a batch of `n` operations (W1) -/
  | enqueue (n : Nat)
  /-- the leader builds a group of the first `j` queued batches and assigns sequence numbers (W3) -/
  | begin (j : Nat)
  /-- the WAL append (W4) -/
  | walAppend
  /-- one memtable insertion (W5.i) -/
  | insert
  /-- publish the sequence number, pop the group, wake the next writer (W6) -/
  | publish
  deriving Repr

def step (s : State) : Step → Option State
  | .enqueue n =>
    some { s with queue := s.queue ++ [{ id := s.nextId, n := n }], nextId := s.nextId + 1 }
  | .begin j =>
    match s.phase with
    | .idle =>
      if 0 < j ∧ j ≤ s.queue.length then
        let g := place (s.lastSeq + 1) (s.queue.take j)
        some { s with phase := .writing g false (groupEntries g) }
      else none
    | _ => none
  | .walAppend =>
    match s.phase with
    | .writing g false todo => some { s with phase := .writing g true todo, wal := s.wal ++ [g] }
    | _ => none
  | .insert =>
    match s.phase with
    | .writing g true (e :: rest) => some { s with phase := .writing g true rest, mem := s.mem ++ [e] }
    | _ => none
  | .publish =>
    match s.phase with
    | .writing g true [] =>
      some { s with phase := .idle, lastSeq := s.lastSeq + groupSize g,
                    queue := s.queue.drop g.length, done := s.done ++ g }
    | _ => none

def run (s : State) : List Step → Option State
  | [] => some s
  | a :: rest => match step s a with
    | some s' => run s' rest
    | none => none

/-- the batches whose sequence range is assigned but not yet published -/
def inflight (s : State) : List Placed :=
  match s.phase with
  | .writing g _ _ => g
  | .idle => []

/-- what a reader with cut `q` can see -/
def visible (s : State) (q : Nat) : List (Nat × Nat) := s.mem.filter fun e => decide (e.1 ≤ q)

/-! ### the lock file protocol (C17): `DB::open`, `Drop for DB`, `destroy_database` -/

inductive LAction where
  /-- instance `i` attempts `lock_file` (in `DB::open`, after the worker thread is started and
      before recovery touches anything) -/
  | tryOpen (i : Nat)
  /-- instance `i` closes: waits for background work, releases the lock -/
  | close (i : Nat)
  /-- `destroy_database`: try the lock, delete everything, unlock -/
  | destroy
  deriving Repr

structure LState where
  /-- which instance holds the advisory lock -/
  holder : Option Nat
  /-- instances whose `DB::open` succeeded and that are not closed -/
  openInst : List Nat
  /-- is the database directory intact (false after a successful destroy) -/
  intact : Bool
  /-- outcome log: (action, succeeded) -/
  log : List (LAction × Bool)
  deriving Repr

def linit : LState := { holder := none, openInst := [], intact := true, log := [] }

/-- `try_lock_exclusive` fails iff the lock is held (by any open file description, also in the
    same process) -/
def lstep (s : LState) : LAction → LState
  | .tryOpen i =>
    match s.holder with
    | some _ => { s with log := s.log ++ [(.tryOpen i, false)] }
    | none => { s with holder := some i, openInst := s.openInst ++ [i], log := s.log ++ [(.tryOpen i, true)] }
  | .close i =>
    if s.holder = some i then
      { s with holder := none, openInst := s.openInst.filter (· ≠ i), log := s.log ++ [(.close i, true)] }
    else { s with log := s.log ++ [(.close i, false)] }
  | .destroy =>
    match s.holder with
    | some _ => { s with log := s.log ++ [(.destroy, false)] }
    | none => { s with intact := false, log := s.log ++ [(.destroy, true)] }

def lrun (s : LState) (as : List LAction) : LState := as.foldl lstep s

end Rain.Proto
