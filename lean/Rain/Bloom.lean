import Rain.Bytes
import Rain.Generated.Constants
/-
Model of `src/filter_policy.rs` (`BloomFilterPolicy::{new, hash, create_filter, key_may_match}`).
The hash is a parameter of `createFilter` / `mayMatch` (the theorems hold for every hash);
`bloomHash` is the concrete function, used by the driver for byte-exact comparison.

`filter_size_bits as u32` is modelled without truncation: the model is faithful for filters of
fewer than 2^32 bits, which is a hypothesis of the theorems.
-/
namespace Rain.Bloom
open Rain

/-- `BloomFilterPolicy::new`: `floor(bits_per_key * 0.69)` clamped to [1, 30].
    (`bits*69/100` equals the `f64` computation for every `bits_per_key` below 100.) -/
def probesFor (bpk : Nat) : Nat :=
  let k := bpk * 69 / 100
  if k < 1 then 1 else if Rain.Gen.BLOOM_MAX_PROBES < k then Rain.Gen.BLOOM_MAX_PROBES else k

def SEED : UInt32 := Rain.Gen.BLOOM_SEED.toUInt32
def MULT : UInt32 := Rain.Gen.BLOOM_MULTIPLIER.toUInt32

def word (a b c d : UInt8) : UInt32 :=
  a.toUInt32 ||| (b.toUInt32 <<< 8) ||| (c.toUInt32 <<< 16) ||| (d.toUInt32 <<< 24)

/-- the 4-byte groups, then the 0–3 left-over bytes -/
def hashLoop : Bytes → UInt32 → UInt32
  | a :: b :: c :: d :: rest, h =>
    let h1 := (h + word a b c d) * MULT
    hashLoop rest (h1 ^^^ (h1 >>> 16))
  | [a, b, c], h =>
    let h1 := h + (c.toUInt32 <<< 16)
    let h2 := h1 + (b.toUInt32 <<< 8)
    let h3 := (h2 + a.toUInt32) * MULT
    h3 ^^^ (h3 >>> Rain.Gen.BLOOM_ROTATION.toUInt32)
  | [a, b], h =>
    let h2 := h + (b.toUInt32 <<< 8)
    let h3 := (h2 + a.toUInt32) * MULT
    h3 ^^^ (h3 >>> Rain.Gen.BLOOM_ROTATION.toUInt32)
  | [a], h =>
    let h3 := (h + a.toUInt32) * MULT
    h3 ^^^ (h3 >>> Rain.Gen.BLOOM_ROTATION.toUInt32)
  | [], h => h

/-- `BloomFilterPolicy::hash` -/
def bloomHash (bs : Bytes) : UInt32 :=
  hashLoop bs (SEED ^^^ (bs.length.toUInt32 * MULT))

/-- rotate right by 17: the double-hashing increment -/
def delta (h : UInt32) : UInt32 := (h >>> 17) ||| (h <<< 15)

def setBit (a : Bytes) (pos : Nat) : Bytes :=
  a.set (pos / 8) (a.getD (pos / 8) 0 ||| ((1 : UInt8) <<< (pos % 8).toUInt8))

def testBit (a : Bytes) (pos : Nat) : Bool :=
  (a.getD (pos / 8) 0 &&& ((1 : UInt8) <<< (pos % 8).toUInt8)) != 0

/-- the `for _ in 0..num_hash_functions` loop of `create_filter` for one key -/
def addKey (bits : Nat) : Nat → UInt32 → UInt32 → Bytes → Bytes
  | 0, _, _, a => a
  | k+1, h, d, a => addKey bits k (h + d) d (setBit a (h.toNat % bits))

def filterBytes (n bpk : Nat) : Nat :=
  let bits0 := n * bpk
  let bits1 := if bits0 < Rain.Gen.BLOOM_MIN_BITS then Rain.Gen.BLOOM_MIN_BITS else bits0
  (bits1 + 7) / 8

/-- `create_filter` for a policy with `k` probes and `bpk` bits per key -/
def createFilter (hash : Bytes → UInt32) (bpk k : Nat) (keys : List Bytes) : Bytes :=
  let bytes := filterBytes keys.length bpk
  let bits := bytes * 8
  let a := keys.foldl (fun a key => addKey bits k (hash key) (delta (hash key)) a) (List.replicate bytes 0)
  k.toUInt8 :: a

/-- the probe loop of `key_may_match` -/
def probeAll (bits : Nat) : Nat → UInt32 → UInt32 → Bytes → Bool
  | 0, _, _, _ => true
  | k+1, h, d, a => if testBit a (h.toNat % bits) then probeAll bits k (h + d) d a else false

/-- `key_may_match`; `none` is the `Err(Parse)` result for a filter shorter than 2 bytes -/
def mayMatch (hash : Bytes → UInt32) (key : Bytes) (filter : Bytes) : Option Bool :=
  match filter with
  | [] => none
  | [_] => none
  | kb :: a => some (probeAll (a.length * 8) kb.toNat (hash key) (delta (hash key)) a)

end Rain.Bloom
