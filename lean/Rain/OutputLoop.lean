import Rain.Lsm
/-
Model of the OUTPUT side of a table compaction: the `while` loop of
`compaction/worker.rs CompactionWorker::compact_tables` over the merged input, with the table
builder that is opened and closed along the way (`compaction/state.rs
open_compaction_output_file / finish_compaction_output_file`).

Per input entry, in the code's order:
1. while a builder is open — and only then: the `&&` short-circuits — the grandparent rule
   `should_stop_before_key` is asked (it updates its own state whatever it answers); "stop" closes
   the current output;
2. the drop rule (the one of `Rain.Lsm.dropLoop`);
3. an entry that is kept opens an output if none is open, is added, and closes the output when the
   builder reports a file size of at least `max_file_size`.
After the loop an open output is closed.

Both cut policies are PARAMETERS (`stop` with a state of its own, `full` on the entries added so
far), so the theorems of `Rain/Props/OutputLoop.lean` hold for every grandparent layout, every size
setting, every block size and compression outcome.  The places where the Rust code asserts or
unwraps (`finish_compaction_output_file`: a builder must be open; `open_compaction_output_file`:
none may be open; `table_builder_mut`, `current_output_mut`: something must be there) are the
`none` results of the model.
-/
namespace Rain.OutputLoop
open Rain Rain.Lsm

structure CState (σ : Type) where
  /-- entries added to the open table builder, oldest first -/
  builder : Option (List Entry)
  /-- finished outputs, in order -/
  outputs : List (List Entry)
  /-- state of the grandparent rule -/
  gp : σ
  /-- (current user key, sequence number of the previous entry) -/
  prev : Option (Bytes × Nat)

def CState.init {σ : Type} (g : σ) : CState σ := { builder := none, outputs := [], gp := g, prev := none }

/-- `finish_compaction_output_file` (`assert!(self.has_table_builder())`) -/
def finish {σ : Type} (s : CState σ) : Option (CState σ) :=
  match s.builder with
  | some es => some { s with builder := none, outputs := s.outputs ++ [es] }
  | none => none

/-- `open_compaction_output_file` (`assert!(!self.has_table_builder())`) -/
def openOutput {σ : Type} (s : CState σ) : Option (CState σ) :=
  match s.builder with
  | none => some { s with builder := some [] }
  | some _ => none

/-- the decision of the drop rule for `e` after `prev` -/
def dropEntry (q : Nat) (isBase : Bytes → Bool) (prev : Option (Bytes × Nat)) (e : Entry) : Bool :=
  (match (match prev with
          | some (pk, ps) => if pk == e.ukey then some ps else none
          | none => none) with
   | some ps => decide (ps ≤ q)
   | none => false) ||
  (!e.put && decide (e.seq ≤ q) && isBase e.ukey)

/-- the grandparent rule, asked only while a builder is open -/
def askStop {σ : Type} (stop : σ → Entry → Bool × σ) (s : CState σ) (e : Entry) : Option (CState σ) :=
  match s.builder with
  | some _ =>
    let r := stop s.gp e
    let s' := { s with gp := r.2 }
    if r.1 then finish s' else some s'
  | none => some s

/-- a kept entry: open if needed, add, close when full -/
def addEntry {σ : Type} (full : List Entry → Bool) (s : CState σ) (e : Entry) : Option (CState σ) :=
  (match s.builder with
   | none => openOutput s
   | some _ => some s).bind fun s3 =>
    match s3.builder with
    | none => none
    | some es =>
      let s4 := { s3 with builder := some (es ++ [e]) }
      if full (es ++ [e]) then finish s4 else some s4

/-- one iteration of the loop -/
def stepEntry {σ : Type} (stop : σ → Entry → Bool × σ) (full : List Entry → Bool) (q : Nat)
    (isBase : Bytes → Bool) (s : CState σ) (e : Entry) : Option (CState σ) :=
  (askStop stop s e).bind fun s1 =>
    let s2 := { s1 with prev := some (e.ukey, e.seq) }
    if dropEntry q isBase s1.prev e then some s2 else addEntry full s2 e

def loop {σ : Type} (stop : σ → Entry → Bool × σ) (full : List Entry → Bool) (q : Nat)
    (isBase : Bytes → Bool) : CState σ → List Entry → Option (CState σ)
  | s, [] => some s
  | s, e :: rest =>
    match stepEntry stop full q isBase s e with
    | some s' => loop stop full q isBase s' rest
    | none => none

/-- after the loop: "Close any outstanding table files" -/
def finishAll {σ : Type} (s : CState σ) : Option (CState σ) :=
  match s.builder with
  | some _ => finish s
  | none => some s

/-- the outputs of a compaction over the merged input `es` -/
def cutRun {σ : Type} (stop : σ → Entry → Bool × σ) (g : σ) (full : List Entry → Bool) (q : Nat)
    (isBase : Bytes → Bool) (es : List Entry) : Option (List (List Entry)) :=
  ((loop stop full q isBase (CState.init g) es).bind finishAll).map CState.outputs

end Rain.OutputLoop
