/-
The LRU cache (`src/utils/cache.rs`, `LRUCache`) behind the table cache (file number → open table)
and the block cache ((cache id, file offset) → decoded block). A read that goes through a cache is
only right if the cache never answers with the value of another key or with a value older than the
last one inserted for the key.

`items` lists the entries most recently used first (the code's `lru_list` with `cache_entries` as
its index). Capacity is at least 2 (`LRUCache::new` asserts `capacity > 1`).
-/
namespace Rain.Lru

structure Cache where
  cap : Nat
  items : List (Nat × Nat)
  deriving Repr, DecidableEq

def empty (cap : Nat) : Cache := { cap := cap, items := [] }

def lookup (items : List (Nat × Nat)) (k : Nat) : Option Nat :=
  (items.find? fun p => p.1 == k).map Prod.snd

def without (items : List (Nat × Nat)) (k : Nat) : List (Nat × Nat) := items.filter fun p => !(p.1 == k)

/-- `insert`: an existing entry of the key is unlinked, the new one goes to the front, the least
recently used entry is evicted when the capacity is exceeded; returns the value of the entry handed
back to the caller -/
def insert (c : Cache) (k v : Nat) : Cache × Option Nat :=
  let items := (k, v) :: without c.items k
  let items := if c.cap < items.length then items.dropLast else items
  ({ c with items := items }, lookup items k)

/-- `get`: a hit moves the entry to the front -/
def get (c : Cache) (k : Nat) : Cache × Option Nat :=
  match lookup c.items k with
  | some v => ({ c with items := (k, v) :: without c.items k }, some v)
  | none => (c, none)

def remove (c : Cache) (k : Nat) : Cache := { c with items := without c.items k }

def len (c : Cache) : Nat := c.items.length

inductive Op where
  | insert (k v : Nat)
  | get (k : Nat)
  | remove (k : Nat)
  deriving Repr, DecidableEq

/-- one operation: new cache and what the caller sees (`get`/`insert`: the value; `remove`: nothing) -/
def step (c : Cache) : Op → Cache × Option Nat
  | .insert k v => insert c k v
  | .get k => get c k
  | .remove k => (remove c k, none)

def run (c : Cache) : List Op → Cache × List (Option Nat)
  | [] => (c, [])
  | op :: rest =>
    let (c1, out) := step c op
    let (c2, outs) := run c1 rest
    (c2, out :: outs)

/-- the unbounded map after a history (oldest operation first) -/
def specAfter (ops : List Op) : Nat → Option Nat :=
  ops.foldl (fun m op => match op with
    | .insert k v => fun x => if x == k then some v else m x
    | .get _ => m
    | .remove k => fun x => if x == k then none else m x) (fun _ => none)

/-- invariant: keys are distinct and the capacity is respected -/
def inv (c : Cache) : Bool :=
  (c.items.map Prod.fst).eraseDups.length == c.items.length && decide (c.items.length ≤ c.cap)

end Rain.Lru
