import Rain.Log
/-
Model of BOTH status fields of `LogReader` in `src/logs.rs`:

* `has_skipped_data`   (read through `was_read_cleanly_to_end`, already modelled by `readAllS`), and
* `has_corrupted_data` (read through `encountered_corruption`; `VersionSet::recover` refuses to
  open the database when it is set after the manifest has been read to its end).

`readAllF` reads a whole file from offset 0 until `read_record` reports end of file, like
`readAllS`, and returns `(records, clean, corrupted)`.  The two fields are separate pieces of
state (`sk`, `co`), each assigned exactly where the Rust code assigns it:

  logs.rs 459-463  end of file (header or payload cut short, or a trailer cut short):
                   `has_skipped_data = true` only when a fragmented record is pending;
                   `has_corrupted_data` is NOT touched
  logs.rs 471-474  a fragment that fails `BlockRecord::try_from` (type byte > 3: logs.rs 185 / 90;
                   checksum mismatch: logs.rs 190): both fields set, pending record dropped, the
                   reader goes on with the next fragment (the cursor and the block offset were
                   advanced over the whole fragment before parsing: logs.rs 631-635)
  logs.rs 482-485  `Full`   while a fragmented record is pending: both fields set
  logs.rs 490-493  `First`  while a fragmented record is pending: both fields set
  logs.rs 501-504  `Middle` without a pending record: both fields set
  logs.rs 512-513  `Last`   without a pending record: both fields set

Nothing else assigns them (`LogReader::new`, logs.rs 423-424, clears both).  The fields live in
the reader, so they persist from one `read_record` call to the next, while `data_buffer` and
`in_fragmented_record` are locals of one call (logs.rs 448-451).

No definition of `Rain/Log.lean` is changed; `readPhysical` and the fragment-type constants are
reused.
-/
namespace Rain.Log
open Rain

inductive RResF where
  /-- end of file; `clean` as in `RResS.eof`, `corrupt` = `has_corrupted_data` -/
  | eof (clean : Bool) (corrupt : Bool)
  | record (data : Bytes) (rest : Bytes) (boff : Nat) (skipped : Bool) (corrupt : Bool)
  deriving Repr, DecidableEq

/-- `read_record` with the bookkeeping of `has_skipped_data` (`sk`) and `has_corrupted_data`
(`co`).  Without fuel (never the case from `readAllF`) the flags are passed on unchanged. -/
def readRecordLoopF (c : Cfg) : Nat → Bytes → Nat → Bytes → Bool → Bool → Bool → RResF
  | 0, _, _, _, _, _, co => .eof false co
  | fuel+1, rest, boff, acc, frag, sk, co =>
    match readPhysical c rest boff with
    | .eof =>
      -- logs.rs 458-464: `UnexpectedEof`; an unfinished record makes the log dirty, not corrupted
      let t := c.B - boff
      let leftover := if t < H && 0 < t && decide (t ≤ rest.length) then rest.drop t else rest
      .eof (leftover.isEmpty && !frag && !sk) co
    | .bad rest' boff' =>
      -- logs.rs 469-474
      readRecordLoopF c fuel rest' boff' [] false true true
    | .ok ty data rest' boff' =>
      if ty = TFull then
        -- logs.rs 479-487
        .record data rest' boff' (sk || frag) (co || frag)
      else if ty = TFirst then
        -- logs.rs 488-496
        readRecordLoopF c fuel rest' boff' data true (sk || frag) (co || frag)
      else if ty = TMiddle then
        -- logs.rs 497-505
        (if frag then readRecordLoopF c fuel rest' boff' (acc ++ data) true sk co
         else readRecordLoopF c fuel rest' boff' [] false true true)
      else
        -- logs.rs 506-514
        (if frag then .record (acc ++ data) rest' boff' sk co
         else readRecordLoopF c fuel rest' boff' [] false true true)

def readAllLoopF (c : Cfg) : Nat → Bytes → Nat → Bool → Bool → List Bytes × Bool × Bool
  | 0, _, _, _, co => ([], false, co)
  | fuel+1, rest, boff, sk, co =>
    match readRecordLoopF c (rest.length + 1) rest boff [] false sk co with
    | .eof clean corrupt => ([], clean, corrupt)
    | .record d rest' boff' sk' co' =>
      let r := readAllLoopF c fuel rest' boff' sk' co'
      (d :: r.1, r.2.1, r.2.2)

/-- all records, the value of `was_read_cleanly_to_end` and the value of `encountered_corruption`
once `read_record` has reported end of file -/
def readAllF (c : Cfg) (file : Bytes) : List Bytes × Bool × Bool :=
  readAllLoopF c (file.length + 1) file 0 false false

end Rain.Log
