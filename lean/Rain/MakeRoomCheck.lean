import Rain.MakeRoom
/-
Executable form of the hypothesis `Coherent` of the `make_room_for_write` theorems, so that it can
be evaluated on the iterations of REAL calls (the harness groups the recorded iterations by call).
-/
namespace Rain.MakeRoom

def coherentB (rotated : Bool) (x : Vars) : List View → Bool
  | [] => true
  | v :: vs =>
    (!rotated || v.empty) &&
      coherentB (rotated || decide (branch x v = .rotate)) (after x (branch x v)) vs

/-- do the loop variables an iteration of a real call recorded follow from the previous iteration
    by the model's update? (`vars` = the variables each iteration read, in order) -/
def chainB (x : Vars) : List (Vars × View) → Bool
  | [] => true
  | (y, v) :: rest => decide (y = x) && chainB (after x (branch x v)) rest

end Rain.MakeRoom
