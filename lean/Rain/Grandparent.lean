import Rain.Pick
import Rain.OutputLoop
import Rain.Generated.Constants
/-
Model of the GRANDPARENT rule of a table compaction, `compaction/manifest.rs
CompactionManifest::should_stop_before_key`, and of the file list it walks
(`overlapping_grandparents`, computed at the end of `finalize_compaction_inputs`: the files of
level `L + 2` overlapping the user-key range of all inputs).

    while idx < gps.len() && key > gps[idx].largest_key() {
        if self.is_overlapping { bytes += gps[idx].size }
        idx += 1
    }
    is_overlapping = true
    if bytes > 10 * max_file_size { bytes = 0; true } else { false }

It is the `stop` parameter of the output loop (`Rain/OutputLoop.lean`).
-/
namespace Rain.Grandparent
open Rain Rain.Lsm

structure GpState where
  idx : Nat
  bytes : Nat
  overlapping : Bool
  deriving Repr, DecidableEq

def GpState.init : GpState := { idx := 0, bytes := 0, overlapping := false }

/-- the `while` loop over the files from `idx` on: (index, bytes) afterwards -/
def advance (size : Nat → Nat) (key : Bytes × Nat) (counting : Bool) : List File → Nat → Nat → Nat × Nat
  | [], i, b => (i, b)
  | g :: rest, i, b =>
    if kLt g.largest key then
      advance size key counting rest (i + 1) (if counting then b + size g.num else b)
    else (i, b)

/-- `should_stop_before_key`; `limit` = `max_grandparent_overlap_bytes(max_file_size)` -/
def shouldStop (gps : List File) (size : Nat → Nat) (limit : Nat) (st : GpState) (e : Entry) :
    Bool × GpState :=
  let r := advance size e.key st.overlapping (gps.drop st.idx) st.idx st.bytes
  if limit < r.2 then (true, { idx := r.1, bytes := 0, overlapping := true })
  else (false, { idx := r.1, bytes := r.2, overlapping := true })

/-- `max_grandparent_overlap_bytes` -/
def gpLimit (maxFileSize : Nat) : Nat := maxFileSize * Rain.Gen.GRANDPARENT_OVERLAP_MULTIPLIER

/-- `overlapping_grandparents` for the final inputs `(i0, i1)` of a compaction of `level` -/
def grandparents (levels : List (List File)) (level : Nat) (i0 i1 : List File) : List File :=
  if level + 2 < Rain.Gen.MAX_NUM_LEVELS then
    match keyRange i0 with
    | none => []
    | some r0 =>
      let all := keyRange2 r0 i1
      overlapping (levels.getD (level + 2) []) false (some all.1.1) (some all.2.1)
  else []

/-- `CompactionManifest::is_trivial_move`: one level file, no parent file, grandparent overlap
within the limit (the compaction thread moves the file instead of merging it, unless the compaction
is a manual one) -/
def isTrivialMove (size : Nat → Nat) (maxFileSize : Nat) (gps i0 i1 : List File) : Bool :=
  i0.length == 1 && i1.isEmpty && decide (sumSizes size gps ≤ gpLimit maxFileSize)

/-- the answers to a sequence of questions, state threaded through -/
def answers (gps : List File) (size : Nat → Nat) (limit : Nat) : GpState → List Entry → List Bool
  | _, [] => []
  | st, e :: es =>
    let r := shouldStop gps size limit st e
    r.1 :: answers gps size limit r.2 es

end Rain.Grandparent
