import Rain.Lsm
/-
Durability model: the persistent image of a database as complete records, the recovery function,
and a *monitor* — ordering conditions on the stream of completed filesystem operations under which
every prefix of the stream recovers to exactly the acknowledged writes (C02), a torn final write
changes nothing (C16), and a failed operation that is simply absent from the stream changes nothing
either (C08).

Granularity: an operation of the stream is a completed filesystem call as recorded by the
harness' simulated filesystem, abstracted to what recovery can see:
* a log file (WAL or manifest) is the list of its complete records; a partially written record is
  invisible (C12 truncation theorems) and, after the repair of D9, never appended behind;
* a table file is invisible until its footer is written (`completeTable`);
* everything else (directories, temp files before the rename, LOCK, partial writes) is `noop`.

The monitor's conditions on `appendManifest` / `setCurrent` are semantic (the recovered contents
must not change); that they hold for the edits the database writes is what the LSM theorems
(`Rain/Props/Lsm.lean`: flush, compaction and trivial move preserve every view) establish, and
the harness evaluates them on every real edit.  What THIS model adds is the ordering discipline:
which files may be removed when, and when CURRENT may be switched.
-/
namespace Rain.Durable
open Rain Rain.Lsm

structure WBatch where
  start : Nat
  ops : List (Bytes × Option Bytes)
  deriving DecidableEq, Repr

/-- the fields of a `VersionChangeManifest` recovery uses -/
structure Edit where
  walNumber : Option Nat
  added : List (Nat × Nat)      -- (level, table number)
  deleted : List (Nat × Nat)
  deriving DecidableEq, Repr

structure Disk where
  /-- manifest number named by CURRENT -/
  current : Option Nat
  manifests : List (Nat × List Edit)
  wals : List (Nat × List WBatch)
  tables : List (Nat × List Entry)
  deriving Repr

def empty : Disk := { current := none, manifests := [], wals := [], tables := [] }

def lookup {α : Type} (l : List (Nat × α)) (n : Nat) : Option α :=
  (l.find? fun p => p.1 == n).map Prod.snd

def update {α : Type} (l : List (Nat × α)) (n : Nat) (v : α) : List (Nat × α) :=
  if (l.any fun p => p.1 == n) then l.map (fun p => if p.1 == n then (n, v) else p) else l ++ [(n, v)]

def erase {α : Type} (l : List (Nat × α)) (n : Nat) : List (Nat × α) := l.filter fun p => !(p.1 == n)

inductive Op where
  | appendWal (n : Nat) (b : WBatch)
  | createWal (n : Nat)
  | removeWal (n : Nat)
  | completeTable (t : Nat) (es : List Entry)
  | removeTable (t : Nat)
  | createManifest (m : Nat)
  | appendManifest (m : Nat) (e : Edit)
  | setCurrent (m : Nat)
  | removeManifest (m : Nat)
  | noop
  deriving Repr, Inhabited

def apply (d : Disk) : Op → Disk
  | .appendWal n b => { d with wals := update d.wals n ((lookup d.wals n).getD [] ++ [b]) }
  | .createWal n => { d with wals := update d.wals n [] }
  | .removeWal n => { d with wals := erase d.wals n }
  | .completeTable t es => { d with tables := update d.tables t es }
  | .removeTable t => { d with tables := erase d.tables t }
  | .createManifest m => { d with manifests := update d.manifests m [] }
  | .appendManifest m e => { d with manifests := update d.manifests m ((lookup d.manifests m).getD [] ++ [e]) }
  | .setCurrent m => { d with current := some m }
  | .removeManifest m => { d with manifests := erase d.manifests m }
  | .noop => d

/-! ### recovery -/

/-- the table set after replaying edits (`VersionBuilder`) -/
def versionOf (edits : List Edit) : List (Nat × Nat) :=
  edits.foldl (fun v e => (v.filter fun f => !e.deleted.contains f) ++ e.added) []

def walNoOf (edits : List Edit) : Option Nat :=
  edits.foldl (fun w e => match e.walNumber with | some n => some n | none => w) none

def batchEntries (b : WBatch) : List Entry :=
  (List.range b.ops.length).zipWith (fun i op =>
    { ukey := op.1, seq := b.start + i, put := op.2.isSome, val := op.2.getD [] }) b.ops

/-- insertion sort of WAL files by number -/
def insertWal (w : Nat × List WBatch) : List (Nat × List WBatch) → List (Nat × List WBatch)
  | [] => [w]
  | x :: xs => if w.1 < x.1 then w :: x :: xs else x :: insertWal w xs

def sortWals : List (Nat × List WBatch) → List (Nat × List WBatch)
  | [] => []
  | w :: ws => insertWal w (sortWals ws)

structure Recovered where
  version : List (Nat × Nat)
  walNo : Nat
  entries : List Entry
  deriving Repr

/-- `VersionSet::recover` + `DB::recover_unrecorded_logs`: the manifest named by CURRENT gives the
table set and the WAL number; every WAL with a number ≥ that is replayed. Fails if CURRENT or
the manifest is missing, if no record carries a WAL number, or if a referenced table is missing. -/
def recoverFrom (d : Disk) (m : Nat) : Option Recovered :=
  match lookup d.manifests m with
  | none => none
  | some edits =>
    match walNoOf edits with
    | none => none
    | some walNo =>
      let v := versionOf edits
      if v.all (fun f => (lookup d.tables f.2).isSome) then
        let tableEntries := (v.map fun f => (lookup d.tables f.2).getD []).flatten
        let walEntries := (((sortWals d.wals).filter fun w => decide (walNo ≤ w.1)).map
          fun w => (w.2.map batchEntries).flatten).flatten
        some { version := v, walNo := walNo, entries := tableEntries ++ walEntries }
      else none

def recover (d : Disk) : Option Recovered :=
  match d.current with
  | none => none
  | some m => recoverFrom d m

/-- the value of `k` in a recovered database: the entry with the largest sequence number -/
def latest (es : List Entry) (k : Bytes) : Option Bytes :=
  match newest (es.filter fun e => e.ukey == k) with
  | some e => if e.put then some e.val else none
  | none => none

def keysOf (es : List Entry) : List Bytes := es.map Entry.ukey

/-- two entry lists describe the same database contents -/
def sameContents (a b : List Entry) : Bool :=
  (keysOf a ++ keysOf b).all fun k => latest a k == latest b k

def maxSeq (es : List Entry) : Nat := es.foldl (fun m e => if m < e.seq then e.seq else m) 0

/-! ### the monitor -/

def walNumbers (d : Disk) : List Nat := d.wals.map Prod.fst

/-- may this operation be applied to this image? (evaluated by the harness on the real stream) -/
def ok (d : Disk) : Op → Bool
  | .appendWal n b =>
    -- the log being written will be replayed and every log with a larger number is still empty
    -- (a rotation that failed half-way under an I/O error leaves an empty newer file behind while
    -- writes continue to go to the old log), so the batch is replayed last; the batch is newer than
    -- everything recovery would see; sequence numbers inside a batch are consecutive by construction
    match recover d with
    | some r =>
      (walNumbers d).contains n && d.wals.all (fun w => decide (w.1 ≤ n) || w.2.isEmpty) && decide (r.walNo ≤ n) &&
      decide (maxSeq r.entries < b.start)
    | none => false
  | .createWal n =>
    -- a new, larger number; or the re-creation of a still empty log of the newest number (the
    -- creation of a WAL failed half-way under an I/O error and its number is re-used)
    ((walNumbers d).all fun x => decide (x < n)) ||
    ((lookup d.wals n == some []) && (walNumbers d).all fun x => decide (x ≤ n))
  | .removeWal n =>
    match recover d with
    | some r => decide (n < r.walNo)
    | none => false
  | .completeTable t _ =>
    match recover d with
    | some r => !(r.version.map Prod.snd).contains t
    | none => true
  | .removeTable t =>
    match recover d with
    | some r => !(r.version.map Prod.snd).contains t
    | none => false
  | .createManifest m => d.current != some m
  | .appendManifest m e =>
    if d.current == some m then
      match recover d, recover (apply d (.appendManifest m e)) with
      | some r, some r' => sameContents r.entries r'.entries
      | _, _ => false
    else true
  | .setCurrent m =>
    match d.current with
    | none => (recoverFrom d m).isSome            -- very first CURRENT of a new database
    | some _ =>
      match recover d, recoverFrom d m with
      | some r, some r' => sameContents r.entries r'.entries
      | _, _ => false
  | .removeManifest m => d.current != some m
  | .noop => true

/-- run a stream, checking the monitor; `none` = the monitor rejected an operation -/
def runOk (d : Disk) : List Op → Option Disk
  | [] => some d
  | op :: rest => if ok d op then runOk (apply d op) rest else none

/-- index of the first rejected operation (for the harness) -/
def firstBad (d : Disk) : List Op → Nat → Option Nat
  | [], _ => none
  | op :: rest, i => if ok d op then firstBad (apply d op) rest (i + 1) else some i

/-- the batches acknowledged by a stream: the WAL appends, in order -/
def acked : List Op → List WBatch
  | [] => []
  | .appendWal _ b :: rest => b :: acked rest
  | _ :: rest => acked rest

/-- the abstract map after a list of batches -/
def specOfBatches (bs : List WBatch) : Bytes → Option Bytes :=
  bs.foldl (fun m b => specApply m b.ops) (fun _ => none)

end Rain.Durable
