import Rain.Durable
/-
The PERSISTED database: the LSM state machine (`Rain/Lsm.lean`) together with the disk image
(`Rain/Durable.lean`) and the filesystem operations each transition performs, in the order the
code performs them:

* write (`apply_changes`): append the batch to the current WAL, then insert into the memtable;
* rotation (`make_room_for_write`): create the next WAL, the memtable becomes immutable (its WAL
  stays: the manifest still names it);
* flush (`compact_memtable`): write the table, append the edit {wal number := current WAL,
  added := the table} to the manifest, remove the old WAL (`remove_obsolete_files`);
* table compaction (`compact_tables` + `install_compaction_results`): write every output table,
  append the edit {deleted := inputs, added := outputs}, remove the input tables;
* trivial move: append the edit {deleted := (level, file), added := (level + 1, file)}.

`Rain/Props/Persist.lean` proves that every such run is accepted by the durability monitor
(`Durable.ok`) — in particular its SEMANTIC conditions on manifest edits, which `Rain/Durable.lean`
leaves to the LSM theorems, do follow from them — and that the image always recovers to exactly
what the running instance reads.  The two models are thereby composed.
-/
namespace Rain.Persist
open Rain Rain.Lsm Rain.Durable

/-- what the running instance knows about its files -/
structure Ctx where
  /-- manifest named by CURRENT -/
  manifest : Nat
  /-- WAL receiving the writes of the memtable -/
  wal : Nat
  /-- WAL holding the immutable memtable's writes (still replayed by a recovery) -/
  immWal : Option Nat
  /-- the WAL number the manifest records (`VersionSet`'s log number): recovery replays every WAL
  with this number or a larger one.  It is at most the number of the oldest WAL in use: a freshly
  created database whose manifest is re-used keeps the initial number until the first flush. -/
  manWal : Nat
  deriving Repr

/-- the WAL number the manifest names: the immutable memtable's WAL while there is one -/
def Ctx.w0 (c : Ctx) : Nat := c.immWal.getD c.wal

structure PState where
  s : State
  d : Disk
  c : Ctx

/-- an action of the persisted system: an LSM action plus the file number a rotation allocates -/
inductive PAction where
  | write (ops : List (Bytes × Option Bytes))
  | rotate (newWal : Nat)
  | flush (num lvl : Nat)
  | compact (c : Compaction)
  | trivialMove (num lvl : Nat)
  /-- a new manifest is started (`VersionSet::log_and_apply` when no manifest file is open, i.e.
  at `DB::open` unless the old manifest is re-used): snapshot of the current version, then CURRENT
  is switched, then the old manifest is removed -/
  | switchManifest (newManifest : Nat)
  /-- `DB::open` on the image the instance leaves behind (after a clean close or a crash), without
  re-using the last WAL or the manifest: the WALs the manifest names are replayed into level-0
  tables (`t1` for the older one, `t2` for the newer), the next WAL is created, a new manifest gets a
  snapshot of the recovered version and the edit {wal number := the new WAL, added := the new
  tables}, CURRENT is switched, the replayed WALs and the old manifest are removed -/
  | reopen (t1 t2 newWal newManifest : Nat)

/-- the LSM action of a persisted action (`none`: the LSM state is not touched) -/
def PAction.toAction? : PAction → Option Action
  | .write ops => some (.write ops)
  | .rotate _ => some .rotate
  | .flush n l => some (.flush n l)
  | .compact c => some (.compact c)
  | .trivialMove n l => some (.trivialMove n l)
  | .switchManifest _ => none
  | .reopen _ _ _ _ => none

/-- the tables recovery writes: the entries of the older and of the newer replayed WAL -/
def tableOf (t : Nat) : List Entry → List (Nat × List Entry)
  | [] => []
  | e :: es => [(t, e :: es)]

def newTables (s : State) (t1 t2 : Nat) : List (Nat × List Entry) :=
  tableOf t1 (s.imm.getD []) ++ tableOf t2 s.mem

/-- the effect of recovery on the LSM state, as actions of the LSM model: both memtables end up in
level-0 tables -/
def reopenActions (s : State) (t1 t2 : Nat) : List Action :=
  (match s.imm with | some _ => [Action.flush t1 0] | none => []) ++ [Action.rotate, Action.flush t2 0]

/-- `(level, file number)` of every file of the version, level by level (`write_snapshot`) -/
def levelPairsFrom : Nat → List (List File) → List (Nat × Nat)
  | _, [] => []
  | l, fs :: rest => (fs.map fun f => (l, f.num)) ++ levelPairsFrom (l + 1) rest

def levelPairs (L : List (List File)) : List (Nat × Nat) := levelPairsFrom 0 L

/-- the filesystem operations of an action, in order, given the state BEFORE it -/
def opsOf (p : PState) : PAction → List Op
  | .write ops => [.appendWal p.c.wal { start := p.s.lastSeq + 1, ops := ops }]
  | .rotate w => [.createWal w]
  | .flush num lvl =>
    match p.s.imm with
    | some (e :: es) =>
      [.completeTable num (e :: es),
       .appendManifest p.c.manifest { walNumber := some p.c.wal, added := [(lvl, num)], deleted := [] }] ++
      (match p.c.immWal with | some w => [.removeWal w] | none => [])
    | _ =>
      -- an empty immutable memtable: no table; the edit only advances the WAL number
      [.appendManifest p.c.manifest { walNumber := some p.c.wal, added := [], deleted := [] }] ++
      (match p.c.immWal with | some w => [.removeWal w] | none => [])
  | .compact c =>
    (c.outputs.map fun o => Op.completeTable o.1 o.2) ++
    [.appendManifest p.c.manifest
      { walNumber := none,
        added := c.outputs.map fun o => (c.level + 1, o.1),
        deleted := (c.inputs0.map fun n => (c.level, n)) ++ (c.inputs1.map fun n => (c.level + 1, n)) }] ++
    ((c.inputs0 ++ c.inputs1).map fun n => Op.removeTable n)
  | .trivialMove num lvl =>
    [.appendManifest p.c.manifest { walNumber := none, added := [(lvl + 1, num)], deleted := [(lvl, num)] }]
  | .switchManifest m' =>
    [.createManifest m',
     .appendManifest m' { walNumber := some p.c.manWal, added := levelPairs p.s.levels, deleted := [] },
     .setCurrent m',
     .removeManifest p.c.manifest]
  | .reopen t1 t2 w' m' =>
    ((newTables p.s t1 t2).map fun o => Op.completeTable o.1 o.2) ++
    [.createWal w', .createManifest m',
     .appendManifest m' { walNumber := none, added := levelPairs p.s.levels, deleted := [] },
     .appendManifest m' { walNumber := some w', added := (newTables p.s t1 t2).map fun o => (0, o.1),
                          deleted := [] },
     .setCurrent m'] ++
    (match p.c.immWal with | some w => [.removeWal w] | none => []) ++
    [.removeWal p.c.wal, .removeManifest p.c.manifest]

def ctxAfter (c : Ctx) : PAction → Ctx
  | .rotate w => { c with wal := w, immWal := some c.wal }
  | .flush _ _ => { c with immWal := none, manWal := c.wal }
  | .switchManifest m' => { c with manifest := m' }
  | .reopen _ _ w' m' => { manifest := m', wal := w', immWal := none, manWal := w' }
  | _ => c

/-- the LSM part of a step -/
def lsmStep (s : State) (a : PAction) : Option State :=
  match a with
  | .reopen t1 t2 _ _ => run s (reopenActions s t1 t2)
  | _ =>
    match a.toAction? with
    | some x => step s x
    | none => some s

/-- one step: the LSM transition must be enabled; a rotation needs a WAL number above every WAL
on disk, a new manifest a number above every manifest on disk (file numbers are allocated from one
increasing counter) -/
def pstep (p : PState) (a : PAction) : Option PState :=
  let extra : Bool := match a with
    | .rotate w => (p.d.wals.all fun x => decide (x.1 < w))
    | .switchManifest m' => (p.d.manifests.all fun x => decide (x.1 < m'))
    | .reopen _ _ w' m' =>
      (p.d.wals.all fun x => decide (x.1 < w')) && (p.d.manifests.all fun x => decide (x.1 < m'))
    | _ => true
  if extra then
    match lsmStep p.s a with
    | some s' => some { s := s', d := (opsOf p a).foldl apply p.d, c := ctxAfter p.c a }
    | none => none
  else none

def prun (p : PState) : List PAction → Option PState
  | [] => some p
  | a :: rest => match pstep p a with
    | some p' => prun p' rest
    | none => none

/-- the whole operation stream of a run -/
def streamOf (p : PState) : List PAction → List Op
  | [] => []
  | a :: rest => match pstep p a with
    | some p' => opsOf p a ++ streamOf p' rest
    | none => []

/-- a freshly created database: manifest `m` holds one edit naming WAL `w`, which is empty -/
def pinit (m w : Nat) : PState :=
  { s := init,
    d := { current := some m, manifests := [(m, [{ walNumber := some w, added := [], deleted := [] }])],
           wals := [(w, [])], tables := [] },
    c := { manifest := m, wal := w, immWal := none, manWal := w } }

end Rain.Persist
