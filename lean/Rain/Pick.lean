import Rain.Lsm
import Rain.Generated.Constants
/-
Model of how RainDB chooses the input files of a table compaction:
`compaction/manifest.rs` (`CompactionManifest::finalize_compaction_inputs`, `add_boundary_inputs`,
`find_largest_key`, `find_smallest_boundary_file`, `expanded_compaction_byte_size_limit`),
`versioning/version.rs` (`Version::get_overlapping_compaction_inputs`) and
`versioning/file_metadata.rs` (`get_key_range_for_files`, `get_key_range_for_multiple_levels`);
LevelDB's `VersionSet::SetupOtherInputs`, `AddBoundaryInputs`, `Version::GetOverlappingInputs`,
`GetRange`, `GetRange2`.

The SEED (the files of level `L` the caller puts into `input_files[0]` before calling
`finalize_compaction_inputs`) is a parameter: `pick_compaction` uses one file (compaction pointer
or seek-charged file), at level 0 replaced by `get_overlapping_compaction_inputs` of its range;
`compact_range` uses `get_overlapping_compaction_inputs` of a user range, at level > 0 truncated
to a prefix by size.

Deviations: file sizes are not part of `File`, they are supplied as a function of the file number;
sums and the limit `25 * maxFileSize` are natural numbers (the Rust code uses `u64`, which does not
overflow for sizes that fit on a disk).  The Rust loops are unbounded; the model runs them with a
fuel that is proved sufficient (`Rain/Lemmas/Pick*.lean`) whenever every file has
`smallest ≤ largest`.  Where the Rust code panics (empty input list passed to
`get_key_range_for_files`) the model returns what it has.
-/
namespace Rain.Lsm
open Rain

/-! ### `get_overlapping_compaction_inputs` -/

/-- `is_file_range_before_target` -/
def beforeRange (f : File) (lo : Option Bytes) : Bool :=
  match lo with
  | some l => bytesLt f.largest.1 l
  | none => false

/-- `is_file_range_after_target` -/
def afterRange (f : File) (hi : Option Bytes) : Bool :=
  match hi with
  | some h => bytesLt h f.smallest.1
  | none => false

/-- the file is pushed onto `overlapping_files` -/
def inRange (f : File) (lo hi : Option Bytes) : Bool := !(beforeRange f lo || afterRange f hi)

/-- level 0 only: the file starts before the (bounded) start of the search range -/
def widensLo (f : File) (lo : Option Bytes) : Bool :=
  match lo with
  | some l => bytesLt f.smallest.1 l
  | none => false

/-- level 0 only: the file ends after the (bounded) end of the search range -/
def widensHi (f : File) (hi : Option Bytes) : Bool :=
  match hi with
  | some h => bytesLt h f.largest.1
  | none => false

/-- One run of the `while index < len` loop from the current index to either the end of the level
(`inr`: the collected files) or to the first restart (`inl`: the widened range; the Rust code
clears `overlapping_files` and sets `index = 0`). -/
def overlapScan (isLevel0 : Bool) (lo hi : Option Bytes) :
    List File → List File → Sum (Option Bytes × Option Bytes) (List File)
  | [], acc => .inr acc
  | f :: rest, acc =>
    if beforeRange f lo || afterRange f hi then overlapScan isLevel0 lo hi rest acc
    else if !isLevel0 then overlapScan isLevel0 lo hi rest (acc ++ [f])
    else if widensLo f lo then .inl (some f.smallest.1, hi)
    else if widensHi f hi then .inl (lo, some f.largest.1)
    else overlapScan isLevel0 lo hi rest (acc ++ [f])

/-- the loop with its restarts; `fuel` bounds the number of restarts -/
def overlappingFuel (files : List File) (isLevel0 : Bool) :
    Nat → Option Bytes → Option Bytes → List File
  | 0, lo, hi => files.filter fun f => inRange f lo hi
  | n + 1, lo, hi =>
    match overlapScan isLevel0 lo hi files [] with
    | .inr r => r
    | .inl (lo', hi') => overlappingFuel files isLevel0 n lo' hi'

/-- the user-key range the loop ends with (the argument range unless level 0 widened it) -/
def finalRangeFuel (files : List File) (isLevel0 : Bool) :
    Nat → Option Bytes → Option Bytes → Option Bytes × Option Bytes
  | 0, lo, hi => (lo, hi)
  | n + 1, lo, hi =>
    match overlapScan isLevel0 lo hi files [] with
    | .inr _ => (lo, hi)
    | .inl (lo', hi') => finalRangeFuel files isLevel0 n lo' hi'

/-- every restart moves one bound onto a file bound strictly outside the current range, so there
are at most `2 * files.length` restarts -/
def overlapFuel (files : List File) : Nat := 2 * files.length

/-- `Version::get_overlapping_compaction_inputs(level, lo..hi)` on the files of that level;
`none` = unbounded side -/
def overlapping (files : List File) (isLevel0 : Bool) (lo hi : Option Bytes) : List File :=
  overlappingFuel files isLevel0 (overlapFuel files) lo hi

def finalRange (files : List File) (isLevel0 : Bool) (lo hi : Option Bytes) :
    Option Bytes × Option Bytes :=
  finalRangeFuel files isLevel0 (overlapFuel files) lo hi

/-! ### `add_boundary_inputs` -/

/-- `find_largest_key`: largest internal key of the files -/
def largestKey : List File → Option (Bytes × Nat)
  | [] => none
  | f :: fs => some ((f :: fs).foldl (fun m g => if kLt m g.largest then g.largest else m) f.largest)

/-- `find_smallest_boundary_file`: among the level files whose smallest key is above `target` and
has the same user key, the one with the smallest smallest key (the first such in level order) -/
def smallestBoundaryFile (levelFiles : List File) (target : Bytes × Nat) : Option File :=
  levelFiles.foldl (fun acc f =>
    if kLt target f.smallest && f.smallest.1 == target.1 then
      match acc with
      | some b => if kLt f.smallest b.smallest then some f else acc
      | none => some f
    else acc) none

/-- the `loop` of `add_boundary_inputs` -/
def addBoundaryLoop (levelFiles : List File) : Nat → Bytes × Nat → List File → List File
  | 0, _, acc => acc
  | n + 1, key, acc =>
    match smallestBoundaryFile levelFiles key with
    | none => acc
    | some b => addBoundaryLoop levelFiles n b.largest (acc ++ [b])

/-- `add_boundary_inputs(level_files, compaction_files)`: every pushed file has a larger largest
key than the one before, so there are at most `levelFiles.length` iterations -/
def addBoundary (levelFiles inputs : List File) : List File :=
  match largestKey inputs with
  | none => inputs
  | some key => addBoundaryLoop levelFiles levelFiles.length key inputs

/-! ### `get_key_range_for_files`, `get_key_range_for_multiple_levels` -/

/-- one step of the loop of `get_key_range_for_files`: smallest by internal key, largest by USER
key only (LevelDB's `GetRange` compares internal keys here; only the user keys of the result are
ever used for selecting files) -/
def rangeStep (r : (Bytes × Nat) × (Bytes × Nat)) (g : File) : (Bytes × Nat) × (Bytes × Nat) :=
  (if kLt g.smallest r.1 then g.smallest else r.1,
   if bytesLt r.2.1 g.largest.1 then g.largest else r.2)

/-- `get_key_range_for_files` (`none` where the Rust code asserts) -/
def keyRange : List File → Option ((Bytes × Nat) × (Bytes × Nat))
  | [] => none
  | f :: fs => some ((f :: fs).foldl rangeStep (f.smallest, f.largest))

/-- `get_key_range_for_multiple_levels(&[a, b])` given the range of the (non-empty) `a` -/
def keyRange2 (ra : (Bytes × Nat) × (Bytes × Nat)) (b : List File) :
    (Bytes × Nat) × (Bytes × Nat) :=
  match keyRange b with
  | none => ra
  | some rb =>
    (if kLt rb.1 ra.1 then rb.1 else ra.1,
     if bytesLt ra.2.1 rb.2.1 then rb.2 else ra.2)

/-! ### `finalize_compaction_inputs` -/

def sumSizes (size : Nat → Nat) (fs : List File) : Nat := (fs.map fun f => size f.num).sum

/-- `finalize_compaction_inputs` for a manifest at `level` whose `input_files[0]` is `seed` and
whose `input_files[1]` is empty (as `CompactionManifest::new` leaves it): the final
`(input_files[0], input_files[1])` (level `L+1` is never level 0, so no restarts there).
`size` gives the size of a file by number, `maxFileSize` is
`DbOptions::max_file_size`. -/
def setupOtherInputs (size : Nat → Nat) (levels : List (List File)) (level : Nat)
    (seed : List File) (maxFileSize : Nat) : List File × List File :=
  let lv := levels.getD level []
  let lp := levels.getD (level + 1) []
  let in0 := addBoundary lv seed
  match keyRange in0 with
  | none => (in0, [])
  | some r0 =>
    let in1 := addBoundary lp (overlapping lp false (some r0.1.1) (some r0.2.1))
    let all := keyRange2 r0 in1
    if in1.isEmpty then (in0, in1)
    else
      let exp0 := addBoundary lv (overlapping lv (level == 0) (some all.1.1) (some all.2.1))
      let hasExpanded : Bool := decide (in0.length < exp0.length)
      let underLimit : Bool := decide (sumSizes size in1 + sumSizes size exp0 < Rain.Gen.EXPANDED_COMPACTION_MULTIPLIER * maxFileSize)
      if hasExpanded && underLimit then
        match keyRange exp0 with
        | none => (in0, in1)
        | some nr =>
          let exp1 := addBoundary lp (overlapping lp false (some nr.1.1) (some nr.2.1))
          if exp1.length == in1.length then (exp0, exp1) else (in0, in1)
      else (in0, in1)

/-! ### the input side of `validCompaction` -/

/-- literally the clauses of `validCompaction` that do not mention `outputs` or
`smallestSnapshot` -/
def validInputs (s : State) (level : Nat) (in0 in1 : List Nat) : Bool :=
  let lv := s.levels.getD level []
  let lp := s.levels.getD (level + 1) []
  let i0 := pick lv in0
  let i1 := pick lp in1
  let r0 := unpick lv in0
  let r1 := unpick lp in1
  decide (level + 1 < 7) && !i0.isEmpty &&
  decide (i0.length = in0.length) && decide (i1.length = in1.length) &&
  distinctNums in0 && distinctNums in1 &&
  (match hull i0, minKey (i0 ++ i1), maxKey (i0 ++ i1) with
   | some (lo, hi), some loAll, some hiAll =>
     (if level = 0 then
        r0.all fun g => !userRangeOverlaps g lo hi || i0.all fun f => decide (f.num < g.num)
      else
        r0.all fun g => i0.all fun f =>
          kLt g.largest f.smallest || (kLt f.largest g.smallest && !(g.smallest.1 == f.largest.1))) &&
     outside r1 loAll hiAll &&
     (r1.all fun g => !userRangeOverlaps g lo hi) &&
     (r1.all fun g => !(g.smallest.1 == hiAll.1))
   | _, _, _ => false)

/-- the clauses of `validCompaction` about the smallest snapshot and the outputs -/
def validOutputs (s : State) (c : Compaction) : Bool :=
  let lv := s.levels.getD c.level []
  let lp := s.levels.getD (c.level + 1) []
  let i0 := pick lv c.inputs0
  let i1 := pick lp c.inputs1
  let merged := mergeAll ((i0 ++ i1).map File.entries)
  let kept := dropLoop c.smallestSnapshot (isBaseLevel s.levels c.level) none merged
  decide (c.smallestSnapshot ≤ s.lastSeq) &&
  c.outputs.all (fun o => !o.2.isEmpty) &&
  decide ((c.outputs.map Prod.snd).flatten = kept) &&
  distinctNums (c.outputs.map Prod.fst) &&
  c.outputs.all (fun o => !(s.levels.flatten.map File.num).contains o.1)

theorem validCompaction_iff (s : State) (c : Compaction) :
    validCompaction s c = (validInputs s c.level c.inputs0 c.inputs1 && validOutputs s c) := by
  simp only [validCompaction, validInputs, validOutputs]
  ac_rfl

end Rain.Lsm
