import Rain.MakeRoom
import Rain.MakeRoomCheck
namespace Rain.Driver
open Rain.MakeRoom

/-
`room.branches <items>`: items joined by `;`, each `force,allowDelay,bad,l0,fits,empty,imm,prevWal`
(bits as 0/1, `l0` a number): the branch `make_room_for_write` takes in that iteration and the loop
variables afterwards, `<branch>:<force><allowDelay>` per item, joined by `,`.
-/
private def bit? (s : String) : Option Bool :=
  if s == "1" then some true else if s == "0" then some false else none

private def branchName : Branch → String
  | .errBad => "errBad" | .delay => "delay" | .proceed => "proceed" | .waitImm => "waitImm"
  | .waitL0 => "waitL0" | .errPrevWal => "errPrevWal" | .rotate => "rotate"

private def item (s : String) : Option String :=
  match s.splitOn "," with
  | [f, a, b, l0, fits, e, i, p] =>
    match bit? f, bit? a, bit? b, l0.toNat?, bit? fits, bit? e, bit? i, bit? p with
    | some f, some a, some b, some l0, some fits, some e, some i, some p =>
      let x : Vars := { force := f, allowDelay := a }
      let v : View := { bad := b, l0 := l0, fits := fits, empty := e, imm := i, prevWal := p }
      let br := branch x v
      let y := after x br
      let bc (b : Bool) : String := if b then "1" else "0"
      some s!"{branchName br}:{bc y.force}{bc y.allowDelay}"
    | _, _, _, _, _, _, _, _ => none
  | _ => none

private def parseIter (s : String) : Option (Vars × View) :=
  match s.splitOn "," with
  | [f, a, b, l0, fits, e, i, p] =>
    match bit? f, bit? a, bit? b, l0.toNat?, bit? fits, bit? e, bit? i, bit? p with
    | some f, some a, some b, some l0, some fits, some e, some i, some p =>
      some ({ force := f, allowDelay := a },
            { bad := b, l0 := l0, fits := fits, empty := e, imm := i, prevWal := p })
    | _, _, _, _, _, _, _, _ => none
  | _ => none

/-
`room.call <force 0/1> <items>`: the iterations of ONE call in order (items as for
`room.branches`; the recorded loop variables are compared with the model's).  Answer:
`<branches joined by ,> chain=<0/1> coherent=<0/1> rotate=<n> delay=<n> busy=<n>` where `chain` says
whether the recorded loop variables are the model's, `coherent` evaluates the hypothesis of
`C09_make_room_never_spins` and the three counts are over the model's run on the recorded views.
-/
def roomCmd : List String → Option String
  | ["room.branches", items] => ((items.splitOn ";").mapM item).map (",".intercalate ·)
  | ["room.call", force, items] =>
    match bit? force, (items.splitOn ";").mapM parseIter with
    | some f, some its =>
      let views := its.map Prod.snd
      let bs := run (start f) views
      let bc (b : Bool) : String := if b then "1" else "0"
      some s!"{",".intercalate (bs.map branchName)} chain={bc (chainB (start f) its)} coherent={bc (coherentB false (start f) views)} rotate={bs.count .rotate} delay={bs.count .delay} busy={busy bs}"
    | _, _ => none
  | _ => none

end Rain.Driver
