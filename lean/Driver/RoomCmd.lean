import Rain.MakeRoom
namespace Rain.Driver
open Rain.MakeRoom

/-
`room.branches <items>`: items joined by `;`, each `force,allowDelay,bad,l0,fits,empty,imm,prevWal`
(bits as 0/1, `l0` a number): the branch `make_room_for_write` takes in that iteration and the loop
variables afterwards, `<branch>:<force><allowDelay>` per item, joined by `,`.
-/
private def bit? (s : String) : Option Bool :=
  if s == "1" then some true else if s == "0" then some false else none

private def branchName : Branch → String
  | .errBad => "errBad" | .delay => "delay" | .proceed => "proceed" | .waitImm => "waitImm"
  | .waitL0 => "waitL0" | .errPrevWal => "errPrevWal" | .rotate => "rotate"

private def item (s : String) : Option String :=
  match s.splitOn "," with
  | [f, a, b, l0, fits, e, i, p] =>
    match bit? f, bit? a, bit? b, l0.toNat?, bit? fits, bit? e, bit? i, bit? p with
    | some f, some a, some b, some l0, some fits, some e, some i, some p =>
      let x : Vars := { force := f, allowDelay := a }
      let v : View := { bad := b, l0 := l0, fits := fits, empty := e, imm := i, prevWal := p }
      let br := branch x v
      let y := after x br
      let bc (b : Bool) : String := if b then "1" else "0"
      some s!"{branchName br}:{bc y.force}{bc y.allowDelay}"
    | _, _, _, _, _, _, _, _ => none
  | _ => none

def roomCmd : List String → Option String
  | ["room.branches", items] => ((items.splitOn ";").mapM item).map (",".intercalate ·)
  | _ => none

end Rain.Driver
