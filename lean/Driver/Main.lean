import Driver.LogCmd
import Driver.BloomCmd
import Driver.TableCmd
import Driver.IterCmd
import Driver.LsmCmd
import Driver.DurCmd
import Driver.ProtoCmd
import Driver.FilesCmd
import Driver.SchedCmd
import Driver.LruCmd
import Driver.CodecCmd
import Driver.PickCmd
import Driver.BuilderCmd
import Driver.PotentialCmd
import Driver.ScoreCmd
import Driver.GroupCmd
import Driver.SeekCmd
import Driver.BinCmd
import Driver.FlushCmd
import Driver.ManualCmd
import Driver.CutCmd
import Driver.BaseCmd
import Driver.PersistCmd
import Driver.FileNamesCmd
import Driver.RoomCmd
/-
`raindrv`: one request per line on stdin, one answer per line on stdout.
Unknown or malformed requests answer `bad-request` (never a default value).
-/
open Rain.Driver

def dispatch (toks : List String) : String :=
  match toks with
  | [] => "bad-request"
  | cmd :: _ =>
    let r :=
      if cmd.startsWith "log." then logCmd toks
      else if cmd.startsWith "bloom." || cmd.startsWith "filter." then bloomCmd toks
      else if cmd.startsWith "key." || cmd.startsWith "bytes." || cmd.startsWith "block." || cmd.startsWith "table." || cmd.startsWith "lookup." then tableCmd toks
      else if cmd.startsWith "merge." || cmd.startsWith "dbiter." || cmd.startsWith "level." then iterCmd toks
      else if cmd == "lsm.potential" then potentialCmd toks
      else if cmd.startsWith "lsm." then lsmCmd toks
      else if cmd.startsWith "dur." then durCmd toks
      else if cmd.startsWith "proto." then protoCmd toks
      else if cmd.startsWith "files." then filesCmd toks
      else if cmd.startsWith "sched." then schedCmd toks
      else if cmd.startsWith "lru." then lruCmd toks
      else if cmd.startsWith "batch." || cmd.startsWith "edit." then codecCmd toks
      else if cmd.startsWith "pick." then pickCmd toks
      else if cmd.startsWith "builder." then builderCmd toks
      else if cmd.startsWith "score." then scoreCmd toks
      else if cmd.startsWith "group." then groupCmd toks
      else if cmd.startsWith "seek." then seekCmd toks
      else if cmd.startsWith "bin." then binCmd toks
      else if cmd.startsWith "flush." then flushCmd toks
      else if cmd.startsWith "persist." then persistCmd toks
      else if cmd.startsWith "manual." then manualCmd toks
      else if cmd.startsWith "cut." then cutCmd toks
      else if cmd.startsWith "base." then baseCmd toks
      else if cmd.startsWith "fname." then fileNamesCmd toks
      else if cmd.startsWith "room." then roomCmd toks
      else none
    match r with
    | some s => s
    | none => "bad-request"

partial def loop (hin : IO.FS.Stream) (hout : IO.FS.Stream) : IO Unit := do
  let line ← hin.getLine
  if line.isEmpty then return ()
  let toks := (line.trimAscii.toString.splitOn " ").filter (· ≠ "")
  hout.putStrLn (dispatch toks)
  hout.flush
  loop hin hout

def main : IO Unit := do
  loop (← IO.getStdin) (← IO.getStdout)
