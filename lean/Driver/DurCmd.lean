import Rain.Durable
import Driver.LsmCmd
namespace Rain.Driver
open Rain Rain.Lsm Rain.Durable

def parseBatchOps (s : String) : Option (List (Bytes × Option Bytes)) :=
  if s == "_" then some [] else
  (s.splitOn ",").mapM fun t =>
    if t.endsWith "!" then (ofHex (t.dropEnd 1).toString).map fun k => (k, none)
    else match t.splitOn "=" with
      | [k, v] => match ofHex k, ofHex v with
        | some kb, some vb => some (kb, some vb)
        | _, _ => none
      | _ => none

def parsePairs (s : String) : Option (List (Nat × Nat)) :=
  if s == "_" then some [] else
  (s.splitOn ",").mapM fun t =>
    match t.splitOn "." with
    | [a, b] => match a.toNat?, b.toNat? with
      | some x, some y => some (x, y)
      | _, _ => none
    | _ => none

def parseDurOp (s : String) : Option Op :=
  match s.splitOn ":" with
  | ["aw", n, st, ops] =>
    match n.toNat?, st.toNat?, parseBatchOps ops with
    | some a, some b, some o => some (.appendWal a { start := b, ops := o })
    | _, _, _ => none
  | ["cw", n] => n.toNat?.map Op.createWal
  | ["rw", n] => n.toNat?.map Op.removeWal
  | ["ct", t, es] =>
    match t.toNat?, parseEntries es with
    | some a, some l => some (.completeTable a l)
    | _, _ => none
  | ["rt", t] => t.toNat?.map Op.removeTable
  | ["cm", m] => m.toNat?.map Op.createManifest
  | ["am", m, w, ad, de] =>
    match m.toNat?, parsePairs ad, parsePairs de with
    | some a, some x, some y =>
      let wal := if w == "-" then none else w.toNat?
      some (.appendManifest a { walNumber := wal, added := x, deleted := y })
    | _, _, _ => none
  | ["sc", m] => m.toNat?.map Op.setCurrent
  | ["rm", m] => m.toNat?.map Op.removeManifest
  | ["no"] => some .noop
  | _ => none

/-- why did the monitor reject? (diagnostics only) -/
def whyBad (d : Disk) (op : Op) : String :=
  match op with
  | .appendWal n _ => s!"appendWal {n}: wal numbers {walNumbers d}, non-empty {(d.wals.filter fun w => !w.2.isEmpty).map Prod.fst}, recovered walNo {(recover d).map (·.walNo)}"
  | .removeWal n => s!"removeWal {n}: recovered walNo {(recover d).map (·.walNo)}"
  | .removeTable t => s!"removeTable {t}: version {(recover d).map (·.version)}"
  | .completeTable t _ => s!"completeTable {t}: already referenced by the version"
  | .appendManifest m e => s!"appendManifest {m} wal={e.walNumber} added={e.added} deleted={e.deleted}: recovery fails or contents change (recover before: {(recover d).isSome}, after: {(recover (apply d (.appendManifest m e))).isSome})"
  | .setCurrent m => s!"setCurrent {m}: recovery from that manifest fails or yields other contents (ok={(recoverFrom d m).isSome})"
  | .removeManifest m => s!"removeManifest {m}: it is the CURRENT manifest"
  | .createManifest m => s!"createManifest {m}: it is the CURRENT manifest"
  | .createWal n => s!"createWal {n}: wal numbers {walNumbers d}"
  | .noop => "noop"

def durCmd : List String → Option String
  | "dur.run" :: ops =>
    match ops.mapM parseDurOp with
    | none => none
    | some l =>
      -- the monitor starts at the first CURRENT switch (the database exists from then on)
      let rec go (d : Disk) (started : Bool) (rest : List Op) (i : Nat) (fuel : Nat) : String :=
        match fuel, rest with
        | 0, _ => "fuel"
        | _, [] => s!"ok {i}"
        | f+1, op :: tl =>
          let isSC := match op with | .setCurrent _ => true | _ => false
          if started then
            if ok d op then go (apply d op) true tl (i + 1) f
            else s!"bad {i} {whyBad d op}"
          else
            let d' := apply d op
            if isSC then
              (if (recover d').isSome then go d' true tl (i + 1) f else s!"bad {i} first CURRENT does not recover")
            else go d' false tl (i + 1) f
      some (go empty false l 0 (l.length + 1))
  | _ => none

end Rain.Driver
