import Rain.PersistCheck
import Driver.DurCmd
namespace Rain.Driver
open Rain Rain.Lsm Rain.Durable Rain.Persist

/-- which clause of `relB` fails (diagnostics) -/
def relWhy (p : PState) : String :=
  let c (b : Bool) (s : String) : List String := if b then [] else [s]
  let parts : List String :=
    c (invB p.s) "lsm-invariant" ++
    c (decide ((p.d.manifests.map Prod.fst).Nodup) && decide ((p.d.wals.map Prod.fst).Nodup) &&
       decide ((p.d.tables.map Prod.fst).Nodup)) "duplicate-file-number" ++
    c (p.d.current == some p.c.manifest) s!"current={p.d.current}" ++
    (match lookup p.d.manifests p.c.manifest with
     | none => ["manifest-missing"]
     | some es =>
       c (walNoOf es == some p.c.manWal) s!"manifest-wal-number={walNoOf es}-instance-says={p.c.manWal}" ++
       c (decide (p.c.manWal ≤ p.c.w0)) s!"manifest-wal-number-{p.c.manWal}-above-oldest-wal-in-use-{p.c.w0}" ++
       c (sameSet (versionOf es) (levelPairs p.s.levels))
         s!"version-differs:manifest={versionOf es}:instance={levelPairs p.s.levels}") ++
    c (p.s.levels.flatten.all fun f => lookup p.d.tables f.num == some f.entries)
      s!"table-contents-differ:{(p.s.levels.flatten.filter fun f => !(lookup p.d.tables f.num == some f.entries)).map File.num}" ++
    (match lookup p.d.wals p.c.wal with
     | some bs => c (sameSet (batchesFlatB bs) p.s.mem)
         s!"wal-{p.c.wal}-holds-{(batchesFlatB bs).length}-entries-memtable-{p.s.mem.length}"
     | none => [s!"wal-{p.c.wal}-missing"]) ++
    (match p.c.immWal, p.s.imm with
     | none, none => []
     | some wi, some im =>
       c (decide (wi < p.c.wal)) "imm-wal-not-older" ++
       (match lookup p.d.wals wi with
        | some bs => c (sameSet (batchesFlatB bs) im) s!"imm-wal-{wi}-differs"
        | none => [s!"imm-wal-{wi}-missing"])
     | _, _ => ["imm-wal-mismatch"]) ++
    c (p.d.wals.all fun x => x.1 == p.c.wal || some x.1 == p.c.immWal || decide (x.1 < p.c.manWal) || x.2.isEmpty)
      s!"other-wal-with-records:{(p.d.wals.filter fun x => !(x.1 == p.c.wal || some x.1 == p.c.immWal || decide (x.1 < p.c.manWal) || x.2.isEmpty)).map Prod.fst}" ++
    c (p.d.wals.all fun x => decide (x.1 ≤ p.c.wal) || x.2.isEmpty) "newer-wal-with-records"
  if parts.isEmpty then "ok" else ",".intercalate parts

/-
`persist.rel <lastSeq> <mem> <imm> <levels> <manifest> <wal> <immWal|-> <op> <op> …`
  state tokens as for `lsm.inv` (every file WITH its entries), the numbers the instance uses for
  its manifest and WALs, then the recorded filesystem operations (tokens of `dur.run`) from the
  creation of the directory on.  The image is rebuilt by applying the operations; answer
  `rel=true tight=true|false` or `rel=false:<failing clauses> tight=…` (`relB`, `tightB`).
-/
def persistCmd : List String → Option String
  | "persist.rel" :: lastSeq :: mem :: imm :: levels :: man :: wal :: iw :: ops =>
    match lastSeq.toNat?, parseEntries mem, parseImm imm, parseLevels levels, man.toNat?, wal.toNat?,
          ops.mapM parseDurOp with
    | some ls, some m, some i, some lv, some mn, some w, some l =>
      let immWal : Option Nat := if iw == "-" then none else iw.toNat?
      let d := l.foldl apply empty
      -- the WAL number the manifest records is what the instance's version set holds as its log
      -- number: it is read off the manifest (the relation then requires it not to exceed the oldest
      -- WAL in use and every WAL at or above it, other than the memtables', to be empty)
      let manWal : Nat := ((lookup d.manifests mn).bind walNoOf).getD 0
      let p : PState := { s := { mem := m, imm := i, levels := lv, lastSeq := ls }, d := d,
                          c := { manifest := mn, wal := w, immWal := immWal, manWal := manWal } }
      let r := if relB p then "rel=true" else s!"rel=false:{relWhy p}"
      some s!"{r} tight={tightB p}"
    | _, _, _, _, _, _, _ => none
  | _ => none

end Rain.Driver
