import Rain.BaseLevel
import Driver.PickCmd
namespace Rain.Driver
open Rain Rain.Lsm Rain.BaseLevel

/-
`base.seq <level> <levels> <keys>`: `is_base_level_for_key` of a compaction of `<level>` asked
  about the user keys `<keys>` (hex joined by `,`, `-` = empty key) one after the other, with the
  pointers of the code (`isBaseSeq`), then `/`, then the specification's answers (`isBaseLevel`).
  Answer: `<0/1 per key>/<0/1 per key>`.
-/
def baseCmd : List String → Option String
  | ["base.seq", level, levels, keys] =>
    match level.toNat?, parseLevels levels, (keys.splitOn ",").mapM ofHex with
    | some l, some lv, some ks =>
      let bit (b : Bool) : Char := if b then '1' else '0'
      let a := String.ofList ((isBaseSeq (deeperLevels lv l) [] ks).map bit)
      let b := String.ofList ((ks.map (isBaseLevel lv l)).map bit)
      some s!"{a}/{b}"
    | _, _, _ => none
  | _ => none

end Rain.Driver
