import Rain.FileNames
namespace Rain.Driver
open Rain.FileNames

/-
Names travel as decimal code points joined by `,` (`-` = the empty name); lists of names are
joined by `;` (`-` = no name).
`fname.fmt <wal|table|manifest|temp|current|lock> <n>`: the name the database writes.
`fname.parse <name>`: `wal:<n>` `table:<n>` `manifest:<n>` `temp:<n>` `current` `lock` or `err`.
`fname.current <contents>`: the manifest number CURRENT names, or `err`.
`fname.pass <wal|data|main> <live numbers joined by , or -> <walNo> <prevWal or -> <manifestNo> <names>`:
  one `1` (deleted) / `0` (kept) per name.
`fname.missing <live numbers> <names>`: the live table numbers recovery reports missing (`-` = none).
`fname.logs <minLog> <names>`: the WAL numbers recovery replays, joined by `,` (`-` = none).
-/
private def parseName (s : String) : Option Name :=
  if s == "-" then some [] else (s.splitOn ",").mapM String.toNat?

private def parseNames (s : String) : Option (List Name) :=
  if s == "-" then some [] else (s.splitOn ";").mapM parseName

private def parseNats (s : String) : Option (List Nat) :=
  if s == "-" then some [] else (s.splitOn ",").mapM String.toNat?

private def showName (n : Name) : String :=
  if n.isEmpty then "-" else ",".intercalate (n.map toString)

private def showKind : Option Kind → String
  | some (.wal n) => s!"wal:{n}"
  | some (.table n) => s!"table:{n}"
  | some (.manifest n) => s!"manifest:{n}"
  | some (.temp n) => s!"temp:{n}"
  | some .current => "current"
  | some .lock => "lock"
  | none => "err"

def fileNamesCmd : List String → Option String
  | ["fname.fmt", kind, n] =>
    match n.toNat? with
    | none => none
    | some n =>
      match kind with
      | "wal" => some (showName (nameOf (.wal n)))
      | "table" => some (showName (nameOf (.table n)))
      | "manifest" => some (showName (nameOf (.manifest n)))
      | "temp" => some (showName (nameOf (.temp n)))
      | "current" => some (showName (nameOf .current))
      | "lock" => some (showName (nameOf .lock))
      | "current-contents" => some (showName (currentContents n))
      | _ => none
  | ["fname.parse", name] => (parseName name).map fun nm => showKind (parse nm)
  | ["fname.current", contents] =>
    (parseName contents).map fun c => match parseCurrent c with
      | some n => toString n
      | none => "err"
  | ["fname.pass", folder, live, walNo, prevWal, manifestNo, names] =>
    let f : Option Folder := match folder with
      | "wal" => some .wal | "data" => some .data | "main" => some .main | _ => none
    let pw : Option (Option Nat) := if prevWal == "-" then some none else prevWal.toNat?.map some
    match f, parseNats live, walNo.toNat?, pw, manifestNo.toNat?, parseNames names with
    | some f, some live, some w, some pw, some m, some names =>
      let L : Live := { live := live, walNo := w, prevWal := pw, manifestNo := m }
      some (String.ofList (names.map fun nm => if deletes L f nm then '1' else '0'))
    | _, _, _, _, _, _ => none
  | ["fname.missing", live, names] =>
    match parseNats live, parseNames names with
    | some live, some names =>
      let r := missingFiles live names
      some (if r.isEmpty then "-" else ",".intercalate (r.map toString))
    | _, _ => none
  | ["fname.logs", minLog, names] =>
    match minLog.toNat?, parseNames names with
    | some m, some names =>
      let r := logsToRecover m names
      some (if r.isEmpty then "-" else ",".intercalate (r.map toString))
    | _, _ => none
  | _ => none

end Rain.Driver
