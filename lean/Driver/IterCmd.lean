import Rain.DbIter
import Rain.Concat
import Driver.TableCmd
namespace Rain.Driver
open Rain Rain.Lsm Rain.Table Rain.Merge Rain.DbIter

def parseChildren (s : String) : Option (List (List Entry)) :=
  if s == "-" then some [] else (s.splitOn ";").mapM parseEntries

def runMerge (children : List (List Entry)) : MState → List COp → List String → List String
  | _, [], acc => acc.reverse
  | s, op :: ops, acc =>
    let s' := mergeStep children s op
    let out := match s'.current children with
      | some e => showEntry e
      | none => "-"
    runMerge children s' ops (out :: acc)

def parseUOp (s : String) : Option UOp :=
  match s.splitOn ":" with
  | ["f"] => some .first
  | ["l"] => some .last
  | ["n"] => some .next
  | ["p"] => some .prev
  | ["s", k] => (ofHex k).map UOp.seek
  | _ => none

def runDb {σ} (I : Inner σ) (snap fuel : Nat) : DState σ → List UOp → List String → List String
  | _, [], acc => acc.reverse
  | s, op :: ops, acc =>
    let s' := dbStep I snap fuel s op
    let out := match dbCurrent I s' with
      | some (k, v) => s!"{hexOut k}={hexOut v}"
      | none => "-"
    runDb I snap fuel s' ops (out :: acc)

def runLevel (files : List (List Entry)) : TL → List COp → List String → List String
  | _, [], acc => acc.reverse
  | s, op :: ops, acc =>
    let s' := Rain.Concat.step files s op
    let out := if s'.valid (Rain.Concat.mkLevel files) then
        match s'.current (Rain.Concat.mkLevel files) with
        | some e => showEntry e
        | none => "-"
      else "-"
    runLevel files s' ops (out :: acc)

/-
`level.run <files> <program>`: the model of `FilesEntryIterator` (`Rain.Concat.step`) over the files
(entry lists joined by `;`, as the children of `merge.run`), one output per operation.
-/
def iterCmd : List String → Option String
  | ["level.run", fs, prog] =>
    match parseChildren fs, (prog.splitOn ",").mapM parseOp with
    | some files, some ops => some (" ".intercalate (runLevel files (Rain.Concat.init files) ops []))
    | _, _ => none
  | ["merge.run", ch, prog] =>
    match parseChildren ch, (prog.splitOn ",").mapM parseOp with
    | some children, some ops => some (" ".intercalate (runMerge children (MState.init children) ops []))
    | _, _ => none
  | ["merge.all", ch] =>
    (parseChildren ch).map fun children => showEntries (merged children)
  | ["dbiter.run", ch, snap, prog] =>
    match parseChildren ch, snap.toNat?, (prog.splitOn ",").mapM parseUOp with
    | some children, some sn, some ops =>
      let fuel := (children.map List.length).sum + 2
      some (" ".intercalate (runDb (mergeInner children) sn fuel (dbInit (MState.init children)) ops []))
    | _, _, _ => none
  | ["dbiter.visible", ch, snap] =>
    match parseChildren ch, snap.toNat? with
    | some children, some sn =>
      let v := visible sn (merged children) none
      some (if v.isEmpty then "_" else ",".intercalate (v.map fun kv => s!"{hexOut kv.1}={hexOut kv.2}"))
    | _, _ => none
  | _ => none

end Rain.Driver
