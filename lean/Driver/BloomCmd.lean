import Rain.FilterBlock
import Driver.LogCmd
namespace Rain.Driver
open Rain Rain.Bloom Rain.FilterBlock

def realCreate (bpk : Nat) (keys : List Bytes) : Bytes :=
  createFilter bloomHash bpk (probesFor bpk) keys

/-- blocks are given as `off:key,key,...` tokens (`off:` for a block without keys) -/
def parseBlock (s : String) : Option (Nat × List Bytes) :=
  match s.splitOn ":" with
  | [o, ks] =>
    match o.toNat? with
    | none => none
    | some off =>
      if ks.isEmpty then some (off, [])
      else (ks.splitOn ",").mapM ofHex |>.map (fun l => (off, l))
  | _ => none

def bloomCmd : List String → Option String
  | ["bloom.hash", k] => (ofHex k).map fun b => s!"{(bloomHash b).toNat}"
  | "bloom.create" :: bpk :: keys =>
    match bpk.toNat?, parseHexList keys with
    | some b, some ks => some (hexOut (realCreate b ks))
    | _, _ => none
  | ["bloom.match", key, filter] =>
    match ofHex key, ofHex filter with
    | some k, some f =>
      match mayMatch bloomHash k f with
      | none => some "err"
      | some true => some "true"
      | some false => some "false"
    | _, _ => none
  | "filter.build" :: bpk :: blocks =>
    match bpk.toNat?, blocks.mapM parseBlock with
    | some b, some bs =>
      some (hexOut (finalize (realCreate b) (buildBlocks (realCreate b) {} bs)))
    | _, _ => none
  | ["filter.match", data, off, key] =>
    match ofHex data, off.toNat?, ofHex key with
    | some d, some o, some k =>
      match parse d with
      | none => some "parse-error"
      | some r => some (if keyMayMatch (mayMatch bloomHash) r o k then "true" else "false")
    | _, _, _ => none
  | _ => none

end Rain.Driver
