import Rain.Generated.Constants
import Rain.Group
namespace Rain.Driver
open Rain Rain.Group

/-- `<size>:<s|n>:<b|e>` — `s` synchronous, `n` not; `b` has a batch, `e` batch-less (a forced
compaction request; its size is ignored) -/
def parseWriter (s : String) : Option Writer :=
  match s.splitOn ":" with
  | [sz, sy, hb] =>
    match sz.toNat?, sy, hb with
    | some n, "s", "b" => some { size := n, sync := true, hasBatch := true }
    | some n, "n", "b" => some { size := n, sync := false, hasBatch := true }
    | some _, "s", "e" => some { size := 0, sync := true, hasBatch := false }
    | some _, "n", "e" => some { size := 0, sync := false, hasBatch := false }
    | _, _, _ => none
  | _ => none

/-- writers joined by `,`; `-` = the empty queue -/
def parseQueue (s : String) : Option (List Writer) :=
  if s == "-" then some [] else (s.splitOn ",").mapM parseWriter

/-
`group.params`
  the constants the code uses, as regenerated from /repo's sources for this run:
  `<MAX_GROUP_COMMIT_SIZE_BYTES> <GROUP_COMMIT_SMALL_WRITE_THRESHOLD_BYTES> <SMALL_WRITE_ADDITIONAL_GROUP_COMMIT_SIZE_BYTES>`
`group.build <maxGroup> <small> <extra> <w1,w2,...>`
  the writer queue as the leader sees it, leader first; each writer `<size>:<s|n>:<b|e>`, `-` for
  the empty queue.  Answer: `error` where `build_group_commit_batch` returns `Err`, otherwise
  `<members> <last> <total>`: number of writers whose batches form the group, queue index of
  `last_writer` (`last + 1` writers are popped and acknowledged), sum of the members' sizes.
-/
def groupCmd : List String → Option String
  | ["group.params"] =>
    some s!"{codeParams.maxGroup} {codeParams.small} {codeParams.extra}"
  | ["group.build", mg, sm, ex, ws] =>
    match mg.toNat?, sm.toNat?, ex.toNat?, parseQueue ws with
    | some a, some b, some c, some q =>
      match build { maxGroup := a, small := b, extra := c } q with
      | none => some "error"
      | some r => some s!"{r.members} {r.last} {r.total}"
    | _, _, _, _ => none
  | _ => none

end Rain.Driver
