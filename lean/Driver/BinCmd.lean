import Rain.BinSearch
import Driver.LsmCmd
namespace Rain.Driver
open Rain Rain.Lsm Rain.BinSearch

/-
`bin.findfile <level> <queries>`
  `<level>`: files joined by `;` (wire format of `lsm.*`, entries `_`), `_` for no file;
  `<queries>`: `hexkey/seq` joined by `,`.  Per query: the index
  `find_file_with_upper_bound_range` returns, `-` for `None`, and after `:` the number of the file
  `get_overlapping_files` keeps for that level (`-` for none): `1:7`, `-:-`.
`bin.blockseek <keys> <queries>`
  `<keys>`: `hexkey/seq` joined by `,` (`_` = empty block); per query the index `BlockIter::seek`
  leaves the cursor on.
`bin.steps <n> <pattern>`  number of loop iterations over `n` elements when the comparison
  answers "below" for the indices `< pattern` (a monotone predicate)
-/
def binCmd : List String → Option String
  | ["bin.findfile", level, queries] =>
    match parseLevel level, (queries.splitOn ",").mapM parseKey with
    | some fs, some qs =>
      some (" ".intercalate (qs.map fun q =>
        let i := match findFile fs q with | some i => toString i | none => "-"
        let f := match levelCandidateBin fs q.1 q.2 with | some f => toString f.num | none => "-"
        s!"{i}:{f}"))
    | _, _ => none
  | ["bin.blockseek", keys, queries] =>
    let ks := if keys == "_" then some [] else (keys.splitOn ",").mapM parseKey
    match ks, (queries.splitOn ",").mapM parseKey with
    | some ks, some qs => some (" ".intercalate (qs.map fun q => toString (blockSeek ks q)))
    | _, _ => none
  | ["bin.steps", n, p] =>
    match n.toNat?, p.toNat? with
    | some n, some p => some (toString (steps (fun i => decide (i < p)) n 0 n))
    | _, _ => none
  | _ => none

end Rain.Driver
