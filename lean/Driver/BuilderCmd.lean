import Rain.Builder
import Driver.LsmCmd
namespace Rain.Driver
open Rain Rain.Lsm Rain.Builder

/-
`builder.apply <levels> <edits>` — all edits into ONE builder, applied to `<levels>`
(`VersionSet::recover`; with a single edit: `get_new_version_from_current`).
`builder.seq <levels> <edits>` — one builder per edit, each applied to the previous result.

`<levels>`: the `parseLevels` syntax of `lsm.*` (levels joined by `|`, files by `;`, a file is
`num@smallestHex/seq@largestHex/seq@entries`, entries may be `_`, an empty level is `_`).
`<edits>`: edits joined by `;`, or `-` for none.  One edit (no spaces):
    del=<D>~add=<A>
  <D> = `-` or `<lvl>:<num>` joined by `,`            e.g. del=0:5,1:7
  <A> = `-` or `<lvl>:<file>` joined by `+`            e.g. add=1:9@61/5@63/2@_+1:10@64/4@66/1@_
Answer: `ok <numbers per level, comma separated, levels separated by |, _ for an empty level>` in the
builder's order (every level sorted by smallest key, ties by number), or `panic <level>` where the
Rust code panics: the overlap assertion of `maybe_add_file` at that level (> 0), or an edit naming
a level the version does not have (index out of bounds in `accumulate_changes`).
-/

def parseDel (s : String) : Option (List (Nat × Nat)) :=
  if s == "-" then some [] else
  (s.splitOn ",").mapM fun d =>
    match d.splitOn ":" with
    | [l, n] => match l.toNat?, n.toNat? with
      | some l', some n' => some (l', n')
      | _, _ => none
    | _ => none

def parseAdd (s : String) : Option (List (Nat × File)) :=
  if s == "-" then some [] else
  (s.splitOn "+").mapM fun a =>
    match a.splitOn ":" with
    | [l, f] => match l.toNat?, parseFile f with
      | some l', some f' => some (l', f')
      | _, _ => none
    | _ => none

def parseEdit (s : String) : Option Builder.Edit :=
  match s.splitOn "~" with
  | [d, a] =>
    if d.startsWith "del=" && a.startsWith "add=" then
      match parseDel (d.drop 4).toString, parseAdd (a.drop 4).toString with
      | some ds, some as => some { deleted := ds, added := as }
      | _, _ => none
    else none
  | _ => none

def parseEdits (s : String) : Option (List Builder.Edit) :=
  if s == "-" then some [] else (s.splitOn ";").mapM parseEdit

/-- a level named by an edit that the version does not have -/
def badLevel (n : Nat) (es : List Builder.Edit) : Option Nat :=
  (es.flatMap fun e => e.deleted.map Prod.fst ++ e.added.map Prod.fst).find? fun l => decide (n ≤ l)

def showApply (b : Builder) (base : Levels) : String :=
  match panicLevel b base with
  | some l => s!"panic {l}"
  | none => s!"ok {showLevelsBrief (applyRaw b base)}"

def seqApply (base : Levels) : List Builder.Edit → String
  | [] => s!"ok {showLevelsBrief base}"
  | e :: es =>
    let b := accumulate Builder.empty e
    match panicLevel b base with
    | some l => s!"panic {l}"
    | none => seqApply (applyRaw b base) es

def builderCmd : List String → Option String
  | ["builder.apply", levels, edits] =>
    match parseLevels levels, parseEdits edits with
    | some lv, some es =>
      (match badLevel lv.length es with
       | some l => some s!"panic {l}"
       | none => some (showApply (es.foldl accumulate Builder.empty) lv))
    | _, _ => none
  | ["builder.seq", levels, edits] =>
    match parseLevels levels, parseEdits edits with
    | some lv, some es =>
      (match badLevel lv.length es with
       | some l => some s!"panic {l}"
       | none => some (seqApply lv es))
    | _, _ => none
  | _ => none

end Rain.Driver
