import Rain.Codec
import Driver.LogCmd
/-
Requests of the `batch.` and `edit.` families (model: `Rain/Codec.lean`).

  batch.encode <start> <op>...        -> hex of the record
  batch.decode <hex>                  -> `<start> <op>...` | `error`
      op = `p:<hexkey>:<hexvalue>` | `d:<hexkey>`      (hex: lower case, `-` = empty string)

  edit.encode wal=<n|-> prevwal=<n|-> seq=<n|-> next=<n|-> ptr=<ptrs|-> del=<dels|-> new=<files|->
                                      -> hex of the record (`-` for the empty record)
  edit.decode <hex>                   -> the same seven tokens | `error`
      exactly these seven tokens in exactly this order; `-` = absent / empty list
      ptrs  = comma separated `<level>:<ikey>`
      dels  = comma separated `<level>:<number>`
      files = comma separated `<level>:<number>:<size>:<ikey>:<ikey>`   (smallest, largest)
      ikey  = `<hexukey>/<seq>/<p|d>`            (an empty user key is written `-` like any hex string)
      `edit.encode` writes the deleted files in the order given; `edit.decode` lists them without
      duplicates in ascending (level, number) order (the Rust side must sort its `HashSet`).
  edit.decoderaw <hex>                -> as `edit.decode` with the deleted files in order of appearance

Numbers are decimal. 64-bit fields (`start`, wal/prevwal/seq/next, file numbers, sizes, sequence
numbers, levels (`usize`)) `≥ 2^64` have no Rust counterpart: `bad-request`.
-/
namespace Rain.Driver.CodecCmd
open Rain Rain.Codec

def nat64? (s : String) : Option Nat :=
  match s.toNat? with
  | some n => if n < 2^64 then some n else none
  | none => none

def parseOp (s : String) : Option Op :=
  match s.splitOn ":" with
  | ["p", k, v] =>
    match ofHex k, ofHex v with
    | some k, some v => some (k, some v)
    | _, _ => none
  | ["d", k] =>
    match ofHex k with
    | some k => some (k, none)
    | none => none
  | _ => none

def fmtOp : Op → String
  | (k, some v) => s!"p:{hexOut k}:{hexOut v}"
  | (k, none) => s!"d:{hexOut k}"

def fmtBatch (b : BatchRec) : String :=
  " ".intercalate (toString b.start :: b.ops.map fmtOp)

def parseIKey (s : String) : Option IKey :=
  match s.splitOn "/" with
  | [u, q, o] =>
    match ofHex u, nat64? q with
    | some u, some q =>
      if o == "p" then some ⟨u, q, true⟩ else if o == "d" then some ⟨u, q, false⟩ else none
    | _, _ => none
  | _ => none

def fmtIKey (k : IKey) : String := s!"{hexOut k.ukey}/{k.seq}/{if k.put then "p" else "d"}"

/-- `key=value` with the expected key -/
def field? (key tok : String) : Option String :=
  if tok.startsWith (key ++ "=") then some (tok.drop (key.length + 1)).toString else none

def parseOpt (s : String) : Option (Option Nat) :=
  if s == "-" then some none else (nat64? s).map some

def fmtOpt : Option Nat → String
  | none => "-"
  | some n => toString n

def parseList {α} (f : String → Option α) (s : String) : Option (List α) :=
  if s == "-" then some [] else (s.splitOn ",").mapM f

def fmtList {α} (f : α → String) (l : List α) : String :=
  if l.isEmpty then "-" else ",".intercalate (l.map f)

def parsePtr (s : String) : Option (Nat × IKey) :=
  match s.splitOn ":" with
  | [l, k] => match nat64? l, parseIKey k with
    | some l, some k => some (l, k)
    | _, _ => none
  | _ => none

def parseDel (s : String) : Option (Nat × Nat) :=
  match s.splitOn ":" with
  | [l, n] => match nat64? l, nat64? n with
    | some l, some n => some (l, n)
    | _, _ => none
  | _ => none

def parseFile (s : String) : Option NewFile :=
  match s.splitOn ":" with
  | [l, n, z, a, b] => match nat64? l, nat64? n, nat64? z, parseIKey a, parseIKey b with
    | some l, some n, some z, some a, some b => some ⟨l, n, z, a, b⟩
    | _, _, _, _, _ => none
  | _ => none

def parseEdit : List String → Option EditRec
  | [w, pw, sq, nx, ps, ds, fs] =>
    match (field? "wal" w).bind parseOpt, (field? "prevwal" pw).bind parseOpt,
          (field? "seq" sq).bind parseOpt, (field? "next" nx).bind parseOpt,
          (field? "ptr" ps).bind (parseList parsePtr), (field? "del" ds).bind (parseList parseDel),
          (field? "new" fs).bind (parseList parseFile) with
    | some w, some pw, some sq, some nx, some ps, some ds, some fs =>
      some { wal := w, prevWal := pw, seq := sq, next := nx, ptrs := ps, deleted := ds, files := fs }
    | _, _, _, _, _, _, _ => none
  | _ => none

def fmtEdit (e : EditRec) : String :=
  let ptr := fmtList (fun (p : Nat × IKey) => s!"{p.1}:{fmtIKey p.2}") e.ptrs
  let del := fmtList (fun (d : Nat × Nat) => s!"{d.1}:{d.2}") e.deleted
  let new := fmtList (fun (f : NewFile) => s!"{f.level}:{f.number}:{f.size}:{fmtIKey f.smallest}:{fmtIKey f.largest}") e.files
  s!"wal={fmtOpt e.wal} prevwal={fmtOpt e.prevWal} seq={fmtOpt e.seq} next={fmtOpt e.next} ptr={ptr} del={del} new={new}"

end Rain.Driver.CodecCmd

namespace Rain.Driver
open Rain Rain.Codec Rain.Driver.CodecCmd

/-- requests of the `batch.` and `edit.` families -/
def codecCmd : List String → Option String
  | "batch.encode" :: start :: ops =>
    match nat64? start, ops.mapM parseOp with
    | some s, some ops => some (hexOut (encodeBatch { start := s, ops := ops }))
    | _, _ => none
  | ["batch.decode", h] =>
    match ofHex h with
    | some b =>
      match decodeBatch b with
      | some r => some (fmtBatch r)
      | none => some "error"
    | none => none
  | "edit.encode" :: toks =>
    match parseEdit toks with
    | some e => some (hexOut (encodeEdit e))
    | none => none
  | ["edit.decode", h] =>
    match ofHex h with
    | some b =>
      match decodeEdit b with
      | some e => some (fmtEdit e)
      | none => some "error"
    | none => none
  | ["edit.decoderaw", h] =>
    match ofHex h with
    | some b =>
      match decodeEditRaw b with
      | some e => some (fmtEdit e)
      | none => some "error"
    | none => none
  | _ => none

end Rain.Driver
