import Rain.Lru
import Rain.CacheKeys
namespace Rain.Driver
open Rain.Lru

/-- `lru.run <cap> <op>...` with op = `i:<k>:<v>` | `g:<k>` | `r:<k>`; answer: one token per
operation (`-` = nothing / miss, otherwise the value), then `len=<n>` and `inv=<bool>` -/
def parseLruOp (s : String) : Option Op :=
  match s.splitOn ":" with
  | ["i", k, v] => match k.toNat?, v.toNat? with
    | some k, some v => some (.insert k v)
    | _, _ => none
  | ["g", k] => k.toNat?.map .get
  | ["r", k] => k.toNat?.map .remove
  | _ => none

/-- `lru.ids <step>...` with step = `o:<instance>:<file>` (a table is opened) | `t` (an id is
taken): the partition ids of the opened tables in order, joined by `,` (`-` = none), on a fresh
block cache -/
def parseKeyStep (s : String) : Option Rain.CacheKeys.Step :=
  match s.splitOn ":" with
  | ["o", i, f] => match i.toNat?, f.toNat? with
    | some i, some f => some (.openTable i f)
    | _, _ => none
  | ["t"] => some .takeId
  | _ => none

def lruCmd : List String → Option String
  | "lru.ids" :: steps =>
    (steps.mapM parseKeyStep).map fun st =>
      let r := (Rain.CacheKeys.run ({ lastId := 0 }, []) st).2
      if r.isEmpty then "-" else ",".intercalate (r.map fun t => toString t.id)
  | "lru.run" :: cap :: ops =>
    match cap.toNat?, ops.mapM parseLruOp with
    | some c, some os =>
      let (fin, outs) := run (empty c) os
      let toks := outs.map fun o => match o with | some v => toString v | none => "-"
      some (" ".intercalate (toks ++ [s!"len={len fin}", s!"inv={inv fin}"]))
    | _, _ => none
  | _ => none

end Rain.Driver
