import Rain.Sched
import Rain.Generated.Constants
namespace Rain.Driver
open Rain.Sched

/-- the code's parameters; the two cost bounds do not matter for the invariant -/
def schedParams : Params :=
  { l0Trigger := Rain.Gen.L0_COMPACTION_TRIGGER, l0Stop := Rain.Gen.L0_STOP_WRITES_TRIGGER,
    flushCost := 1, manualCost := 1 }

def b? (s : String) : Option Bool := if s == "1" then some true else if s == "0" then some false else none

/-- `sched.inv <scheduled> <tasks> <running> <imm> <manual> <needs> <bad> <shutting> <l0> <waiters>`:
the model's invariant on an observed state of the real database (work := 1 if `needs`, manual := 1 if
a manual compaction is registered) -/
def schedCmd : List String → Option String
  | ["sched.inv", sc, tasks, run, imm, man, needs, bad, shut, l0, waiters] =>
    match b? sc, tasks.toNat?, b? run, b? imm, b? man, b? needs, b? bad, b? shut, l0.toNat?, waiters.toNat? with
    | some sc, some t, some r, some i, some m, some n, some b, some sh, some l, some w =>
      let s : State := { scheduled := sc, tasks := t, running := r, imm := i, manual := if m then 1 else 0,
                         work := if n then 1 else 0, l0 := l, bad := b, shutting := sh, waiters := w }
      some (if inv schedParams s then "ok" else
        s!"bad flag-matches-tasks={s.scheduled == (decide (0 < s.tasks) || s.running)} at-most-one-task={decide (s.tasks ≤ 1) && !(decide (0 < s.tasks) && s.running)} work-is-scheduled={if !s.bad && !s.shutting && hasWork s then s.scheduled else true} level0-pressure-is-work={pressureOk schedParams s.l0 s.work} sleepers-have-a-waker={if 0 < s.waiters then s.scheduled else true}")
    | _, _, _, _, _, _, _, _, _, _ => none
  | ["sched.obs", sc, imm, man, needs, bad, shut] =>
    match b? sc, b? imm, b? man, b? needs, b? bad, b? shut with
    | some sc, some i, some m, some n, some b, some sh => some (if invObservable sc i m n b sh then "ok" else "bad")
    | _, _, _, _, _, _ => none
  | ["sched.blocked", imm, l0, bad] =>
    -- is a writer in make_room_for_write blocked in this state?
    match b? imm, l0.toNat?, b? bad with
    | some i, some l, some b =>
      let s : State := { init with imm := i, l0 := l, bad := b }
      some (if writerBlocked schedParams s then "1" else "0")
    | _, _, _ => none
  | _ => none

end Rain.Driver
