import Rain.Pick
import Driver.LsmCmd
namespace Rain.Driver
open Rain Rain.Lsm

/-- sizes `num=size,num=size`, `_` for none -/
def parseSizes (s : String) : Option (List (Nat × Nat)) :=
  if s == "_" then some [] else
  (s.splitOn ",").mapM fun p =>
    match p.splitOn "=" with
    | [n, z] => match n.toNat?, z.toNat? with
      | some a, some b => some (a, b)
      | _, _ => none
    | _ => none

def showNums (fs : List File) : String :=
  if fs.isEmpty then "_" else ",".intercalate (fs.map fun f => toString f.num)

/-- the files with the given numbers, in the order of the numbers; `none` if one is missing -/
def filesByNum (fs : List File) (nums : List Nat) : Option (List File) :=
  nums.mapM fun n => fs.find? fun f => f.num == n

/-- optional user key: `*` = unbounded, otherwise hex (`-` = empty key) -/
def parseBound (s : String) : Option (Option Bytes) :=
  if s == "*" then some none else (ofHex s).map some

/-
`pick.setup <maxFileSize> <level> <seed nums> <levels> <sizes>`
  `<levels>` as for `lsm.compact` (entries may be `_`); `<seed nums>` comma separated, every number
  must be a file of level `<level>`; `<sizes>` = `num=size,…` and must give a size for every file
  of levels `<level>` and `<level>+1`.  Answer: `<in0 nums or _> <in1 nums or _>`.
`pick.overlap <0|1 isLevel0> <lo|*> <hi|*> <level files>`: answer `<nums or _>`.
`pick.boundary <level files> <input nums>`: answer `<nums or _>`.
`pick.valid <levels> <level> <in0 nums> <in1 nums>`: answer `true` / `false` (`validInputs`).
-/
def pickCmd : List String → Option String
  | ["pick.setup", mx, level, seed, levels, sizes] =>
    match mx.toNat?, level.toNat?, parseNums seed, parseLevels levels, parseSizes sizes with
    | some m, some l, some sd, some lv, some sz =>
      let lvF := lv.getD l []
      let lpF := lv.getD (l + 1) []
      let sized : Bool := (lvF ++ lpF).all fun f => sz.any fun p => p.1 == f.num
      let size : Nat → Nat := fun n => ((sz.find? fun p => p.1 == n).map Prod.snd).getD 0
      match filesByNum lvF sd with
      | some seedFiles =>
        if sized && !seedFiles.isEmpty then
          let r := setupOtherInputs size lv l seedFiles m
          some s!"{showNums r.1} {showNums r.2}"
        else none
      | none => none
    | _, _, _, _, _ => none
  | ["pick.overlap", l0, lo, hi, files] =>
    match l0.toNat?, parseBound lo, parseBound hi, parseLevel files with
    | some z, some a, some b, some fs =>
      if z ≤ 1 then some (showNums (overlapping fs (z == 1) a b)) else none
    | _, _, _, _ => none
  | ["pick.boundary", files, inputs] =>
    match parseLevel files, parseNums inputs with
    | some fs, some ns =>
      match filesByNum fs ns with
      | some ins => some (showNums (addBoundary fs ins))
      | none => none
    | _, _ => none
  | ["pick.valid", levels, level, in0, in1] =>
    match parseLevels levels, level.toNat?, parseNums in0, parseNums in1 with
    | some lv, some l, some a, some b =>
      let s : State := { mem := [], imm := none, levels := lv, lastSeq := 0 }
      some (if validInputs s l a b then "true" else "false")
    | _, _, _, _ => none
  | _ => none

end Rain.Driver
