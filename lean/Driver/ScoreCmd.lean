import Rain.Generated.Constants
import Rain.Score
import Driver.PickCmd
namespace Rain.Driver
open Rain Rain.Lsm Rain.Score

/-- per level `count:bytes`, joined by `,` -/
def parseStats (s : String) : Option (List (Nat × Nat)) :=
  (s.splitOn ",").mapM fun p =>
    match p.splitOn ":" with
    | [c, b] => match c.toNat?, b.toNat? with
      | some x, some y => some (x, y)
      | _, _ => none
    | _ => none

/-- seven compaction pointers joined by `;`: `*` = none, otherwise an internal key `hex/seq`
(`-` = empty user key) as in the `<levels>` tokens -/
def parsePointers (s : String) : Option (List (Option (Bytes × Nat))) :=
  let items := s.splitOn ";"
  if items.length != 7 then none else
  items.mapM fun t => if t == "*" then some none else (parseKey t).map some

/-- the model does not cover a zero trigger (the Rust code divides by it) or a zero limit -/
def parseParams (t m n : String) : Option Params :=
  match t.toNat?, m.toNat?, n.toNat? with
  | some a, some b, some c =>
    if a == 0 || b == 0 then none else some { l0Trigger := a, levelOneMax := b, scoredLevels := c }
  | _, _, _ => none

/-
`score.finalize <l0Trigger> <levelOneMax> <scoredLevels> <c0:b0,c1:b1,...>`
  per level (file count : total bytes).  Answer: `<best level> <1|0>` (1 = a size compaction is
  needed).
`score.pick <l0Trigger> <levelOneMax> <scoredLevels> <maxFileSize> <pointers> <levels> <sizes>`
  `<levels>` and `<sizes>` as for `pick.setup` (`<sizes>` must give a size for EVERY file),
  `<pointers>` = 7 items joined by `;`, each `*` or `<hexuserkey>/<seq>`.  Answer: `none`,
  `picked <level> <in0 nums or _> <in1 nums or _>`, `last-level <level>` or `empty-level <level>`.
-/
def scoreCmd : List String → Option String
  -- the parameters the code uses, as regenerated from /repo's sources for this run
  | ["score.params"] =>
    some s!"{Rain.Gen.L0_COMPACTION_TRIGGER} {Rain.Gen.LEVEL_ONE_MAX_BYTES} {Rain.Gen.SCORED_LEVELS} {Rain.Gen.LEVEL_MAX_BYTES_MULTIPLIER}"
  | ["score.finalize", t, m, n, stats] =>
    match parseParams t m n, parseStats stats with
    | some p, some ls =>
      some s!"{(finalize p ls).1} {if needsSize p ls then 1 else 0}"
    | _, _ => none
  | ["score.pick", t, m, n, mx, ptrs, levels, sizes] =>
    match parseParams t m n, mx.toNat?, parsePointers ptrs, parseLevels levels, parseSizes sizes with
    | some p, some mfs, some ps, some lv, some sz =>
      let sized : Bool := lv.flatten.all fun f => sz.any fun q => q.1 == f.num
      let size : Nat → Nat := fun k => ((sz.find? fun q => q.1 == k).map Prod.snd).getD 0
      if sized && lv.length == 7 then
        match pickOutcome p mfs size lv ps with
        | .nothing => some "none"
        | .picked l a b => some s!"picked {l} {showNums a} {showNums b}"
        | .lastLevelChosen l => some s!"last-level {l}"
        | .emptyLevelChosen l => some s!"empty-level {l}"
      else none
    | _, _, _, _, _ => none
  -- `score.pickany <l0Trigger> <levelOneMax> <scoredLevels> <maxFileSize> <pointers> <levels> <sizes> <seek>`:
  -- the whole `pick_compaction`; `<seek>` = `*` or `<level>/<file number>` (the recorded
  -- `file_to_compact`; the number must be a file of that level).  Answers as `score.pick`.
  | ["score.pickany", t, m, n, mx, ptrs, levels, sizes, seek] =>
    match parseParams t m n, mx.toNat?, parsePointers ptrs, parseLevels levels, parseSizes sizes with
    | some p, some mfs, some ps, some lv, some sz =>
      let sized : Bool := lv.flatten.all fun f => sz.any fun q => q.1 == f.num
      let size : Nat → Nat := fun k => ((sz.find? fun q => q.1 == k).map Prod.snd).getD 0
      let sk : Option (Option (Nat × File)) :=
        if seek == "*" then some none else
        match seek.splitOn "/" with
        | [l, num] =>
          match l.toNat?, num.toNat? with
          | some l, some num => ((lv.getD l []).find? fun f => f.num == num).map fun f => some (l, f)
          | _, _ => none
        | _ => none
      match sk with
      | none => none
      | some sk =>
        if sized && lv.length == 7 then
          match pickAny p mfs size lv ps sk with
          | .nothing => some "none"
          | .picked l a b => some s!"picked {l} {showNums a} {showNums b}"
          | .lastLevelChosen l => some s!"last-level {l}"
          | .emptyLevelChosen l => some s!"empty-level {l}"
        else none
    | _, _, _, _, _ => none
  | _ => none

end Rain.Driver
