import Rain.Lsm
import Driver.TableCmd
namespace Rain.Driver
open Rain Rain.Lsm

/-- key wire format `hex/seq` -/
def parseKey (s : String) : Option (Bytes × Nat) :=
  match s.splitOn "/" with
  | [k, q] => match ofHex k, q.toNat? with
    | some kb, some n => some (kb, n)
    | _, _ => none
  | _ => none

/-- file wire format `num@smallest@largest@entries` (entries `_` when not needed) -/
def parseFile (s : String) : Option File :=
  match s.splitOn "@" with
  | [n, sk, lk, es] =>
    match n.toNat?, parseKey sk, parseKey lk, parseEntries es with
    | some num, some a, some b, some l => some { num := num, smallest := a, largest := b, entries := l }
    | _, _, _, _ => none
  | _ => none

/-- a level: files joined by `;`, `_` for an empty level -/
def parseLevel (s : String) : Option (List File) :=
  if s == "_" then some [] else (s.splitOn ";").mapM parseFile

/-- seven levels joined by `|` -/
def parseLevels (s : String) : Option (List (List File)) :=
  (s.splitOn "|").mapM parseLevel

def parseNums (s : String) : Option (List Nat) :=
  if s == "_" then some [] else (s.splitOn ",").mapM String.toNat?

/-- outputs `num:entries;num:entries` -/
def parseOutputs (s : String) : Option (List (Nat × List Entry)) :=
  if s == "_" then some [] else
  (s.splitOn ";").mapM fun o =>
    match o.splitOn ":" with
    | [n, es] => match n.toNat?, parseEntries es with
      | some k, some l => some (k, l)
      | _, _ => none
    | _ => none

def showLevelsBrief (ls : List (List File)) : String :=
  "|".intercalate (ls.map fun l => if l.isEmpty then "_" else ",".intercalate (l.map fun f => toString f.num))

def parseImm (s : String) : Option (Option (List Entry)) :=
  if s == "-" then some none else (parseEntries s).map some

def lsmCmd : List String → Option String
  | ["lsm.inv", lastSeq, mem, imm, levels] =>
    match lastSeq.toNat?, parseEntries mem, parseImm imm, parseLevels levels with
    | some ls, some m, some i, some lv =>
      some (if invB { mem := m, imm := i, levels := lv, lastSeq := ls } then "true" else "false")
    | _, _, _, _ => none
  | ["lsm.gets", lastSeq, mem, imm, levels, queries] =>
    match lastSeq.toNat?, parseEntries mem, parseImm imm, parseLevels levels,
          (queries.splitOn ",").mapM parseKey with
    | some ls, some m, some i, some lv, some qs =>
      let s : State := { mem := m, imm := i, levels := lv, lastSeq := ls }
      some (" ".intercalate (qs.map fun q => match dbGet s q.1 q.2 with
        | some v => s!"v:{hexOut v}"
        | none => "none"))
    | _, _, _, _, _ => none
  | ["lsm.flush", lastSeq, levels, num, lvl, entries] =>
    match lastSeq.toNat?, parseLevels levels, num.toNat?, lvl.toNat?, parseEntries entries with
    | some ls, some lv, some n, some l, some es =>
      let s : State := { mem := [], imm := some es, levels := lv, lastSeq := ls }
      (match stepFlush s n l with
       | some s' => some s!"ok {showLevelsBrief s'.levels}"
       | none => some "invalid")
    | _, _, _, _, _ => none
  | ["lsm.move", levels, num, lvl] =>
    match parseLevels levels, num.toNat?, lvl.toNat? with
    | some lv, some n, some l =>
      let s : State := { mem := [], imm := none, levels := lv, lastSeq := 0 }
      (match stepTrivialMove s n l with
       | some s' => some s!"ok {showLevelsBrief s'.levels}"
       | none => some "invalid")
    | _, _, _ => none
  | ["lsm.compact", lastSeq, levels, level, in0, in1, q, outs] =>
    match lastSeq.toNat?, parseLevels levels, level.toNat?, parseNums in0, parseNums in1, q.toNat?,
          parseOutputs outs with
    | some ls, some lv, some l, some i0, some i1, some qq, some os =>
      let s : State := { mem := [], imm := none, levels := lv, lastSeq := ls }
      let c : Compaction := { level := l, inputs0 := i0, inputs1 := i1, smallestSnapshot := qq, outputs := os }
      (match stepCompact s c with
       | some s' => some s!"ok {showLevelsBrief s'.levels}"
       | none =>
         -- say which part of the validity predicate is the problem: the drop rule or the inputs
         let lvF := lv.getD l []
         let lpF := lv.getD (l + 1) []
         let merged := mergeAll ((pick lvF i0 ++ pick lpF i1).map File.entries)
         let kept := dropLoop qq (isBaseLevel lv l) none merged
         let outsOk : Bool := decide ((os.map Prod.snd).flatten = kept)
         let st : State := { mem := [], imm := none, levels := lv, lastSeq := ls }
         let i0f := pick lvF i0
         let i1f := pick lpF i1
         let r0 := unpick lvF i0
         let r1 := unpick lpF i1
         let shape : String := match hull i0f, minKey (i0f ++ i1f), maxKey (i0f ++ i1f) with
           | some (lo, hi), some loAll, some hiAll =>
             let a : Bool := if l = 0 then r0.all fun g => !userRangeOverlaps g lo hi || i0f.all fun f => decide (f.num < g.num)
               else r0.all fun g => i0f.all fun f => kLt g.largest f.smallest || (kLt f.largest g.smallest && !(g.smallest.1 == f.largest.1))
             let b : Bool := outside r1 loAll hiAll
             let c : Bool := r1.all fun g => !userRangeOverlaps g lo hi
             let d : Bool := r1.all fun g => !(g.smallest.1 == hiAll.1)
             let culprit := (r1.filter fun g => g.smallest.1 == hiAll.1).map File.num
             s!"remaining-level-files-ok={a} remaining-next-level-outside-range={b} remaining-next-level-no-overlap={c} remaining-next-level-does-not-share-last-user-key={d} sharing={culprit}"
           | _, _, _ => "no-hull"
         let basics : Bool := decide (l + 1 < 7) && !i0f.isEmpty && decide (qq ≤ st.lastSeq) &&
           decide (i0f.length = i0.length) && decide (i1f.length = i1.length)
         some s!"invalid outputs-match-drop-rule={outsOk} kept={kept.length} outputs={(os.map Prod.snd).flatten.length} basics={basics} {shape} output-numbers-fresh={os.all (fun o => !(lv.flatten.map File.num).contains o.1)}")
    | _, _, _, _, _, _, _ => none
  | _ => none

end Rain.Driver
