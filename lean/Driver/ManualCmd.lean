import Rain.Manual
import Driver.PickCmd
namespace Rain.Driver
open Rain Rain.Lsm Rain.Manual

/-
`manual.round <maxFileSize> <level> <begin|*> <end|*> <levels> <sizes>`
  one round of a manual compaction request (`VersionSet::compact_range` as the compaction thread
  calls it): `<begin>`, `<end>` = user keys of the request's internal keys (`*` = open, `-` = empty
  key), `<levels>` as for `lsm.*` (entries may be `_`), `<sizes>` = `num=size,…` with a size for
  every file of levels `<level>` and `<level>+1`.  Answer: `done`, or
  `<level inputs or _> <parent inputs or _> <hex user key>/<seq>` (the request's next `begin`).
`manual.levels <lo|*> <hi|*> <levels>`: `max_level_with_files_for_compaction` of
  `DB::compact_range`.
-/

def manualCmd : List String → Option String
  | ["manual.round", mx, level, lo, hi, levels, sizes] =>
    match mx.toNat?, level.toNat?, parseBound lo, parseBound hi, parseLevels levels, parseSizes sizes with
    | some m, some l, some a, some b, some lv, some sz =>
      let sized : Bool := (lv.getD l [] ++ lv.getD (l + 1) []).all fun f => sz.any fun p => p.1 == f.num
      let size : Nat → Nat := fun n => ((sz.find? fun p => p.1 == n).map Prod.snd).getD 0
      if sized then
        let req : ManualReq := { level := l, begin_ := a.map (·, 0), end_ := b.map (·, 0), done := false }
        let sel := manualInputs size m lv req
        match sel with
        | none => some "done"
        | some r =>
          match (manualAdvance req sel).begin_ with
          | some k => some s!"{showNums r.1} {showNums r.2} {showKey k}"
          | none => none
      else none
    | _, _, _, _, _, _ => none
  | ["manual.levels", lo, hi, levels] =>
    match parseBound lo, parseBound hi, parseLevels levels with
    | some a, some b, some lv => some (toString (maxLevelWithOverlap lv a b))
    | _, _, _ => none
  | _ => none

end Rain.Driver
