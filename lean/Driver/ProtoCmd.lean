import Rain.Proto
import Driver.LogCmd
namespace Rain.Driver
open Rain.Proto

/-- hook points passed before / after the shared access of a model step -/
def prePoints : Step → List String
  | .walAppend => ["write:before-wal"]
  | .publish => ["write:after-apply"]
  | _ => []

def postPoints : Step → List String
  | .walAppend => ["write:after-wal"]
  | .insert => ["write:mid-apply"]
  | _ => []

/-- `proto.write <lastSeq0> <n> <parkedAfterPoints>`: run the model for one writer applying a batch
of `n` operations on a database whose published sequence number is `lastSeq0`, stop after the
writer has passed `parkedAfterPoints` hook points; answer: expected hook-point trace so far, the
published sequence number at that moment, the number of entries of the batch already in the
memtable, and how many of them a reader taking its cut now can see. -/
def protoCmd : List String → Option String
  | ["proto.write", l0, n, k] =>
    match l0.toNat?, n.toNat?, k.toNat? with
    | some base, some nn, some kk =>
      let steps : List Step := [.enqueue nn, .begin 1, .walAppend] ++ List.replicate nn .insert ++ [.publish]
      -- execute steps until kk points are emitted
      -- a writer parked AT its kk-th hook point has executed exactly the model steps whose
      -- post-points are among the first kk points, and no step whose pre-point is the kk-th
      let rec go (s : State) (rest : List Step) (pts : List String) (fuel : Nat) : State × List String :=
        match fuel, rest with
        | 0, _ => (s, pts)
        | _, [] => (s, pts)
        | f+1, a :: tl =>
          let pts1 := pts ++ prePoints a
          if kk ≤ pts1.length ∧ !(prePoints a).isEmpty then (s, pts1) else
          match step s a with
          | some s' =>
            let pts2 := pts1 ++ postPoints a
            if kk ≤ pts2.length ∧ !(postPoints a).isEmpty then (s', pts2) else go s' tl pts2 f
          | none => (s, pts1)
      let s0 : State := { init with lastSeq := base }
      let (s, pts) := go s0 steps [] (steps.length + 1)
      let inMem := s.mem.length
      some s!"{",".intercalate (pts.take kk)} lastSeq={s.lastSeq - 0} inmem={inMem} visible={(visible s s.lastSeq).length}"
    | _, _, _ => none
  | "proto.lock" :: acts =>
    -- actions: o<i> = tryOpen i, c<i> = close i, d = destroy; answer: one 0/1 per action
    let parse (t : String) : Option LAction :=
      if t == "d" then some .destroy
      else if t.startsWith "o" then (t.drop 1).toString.toNat?.map LAction.tryOpen
      else if t.startsWith "c" then (t.drop 1).toString.toNat?.map LAction.close
      else none
    match acts.mapM parse with
    | some l =>
      let s := lrun linit l
      some (" ".intercalate (s.log.map fun e => if e.2 then "1" else "0"))
    | none => none
  | _ => none

end Rain.Driver
