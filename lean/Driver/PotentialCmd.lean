import Rain.Potential
import Driver.LsmCmd
namespace Rain.Driver
open Rain Rain.Lsm Rain.Potential

/-- `lsm.potential <lastSeq> <mem> <imm> <levels>` (the same state tokens as `lsm.inv`): the
potential of the dumped state as a decimal number -/
def potentialCmd : List String → Option String
  | ["lsm.potential", lastSeq, mem, imm, levels] =>
    match lastSeq.toNat?, parseEntries mem, parseImm imm, parseLevels levels with
    | some ls, some m, some i, some lv =>
      some (toString (potential { mem := m, imm := i, levels := lv, lastSeq := ls }))
    | _, _, _, _ => none
  | _ => none

end Rain.Driver
