import Rain.FlushLevel
import Driver.PickCmd
namespace Rain.Driver
open Rain Rain.Lsm Rain.FlushLevel

/-
`flush.level <maxFileSize> <levels> <sizes> <queries>`
  `<levels>` as for `lsm.*` (entries may be `_`), `<sizes>` = `num=size,…` with a size for every
  file of the levels ≥ 2; `<queries>`: `hexlo/hexhi` joined by `,` (`-` = empty key).  Per query the
  level `Version::pick_level_for_memtable_output(lo, hi)` returns.
`flush.overlap <levels> <level> <queries>`: per query `true`/`false` of `has_overlap_in_level`.
-/
def parseRange (s : String) : Option (Bytes × Bytes) :=
  match s.splitOn "/" with
  | [a, b] => match ofHex a, ofHex b with
    | some x, some y => some (x, y)
    | _, _ => none
  | _ => none

def flushCmd : List String → Option String
  | ["flush.level", mx, levels, sizes, queries] =>
    match mx.toNat?, parseLevels levels, parseSizes sizes, (queries.splitOn ",").mapM parseRange with
    | some m, some lv, some sz, some qs =>
      let sized : Bool := (lv.drop 2).flatten.all fun f => sz.any fun p => p.1 == f.num
      let size : Nat → Nat := fun n => ((sz.find? fun p => p.1 == n).map Prod.snd).getD 0
      if sized then some (" ".intercalate (qs.map fun q => toString (pickLevel size m lv q.1 q.2)))
      else none
    | _, _, _, _ => none
  | ["flush.overlap", levels, level, queries] =>
    match parseLevels levels, level.toNat?, (queries.splitOn ",").mapM parseRange with
    | some lv, some l, some qs =>
      some (" ".intercalate (qs.map fun q => toString (hasOverlapInLevel lv l q.1 q.2)))
    | _, _, _ => none
  | _ => none

end Rain.Driver
