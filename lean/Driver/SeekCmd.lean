import Rain.Seek
import Driver.LsmCmd
namespace Rain.Driver
open Rain Rain.Lsm Rain.Seek

def showCharge : Option (Nat × File) → String
  | some (l, f) => s!"{l}:{f.num}"
  | none => "-"

/-- `MAX_SEQUENCE_NUMBER` of `key.rs` (`u64::MAX`): the sequence number a bare user key is sampled
at (every entry of that user key is at or after the target) -/
def maxSeq : Nat := 18446744073709551615

/-- a sampled key: `hex/seq` (the internal key the iterator stands on — `record_read_sample`
searches the deeper levels with the internal key) or a bare `hex` user key (= `hex/<u64::MAX>`) -/
def parseSampleKey (s : String) : Option (Bytes × Nat) :=
  match s.splitOn "/" with
  | [k] => (ofHex k).map fun kb => (kb, maxSeq)
  | _ => parseKey s

/-
`seek.charge <lastSeq> <mem> <imm> <levels> <queries>`
  exactly the tokens of `lsm.gets`.  Per query `hexkey/snap`, in order, separated by spaces: the
  file `DB::get` charges (`SeekChargeMetadata` handed to `update_stats`) as `<level>:<file number>`,
  or `-` when nothing is charged (a memtable answered, fewer than two files were consulted).
`seek.get <levels> <queries>`
  the same for `Version::get` alone (no memtables).
`seek.sample <levels> <keys>`
  per key (`hex/seq` or bare `hex`, joined by `,`): the file `Version::record_read_sample` charges,
  `-` when it does not call `update_stats`.
`seek.consulted <levels> <queries>`
  per query the files `Version::get` performs a table lookup on, `<level>:<num>` joined by `,`
  (`_` for none): what a harness counting `table_cache.get` calls sees.

Example (file 5 in level 0 holds a and c, file 3 in level 1 holds b):
  seek.charge 6 _ - 5@61/5@63/6@61/5/p/01,63/6/p/02|3@62/2@62/2@62/2/p/03|_|_|_|_|_ 62/10,61/10,62/1
  → `0:5 - -`
-/
def parsePair (s : String) : Option (Option (Nat × Nat)) :=
  if s = "-" then some none else
  match s.splitOn ":" with
  | [a, b] => match a.toNat?, b.toNat? with
    | some x, some y => some (some (x, y))
    | _, _ => none
  | _ => none

/-
`seek.init <file size>`  → the seek budget of a new table file (`initialAllowed`)
`seek.update <allowed> <toCompact> <charge>`
  one `Version::update_stats`: `<allowed>` the charged file's counter (an integer), `<toCompact>`
  the version's `file_to_compact` as `<file>:<level>` or `-`, `<charge>` as `<level>:<file>` or `-`;
  answers `<allowed'> <toCompact'> <true|false>`
-/
def seekCmd : List String → Option String
  | ["seek.init", size] => size.toNat?.map fun n => toString (initialAllowed n)
  | ["seek.update", allowed, tc, charge] =>
    match allowed.toInt?, parsePair tc, parsePair charge with
    | some a, some t, some c =>
      let st : SeekState := { allowed := fun _ => a, toCompact := t }
      let ch : Option (Nat × File) := c.map fun (l, n) =>
        (l, { num := n, smallest := ([], 0), largest := ([], 0), entries := [] })
      let (st', b) := updateStats st ch
      let num := match c with | some (_, n) => n | none => 0
      let tcs := match st'.toCompact with | some (n, l) => s!"{n}:{l}" | none => "-"
      some s!"{st'.allowed num} {tcs} {b}"
    | _, _, _ => none
  | ["seek.charge", lastSeq, mem, imm, levels, queries] =>
    match lastSeq.toNat?, parseEntries mem, parseImm imm, parseLevels levels,
          (queries.splitOn ",").mapM parseKey with
    | some ls, some m, some i, some lv, some qs =>
      let s : State := { mem := m, imm := i, levels := lv, lastSeq := ls }
      some (" ".intercalate (qs.map fun q => showCharge (dbGetCharge s q.1 q.2)))
    | _, _, _, _, _ => none
  | ["seek.get", levels, queries] =>
    match parseLevels levels, (queries.splitOn ",").mapM parseKey with
    | some lv, some qs =>
      some (" ".intercalate (qs.map fun q => showCharge (getCharge lv q.1 q.2)))
    | _, _ => none
  | ["seek.sample", levels, keys] =>
    match parseLevels levels, (keys.splitOn ",").mapM parseSampleKey with
    | some lv, some qs =>
      some (" ".intercalate (qs.map fun q => showCharge (sampleCharge lv q.1 q.2)))
    | _, _ => none
  | ["seek.consulted", levels, queries] =>
    match parseLevels levels, (queries.splitOn ",").mapM parseKey with
    | some lv, some qs =>
      some (" ".intercalate (qs.map fun q =>
        let c := consulted lv q.1 q.2
        if c.isEmpty then "_" else ",".intercalate (c.map fun p => s!"{p.1}:{p.2.num}")))
    | _, _ => none
  | _ => none

end Rain.Driver
