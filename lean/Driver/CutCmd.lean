import Rain.OutputLoop
import Rain.Grandparent
import Driver.PickCmd
namespace Rain.Driver
open Rain Rain.Lsm Rain.OutputLoop Rain.Grandparent

/-
`cut.run <levels> <level> <in0 nums> <in1 nums> <smallest snapshot> <outputs> <answers> <closed nums>`
  the output loop of a table compaction (`Rain/OutputLoop.lean`) replayed on a compaction the real worker
  performed: `<levels>` with the entries of the input tables, `<outputs>` as for `lsm.compact`
  (`num:entries;…`), `<answers>` = what `should_stop_before_key` answered, one `0`/`1` per call in
  call order (`_` = never called), `<closed nums>` = the outputs closed by the size rule.  The two
  cut rules are instantiated with these observations (the grandparent rule answers from the list,
  an output is full exactly when it is one the size rule closed); the model must ask the grandparent
  rule exactly as often as the code did and must write exactly the code's outputs.
  Answer: `ok` or `differs asked=<n of m> outputs=<entry counts | panic>`.
`cut.gp <levels> … <closed nums> <sizes> <maxFileSize>` (the same arguments, then `num=size,…` for
  the files of level `<level>+2` and `max_file_size`): the loop run with the MODEL of
  `should_stop_before_key` (`Rain/Grandparent.lean`, over the model's `overlapping_grandparents`) as
  the grandparent rule; its answers must be the recorded ones and the outputs the code's.
  Answer: `ok` or `differs answers=<model's 0/1 string> outputs=<entry counts | panic>`.
`cut.trivial <levels> <level> <in0 nums> <in1 nums> <sizes> <maxFileSize>`: the model of
  `CompactionManifest::is_trivial_move` on these inputs.
-/
def cutCmd : List String → Option String
  | ["cut.run", levels, level, in0, in1, q, outs, answers, closed] =>
    match parseLevels levels, level.toNat?, parseNums in0, parseNums in1, q.toNat?, parseOutputs outs,
          parseNums closed with
    | some lv, some l, some i0, some i1, some qq, some os, some cl =>
      let ans : Option (List Bool) :=
        if answers == "_" then some []
        else answers.toList.mapM fun c => if c == '1' then some true else if c == '0' then some false else none
      match ans with
      | none => none
      | some as =>
        let merged := mergeAll ((pick (lv.getD l []) i0 ++ pick (lv.getD (l + 1) []) i1).map File.entries)
        let stop : Nat → Entry → Bool × Nat := fun n _ => (as.getD n false, n + 1)
        let full : List Entry → Bool := fun es => os.any fun o => cl.contains o.1 && decide (o.2 = es)
        match (loop stop full qq (isBaseLevel lv l) (CState.init 0) merged).bind finishAll with
        | none => some s!"differs asked=? outputs=panic"
        | some s =>
          if s.gp == as.length && decide (s.outputs = os.map Prod.snd) then some "ok"
          else
            let lens := ",".intercalate (s.outputs.map fun o => toString o.length)
            some s!"differs asked={s.gp}/{as.length} outputs={if lens.isEmpty then "_" else lens}"
    | _, _, _, _, _, _, _ => none
  | ["cut.gp", levels, level, in0, in1, q, outs, answers, closed, sizes, mx] =>
    match parseLevels levels, level.toNat?, parseNums in0, parseNums in1, q.toNat?, parseOutputs outs,
          parseNums closed, parseSizes sizes, mx.toNat? with
    | some lv, some l, some i0, some i1, some qq, some os, some cl, some sz, some m =>
      let f0 := pick (lv.getD l []) i0
      let f1 := pick (lv.getD (l + 1) []) i1
      let gps := grandparents lv l f0 f1
      let sized : Bool := gps.all fun f => sz.any fun p => p.1 == f.num
      if !sized then none else
      let size : Nat → Nat := fun n => ((sz.find? fun p => p.1 == n).map Prod.snd).getD 0
      let merged := mergeAll ((f0 ++ f1).map File.entries)
      let stop : GpState × List Bool → Entry → Bool × (GpState × List Bool) := fun st e =>
        let r := shouldStop gps size (gpLimit m) st.1 e
        (r.1, (r.2, st.2 ++ [r.1]))
      let full : List Entry → Bool := fun es => os.any fun o => cl.contains o.1 && decide (o.2 = es)
      let bit (b : Bool) : Char := if b then '1' else '0'
      match (loop stop full qq (isBaseLevel lv l) (CState.init (GpState.init, [])) merged).bind finishAll with
      | none => some "differs answers=? outputs=panic"
      | some s =>
        let log := if s.gp.2.isEmpty then "_" else String.ofList (s.gp.2.map bit)
        if log == answers && decide (s.outputs = os.map Prod.snd) then some "ok"
        else
          let lens := ",".intercalate (s.outputs.map fun o => toString o.length)
          some s!"differs answers={log} outputs={if lens.isEmpty then "_" else lens}"
    | _, _, _, _, _, _, _, _, _ => none
  | ["cut.trivial", levels, level, in0, in1, sizes, mx] =>
    -- `is_trivial_move` on the selected inputs: `true` / `false`
    match parseLevels levels, level.toNat?, parseNums in0, parseNums in1, parseSizes sizes, mx.toNat? with
    | some lv, some l, some i0, some i1, some sz, some m =>
      let f0 := pick (lv.getD l []) i0
      let f1 := pick (lv.getD (l + 1) []) i1
      let gps := grandparents lv l f0 f1
      let sized : Bool := gps.all fun f => sz.any fun p => p.1 == f.num
      if !sized then none else
      let size : Nat → Nat := fun n => ((sz.find? fun p => p.1 == n).map Prod.snd).getD 0
      some (toString (isTrivialMove size m gps f0 f1))
    | _, _, _, _, _, _ => none
  | _ => none

end Rain.Driver
