import Rain.Files
import Driver.LogCmd
namespace Rain.Driver
open Rain.Files

def parseNatList (s : String) : Option (List Nat) :=
  if s == "_" then some [] else (s.splitOn ",").mapM String.toNat?

/-- `files.clean <versions> <inUse> <walNo> <prevWal|-> <manifestNo> <tables> <wals> <manifests> <temps>`
versions = `t,t,t/refs;...` (oldest first, last = current); answer: the directory after a deletion pass -/
def filesCmd : List String → Option String
  | ["files.clean", vs, inuse, walNo, prev, man, tabs, wals, mans, temps] =>
    let parseV (i : Nat) (t : String) : Option Version :=
      match t.splitOn "/" with
      | [ts, r] => match parseNatList ts, r.toNat? with
        | some l, some k => some { id := i, tables := l, refs := k }
        | _, _ => none
      | _ => none
    let vl := (vs.splitOn ";")
    match (List.range vl.length).zip vl |>.mapM (fun p => parseV p.1 p.2), parseNatList inuse, walNo.toNat?,
          man.toNat?, parseNatList tabs, parseNatList wals, parseNatList mans, parseNatList temps with
    | some versions, some iu, some w, some m, some dt, some dw, some dm, some dtmp =>
      let s : State := { versions := versions, inUse := iu, walNo := w, prevWal := if prev == "-" then none else prev.toNat?,
                         manifestNo := m, bad := false, dir := { tables := dt, wals := dw, manifests := dm, temps := dtmp },
                         nextId := versions.length }
      let c := clean s
      let fmt (l : List Nat) := if l.isEmpty then "_" else ",".intercalate (l.map toString)
      some s!"{fmt c.tables} {fmt c.wals} {fmt c.manifests} {fmt c.temps}"
    | _, _, _, _, _, _, _, _ => none
  | _ => none

end Rain.Driver
