import Rain.Table
import Driver.LogCmd
namespace Rain.Driver
open Rain Rain.Lsm Rain.Block Rain.Table

/-- entry wire format: `ukeyhex/seq/p|d/valhex` -/
def parseEntry (s : String) : Option Entry :=
  match s.splitOn "/" with
  | [k, q, o, v] =>
    match ofHex k, q.toNat?, ofHex v with
    | some kb, some n, some vb =>
      if o == "p" then some ⟨kb, n, true, vb⟩ else if o == "d" then some ⟨kb, n, false, vb⟩ else none
    | _, _, _ => none
  | _ => none

def parseEntries (s : String) : Option (List Entry) :=
  if s == "_" then some [] else (s.splitOn ",").mapM parseEntry

def showEntry (e : Entry) : String :=
  s!"{hexOut e.ukey}/{e.seq}/{if e.put then "p" else "d"}/{hexOut e.val}"

def showEntries (es : List Entry) : String :=
  if es.isEmpty then "_" else ",".intercalate (es.map showEntry)

def showKey (k : Bytes × Nat) : String := s!"{hexOut k.1}/{k.2}"

def parseCounts (s : String) : Option (List Nat) :=
  if s == "_" then some [] else (s.splitOn ",").mapM String.toNat?

def splitBy : List Nat → List Entry → List (List Entry)
  | [], _ => []
  | n :: ns, es => es.take n :: splitBy ns (es.drop n)

def parseOp (s : String) : Option COp :=
  match s.splitOn ":" with
  | ["f"] => some .first
  | ["l"] => some .last
  | ["n"] => some .next
  | ["p"] => some .prev
  | ["s", k, q] => match ofHex k, q.toNat? with
    | some kb, some n => some (.seek (kb, n))
    | _, _ => none
  | _ => none

def runTL (t : Table) : TL → List COp → List String → List String
  | _, [], acc => acc.reverse
  | s, op :: ops, acc =>
    let s' := tlStep t s op
    let out := match s'.current t with
      | some e => if s'.valid t then showEntry e else "-"
      | none => "-"
    runTL t s' ops (out :: acc)

def showLookup : Lookup → String
  | .found v => s!"found:{hexOut v}"
  | .deleted => "deleted"
  | .absent => "absent"

def tableCmd : List String → Option String
  | ["key.sep", a, aq, b, bq] =>
    match ofHex a, aq.toNat?, ofHex b, bq.toNat? with
    | some x, some xq, some y, some yq => some (showKey (keySep (x, xq) (y, yq)))
    | _, _, _, _ => none
  | ["key.succ", a, aq] =>
    match ofHex a, aq.toNat? with
    | some x, some xq => some (showKey (keySucc (x, xq)))
    | _, _ => none
  | ["key.lt", a, aq, b, bq] =>
    match ofHex a, aq.toNat?, ofHex b, bq.toNat? with
    | some x, some xq, some y, some yq => some (if kLt (x, xq) (y, yq) then "true" else "false")
    | _, _, _, _ => none
  | ["bytes.sep", a, b] =>
    match ofHex a, ofHex b with
    | some x, some y => some (hexOut (bytesSep x y))
    | _, _ => none
  | ["bytes.succ", a] => (ofHex a).map fun x => hexOut (bytesSucc x)
  | ["block.enc", r, es] =>
    match r.toNat?, parseEntries es with
    | some rr, some l => some (hexOut (encodeBlock rr l))
    | _, _ => none
  | ["block.dec", raw] =>
    match ofHex raw with
    | some b => match decodeBlock b with
      | some es => some (showEntries es)
      | none => some "parse-error"
    | none => none
  | ["table.part", mb, es] =>
    match mb.toNat?, parseEntries es with
    | some m, some l =>
      let bs := partition m l
      let counts := ",".intercalate (bs.map fun b => toString b.length)
      some s!"{if bs.isEmpty then "_" else counts} {if bs.isEmpty then "_" else ",".intercalate ((indexKeys bs).map showKey)}"
    | _, _ => none
  | ["table.index", counts, es] =>
    match parseCounts counts, parseEntries es with
    | some c, some l =>
      let bs := splitBy c l
      some (if bs.isEmpty then "_" else ",".intercalate ((indexKeys bs).map showKey))
    | _, _ => none
  | ["table.get", counts, es, k, q] =>
    match parseCounts counts, parseEntries es, ofHex k, q.toNat? with
    | some c, some l, some kb, some n =>
      some (showLookup (tableGet (fun _ _ => true) (mkTable (splitBy c l)) kb n))
    | _, _, _, _ => none
  | ["table.iter", counts, es, prog] =>
    match parseCounts counts, parseEntries es, (prog.splitOn ",").mapM parseOp with
    | some c, some l, some ops =>
      let t := mkTable (splitBy c l)
      some (" ".intercalate (runTL t (TL.init t) ops []))
    | _, _, _ => none
  | ["lookup.sorted", es, k, q] =>
    match parseEntries es, ofHex k, q.toNat? with
    | some l, some kb, some n => some (showLookup (lookupSorted l kb n))
    | _, _, _ => none
  | _ => none

end Rain.Driver
