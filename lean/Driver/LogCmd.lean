import Rain.Log
import Rain.LogFlags
import Rain.Crc
namespace Rain.Driver
open Rain Rain.Log

def realCfg : Cfg := { B := Rain.Gen.LOG_BLOCK_SIZE_BYTES, crc := crc32c }

def parseHexList (xs : List String) : Option (List Bytes) :=
  xs.mapM ofHex

def joinHex (xs : List Bytes) : String :=
  " ".intercalate (xs.map hexOut)

/-- requests of the `log.` family -/
def logCmd : List String → Option String
  | "log.writes" :: flen :: recs =>
    match flen.toNat?, parseHexList recs with
    | some n, some rs =>
      let w := appendAllWrites realCfg (openOffset realCfg n) rs
      some s!"{w.2} {w.1.length} {joinHex w.1}"
    | _, _ => none
  | ["log.readall", file] =>
    match ofHex file with
    | some f => let rs := readAll realCfg f; some s!"{rs.length} {joinHex rs}"
    | none => none
  | ["log.readalls", file] =>
    match ofHex file with
    | some f => let r := readAllS realCfg f; some s!"{if r.2 then "clean" else "dirty"} {r.1.length} {joinHex r.1}"
    | none => none
  | ["log.readallf", file] =>
    -- records plus `was_read_cleanly_to_end` and `encountered_corruption`
    match ofHex file with
    | some f =>
      let r := readAllF realCfg f
      some s!"{if r.2.1 then "clean" else "dirty"} {if r.2.2 then "corrupt" else "intact"} {r.1.length} {joinHex r.1}"
    | none => none
  | ["log.crc", d] =>
    match ofHex d with
    | some f => some s!"{crc32c f} {maskCrc (crc32c f)}"
    | none => none
  | _ => none

end Rain.Driver
