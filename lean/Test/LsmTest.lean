import Rain.LsmSpec
open Rain Rain.Lsm

/-! random tester for the statements of Props/Lsm.lean over tiny states -/

structure Rng where
  s : Nat

def Rng.next (r : Rng) : Rng × Nat :=
  let s' := (r.s * 6364136223846793005 + 1442695040888963407) % (2^64)
  (⟨s'⟩, s' / 2^33)

def Rng.below (r : Rng) (n : Nat) : Rng × Nat :=
  let (r', v) := r.next
  (r', if n = 0 then 0 else v % n)

def keys : List Bytes := [[1],[2],[3],[4]]

def randSubset (r : Rng) (xs : List Nat) (pPct : Nat) : Rng × List Nat :=
  xs.foldl (fun (acc : Rng × List Nat) x =>
    let (r', v) := acc.1.below 100
    (r', if v < pPct then acc.2 ++ [x] else acc.2)) (r, [])

/-- random cut of a list into non-empty runs -/
def randCut (r : Rng) (es : List Entry) (start : Nat) : Rng × List (Nat × List Entry) × Nat :=
  let rec go (fuel : Nat) (r : Rng) (es : List Entry) (cur : List Entry) (num : Nat)
      (acc : List (Nat × List Entry)) : Rng × List (Nat × List Entry) × Nat :=
    match fuel, es with
    | 0, _ => (r, acc, num)
    | _, [] => if cur.isEmpty then (r, acc, num) else (r, acc ++ [(num, cur)], num + 1)
    | fuel+1, e :: rest =>
      let (r', v) := r.below 100
      if v < 40 && !cur.isEmpty then go fuel r' rest [e] (num + 1) (acc ++ [(num, cur)])
      else go fuel r' rest (cur ++ [e]) num acc
  go (es.length + 1) r es [] start []

def mkCompaction (r : Rng) (s : State) (nextNum : Nat) (smart : Bool) : Rng × Compaction × Nat :=
  let (r, lvl) := r.below 4
  let lv := s.levels.getD lvl []
  let lp := s.levels.getD (lvl + 1) []
  let (r, in0) := randSubset r (lv.map File.num) 50
  let i0 := pick lv in0
  let (r, in1) :=
    if smart then
      match hull i0 with
      | some (lo, hi) => (r, (lp.filter fun g => userRangeOverlaps g lo hi).map File.num)
      | none => (r, [])
    else randSubset r (lp.map File.num) 50
  let i1 := pick lp in1
  let (r, q) := r.below (s.lastSeq + 2)
  let merged := mergeAll ((i0 ++ i1).map File.entries)
  let kept := dropLoop q (isBaseLevel s.levels lvl) none merged
  let (r, outs0, _) := randCut r kept 0
  -- output numbers: any unused numbers, possibly smaller than existing ones
  let used := s.levels.flatten.map File.num
  let mx := used.foldl max 0
  let unused := (List.range (mx + outs0.length + 4)).filter fun n => n != 0 && !used.contains n
  let (r, st) := r.below 4
  let nums := unused.drop st
  let outs := (outs0.zip nums).map fun (o, n) => (n, o.2)
  let outs := if outs.length == outs0.length then outs else outs0
  (r, { level := lvl, inputs0 := in0, inputs1 := in1, smallestSnapshot := q, outputs := outs }, nextNum)

def genAction (r : Rng) (s : State) (nextNum : Nat) : Rng × Action × Nat :=
  let (r, c) := r.below 100
  if c < 30 then
    let (r, n) := r.below 3
    let rec ops (fuel : Nat) (r : Rng) (acc : List (Bytes × Option Bytes)) : Rng × List (Bytes × Option Bytes) :=
      match fuel with
      | 0 => (r, acc)
      | fuel+1 =>
        let (r, ki) := r.below 4
        let (r, d) := r.below 100
        let (r, v) := r.below 250
        ops fuel r (acc ++ [(keys.getD ki [1], if d < 35 then none else some [v.toUInt8])])
    let (r, o) := ops (n + 1) r []
    (r, .write o, nextNum)
  else if c < 45 then (r, .rotate, nextNum)
  else if c < 60 then
    let (r, l) := r.below 100
    let lvl := if l < 50 then 0 else if l < 75 then 1 else if l < 90 then 2 else 3
    let mx := (s.levels.flatten.map File.num).foldl max 0
    let (r, gap) := r.below 3
    (r, .flush (mx + 1 + gap) lvl, nextNum + 1)
  else if c < 88 then
    let (r, sm) := r.below 100
    let (r, c, n') := mkCompaction r s nextNum (sm < 50)
    (r, .compact c, n')
  else
    let (r, lvl) := r.below 4
    let nums := (s.levels.getD lvl []).map File.num
    let (r, i) := r.below nums.length
    (r, .trivialMove (nums.getD i 0) lvl, nextNum)

def checkState (s : State) : Option String := Id.run do
  if !invB s then return some "invB fails"
  for k in keys do
    for snap in List.range (s.lastSeq + 2) do
      if dbGet s k snap != view (allEntries s) snap k then
        return some s!"get_eq_view fails k={k} snap={snap}"
  return none

def checkRearr (s s' : State) (a : Action) : Option String := Id.run do
  if a.isWrite then
    match a with
    | .write ops =>
      for k in keys do
        if view (allEntries s') (s.lastSeq + ops.length) k != specApply (view (allEntries s) s.lastSeq) ops k then
          return some s!"write_view_latest fails k={k}"
        for snap in List.range (s.lastSeq + 1) do
          if view (allEntries s') snap k != view (allEntries s) snap k then
            return some s!"write_view_old fails k={k} snap={snap}"
    | _ => pure ()
    return none
  else
    for k in keys do
      for snap in List.range (s'.lastSeq + 3) do
        if a.floor ≤ snap then
          if view (allEntries s') snap k != view (allEntries s) snap k then
            return some s!"rearrange_view fails k={k} snap={snap}"
    return none

structure Stats where
  ok : Nat := 0
  rejected : Nat := 0
  compOk : Nat := 0
  moveOk : Nat := 0
  flushDeep : Nat := 0
  dropped : Nat := 0
  newerL0 : Nat := 0
  gap : Nat := 0
  smallNum : Nat := 0
  deriving Repr

/-- classify the newly allowed situations of an accepted compaction -/
def classify (s : State) (c : Compaction) : Bool × Bool × Bool :=
  let lv := s.levels.getD c.level []
  let i0 := pick lv c.inputs0
  let r0 := unpick lv c.inputs0
  let newerL0 := c.level == 0 && (match hull i0 with
    | some (lo, hi) => r0.any fun g => userRangeOverlaps g lo hi
    | none => false)
  let gap := c.level != 0 && r0.any fun g =>
    (i0.any fun f => kLt f.largest g.smallest) && (i0.any fun f => kLt g.largest f.smallest)
  let mx := (s.levels.flatten.map File.num).foldl max 0
  let small := c.outputs.any fun o => o.1 < mx
  (newerL0, gap, small)

def runOne (seed steps : Nat) (st : Stats) : Except String Stats := do
  let mut r : Rng := ⟨seed⟩
  let mut s := init
  let mut nextNum := 1
  let mut st := st
  let mut acts : List Action := []
  for _ in List.range steps do
    let (r', a, n') := genAction r s nextNum
    r := r'
    match step s a with
    | none => st := { st with rejected := st.rejected + 1 }
    | some s' =>
      nextNum := n'
      acts := acts ++ [a]
      match checkState s' with
      | some msg => throw s!"seed {seed}: {msg}\naction {repr a}\nbefore {repr s}\nafter {repr s'}"
      | none => pure ()
      match checkRearr s s' a with
      | some msg => throw s!"seed {seed}: {msg}\naction {repr a}\nbefore {repr s}\nafter {repr s'}"
      | none => pure ()
      for k in keys do
        if dbGet s' k s'.lastSeq != specOf acts k then
          throw s!"seed {seed}: reads_latest fails k={k}"
      st := { st with ok := st.ok + 1 }
      match a with
      | .compact c =>
        let before := (allEntries s).length
        let after := (allEntries s').length
        let (a1, a2, a3) := classify s c
        st := { st with compOk := st.compOk + 1, dropped := st.dropped + (before - after),
                        newerL0 := st.newerL0 + (if a1 then 1 else 0),
                        gap := st.gap + (if a2 then 1 else 0),
                        smallNum := st.smallNum + (if a3 then 1 else 0) }
      | .trivialMove _ _ => st := { st with moveOk := st.moveOk + 1 }
      | .flush _ l => if l > 0 then st := { st with flushDeep := st.flushDeep + 1 }
      | _ => pure ()
      s := s'
  return st

def runMany (seed0 n steps : Nat) : Except String Stats := do
  let mut st : Stats := {}
  for i in List.range n do
    st ← runOne (seed0 + i) steps st
  return st

def main (args : List String) : IO Unit := do
  let seed0 := (args.getD 0 "1").toNat!
  let n := (args.getD 1 "100").toNat!
  let steps := (args.getD 2 "60").toNat!
  match runMany seed0 n steps with
  | .ok st => IO.println s!"all ok {repr st}"
  | .error e => IO.println s!"FAIL {e}"
