#!/usr/bin/env python3
"""Regenerate MANIFEST.json from tools/propspec.py (claimed checks) and tools/not_applicable.json."""
import json, os, sys
ROOT = os.path.join(os.path.dirname(os.path.abspath(__file__)), "..")
sys.path.insert(0, os.path.dirname(os.path.abspath(__file__)))
from propspec import PROPS, CLAIMED  # noqa
ids = [json.loads(l)["id"] for l in open(os.path.join(ROOT, "properties.jsonl"))]
na_reasons = json.load(open(os.path.join(ROOT, "tools", "not_applicable.json")))
hooks_commits = [l.strip() for l in open(os.path.join(ROOT, "tools", "hook_commits.txt")) if l.strip()]
checks = []
for pid in ids:
    if pid not in CLAIMED:
        continue
    sp = PROPS[pid]
    checks.append({
        "property_id": pid,
        "quick_cmd": f"./check {pid} --tier quick",
        "thorough_cmd": f"./check {pid} --tier thorough",
        "evidence_file": f"/verif/evidence/{pid}.json",
        "replay_cmd_template": f"./check {pid} --replay {{path}}",
        "engine": "lean4-proof+correspondence",
        "level_claimed": {"category": sp["level"], "text": sp["level_text"], "design_ref": sp.get("design_ref", "5")},
        "level_note": "Trusted base: " + " | ".join(sp["trusted_base"]) + " || Assumptions: " + " | ".join(sp["assumptions"]),
        "technique": sp["technique"],
    })
m = {
    "version": 1,
    "setup_cmd": "./tools/setup.sh",
    "hooks": {
        "guard": "cargo feature `verif` (raindb/Cargo.toml [features] verif = [])",
        "enable": "the harness crate /verif/harness depends on raindb = { path = \"/repo\", features = [\"verif\"] }; every check runs `cargo build --release --offline` there, which rebuilds /repo's working tree with the feature on",
        "baseline_off_cmd": "/verif/tools/run_baseline.sh",
        "source_commits": hooks_commits,
        "add_only": True,
    },
    "engines": [
        {"name": "lean4-proof+correspondence", "path": "/verif/lean (Lean model, theorems, driver) + /verif/harness (Rust harness) + /verif/check (runner)",
         "serves_properties": [c["property_id"] for c in checks],
         "kind_free_text": "Machine-checked Lean 4 theorems over a hand-written executable model; model tied to /repo on every run by differential execution (compiled model driver vs real crate in-process) plus oracle checks on the implementation; constants regenerated from source"}
    ],
    "checks": checks,
    "notes": "See DESIGN.md. ./check <id> --tier quick|thorough; VERIF_SEED/VERIF_TIER honoured. known_findings.json lists recorded findings (status known) and repaired defects (status fixed).",
    "not_applicable": [{"property_id": i, "reason": na_reasons.get(i, "check under construction in this session (see DESIGN.md section 7 for the build order)")}
                       for i in ids if i not in CLAIMED],
}
json.dump(m, open(os.path.join(ROOT, "MANIFEST.json"), "w"), indent=1)
print("claimed:", [c["property_id"] for c in checks])
