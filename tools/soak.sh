#!/bin/bash
# tools/soak.sh <tier> <seed>... : every claimed property, given seeds; prints only problems
tier=$1; shift
cd /verif
for s in "$@"; do
  for p in C01 C02 C03 C04 C05 C06 C07 C08 C09 C10 C11 C12 C13 C14 C15 C16 C17; do
    ./check $p --tier $tier --seed $s > /tmp/soak_${p}_${s}.out 2>&1; rc=$?
    echo "$p seed=$s rc=$rc $(grep -c '^VIOLATION' /tmp/soak_${p}_${s}.out) $(grep '^\[' /tmp/soak_${p}_${s}.out | tail -1 | cut -c1-160)"
    grep '^VIOLATION\|oracle:\|model:' /tmp/soak_${p}_${s}.out | head -4 | cut -c1-300
  done
done
git -C /verif checkout -- evidence
