#!/usr/bin/env python3
"""Regenerate lean/Rain/Generated/Constants.lean from /repo's current sources.

Every constant is located by a regular expression over the named source file and its
right-hand side is evaluated as a small integer expression (literals, + - * / << and
references to other extracted constants).  A constant that cannot be found is a hard error:
the Lean build then fails and the check reports a broken obligation.
"""
import re, sys, os, ast

REPO = os.environ.get("RAIN_REPO", "/repo")
OUT = os.path.join(os.path.dirname(os.path.abspath(__file__)), "..", "lean", "Rain", "Generated", "Constants.lean")

# (lean name, file, regex with one group = rhs expression)
SPECS = [
    ("LOG_HEADER_LENGTH_BYTES", "src/logs.rs", r"const HEADER_LENGTH_BYTES: usize = ([^;]+);"),
    ("LOG_BLOCK_SIZE_BYTES", "src/logs.rs", r"const BLOCK_SIZE_BYTES: usize = ([^;]+);"),
    ("CRC_MASKING_DELTA", "src/utils/crc.rs", r"const CRC_MASKING_DELTA: u32 = ([^;]+);"),
    ("CRC_MASK_SHR", "src/utils/crc.rs", r"fn mask_checksum[^}]*?checksum\.wrapping_shr\((\d+)\)"),
    ("CRC_MASK_SHL", "src/utils/crc.rs", r"fn mask_checksum[^}]*?checksum\.wrapping_shl\((\d+)\)"),
    ("CRC_UNMASK_SHR", "src/utils/crc.rs", r"fn unmask_checksum[^}]*?rotated\.wrapping_shr\((\d+)\)"),
    ("CRC_UNMASK_SHL", "src/utils/crc.rs", r"fn unmask_checksum[^}]*?rotated\.wrapping_shl\((\d+)\)"),
    ("FILTER_RANGE_SIZE_EXPONENT", "src/tables/filter_block_builder.rs", r"const FILTER_RANGE_SIZE_EXPONENT: u8 = ([^;]+);"),
    ("BLOOM_SEED", "src/filter_policy.rs", r"let seed: u32 = ([^;]+);"),
    ("BLOOM_MULTIPLIER", "src/filter_policy.rs", r"let multiplier: u32 = ([^;]+);"),
    ("BLOOM_ROTATION", "src/filter_policy.rs", r"let rotation_factor: u32 = ([^;]+);"),
    ("BLOOM_MIN_BITS", "src/filter_policy.rs", r"if filter_size_bits < (\d+) \{"),
    ("BLOOM_MAX_PROBES", "src/filter_policy.rs", r"num_hash_functions > (\d+) \{"),
    ("RESTART_INTERVAL", "src/config.rs", r"const PREFIX_COMPRESSION_RESTART_INTERVAL: usize = ([^;]+);"),
    ("MAX_NUM_LEVELS", "src/config.rs", r"const MAX_NUM_LEVELS: usize = ([^;]+);"),
    ("L0_COMPACTION_TRIGGER", "src/config.rs", r"const L0_COMPACTION_TRIGGER: usize = ([^;]+);"),
    ("L0_SLOWDOWN_WRITES_TRIGGER", "src/config.rs", r"const L0_SLOWDOWN_WRITES_TRIGGER: usize = ([^;]+);"),
    ("L0_STOP_WRITES_TRIGGER", "src/config.rs", r"const L0_STOP_WRITES_TRIGGER: usize = ([^;]+);"),
    ("MAX_MEM_COMPACT_LEVEL", "src/config.rs", r"const MAX_MEM_COMPACT_LEVEL: usize = ([^;]+);"),
    ("BLOCK_DESCRIPTOR_SIZE_BYTES", "src/tables/constants.rs", r"const BLOCK_DESCRIPTOR_SIZE_BYTES: usize = ([^;]+);"),
    ("MAX_GROUP_COMMIT_SIZE_BYTES", "src/config.rs", r"const MAX_GROUP_COMMIT_SIZE_BYTES: usize = ([^;]+);"),
    ("GROUP_COMMIT_SMALL_WRITE_THRESHOLD_BYTES", "src/config.rs", r"const GROUP_COMMIT_SMALL_WRITE_THRESHOLD_BYTES: usize = ([^;]+);"),
    ("SMALL_WRITE_ADDITIONAL_GROUP_COMMIT_SIZE_BYTES", "src/config.rs", r"const SMALL_WRITE_ADDITIONAL_GROUP_COMMIT_SIZE_BYTES: usize = ([^;]+);"),
    # compaction scoring (`Version::finalize`, `Version::max_bytes_for_level`); float literals `10.` are integers here
    ("SCORED_LEVELS", "src/versioning/version.rs", r"fn finalize\(&mut self\) \{.*?for level in 0\.\.([^{]+?)\{"),
    ("STARTING_MULTIPLE_BYTES", "src/versioning/version.rs", r"let starting_multiple_bytes: f64 = ([^;]+);"),
    ("LEVEL_ONE_MAX_BYTES", "src/versioning/version.rs", r"let mut level = level;\s*let mut result: f64 = ([^;]+);"),
    # compaction tunables: grandparent overlap limit of a flushed table, size limit of expanded inputs
    ("GRANDPARENT_OVERLAP_MULTIPLIER", "src/compaction/utils.rs", r"fn max_grandparent_overlap_bytes_from_options\(options: &DbOptions\) -> u64 \{\s*options\.max_file_size\(\) \* (\d+)"),
    ("EXPANDED_COMPACTION_MULTIPLIER", "src/compaction/manifest.rs", r"self\.max_output_file_size_bytes \* (\d+)"),
    # seek budget of a new table file (`FileMetadata::set_file_size`)
    ("SEEK_DATA_SIZE_THRESHOLD", "src/config.rs", r"const SEEK_DATA_SIZE_THRESHOLD_KIB: u64 = ([^;]+);"),
    ("MIN_ALLOWED_SEEKS", "src/versioning/file_metadata.rs", r"if allowed_seeks < (\d+) \{\s*allowed_seeks = \1;"),
    ("ITERATION_READ_BYTES_PERIOD", "src/config.rs", r"const ITERATION_READ_BYTES_PERIOD: u64 = ([^;]+);"),
    ("LEVEL_MAX_BYTES_MULTIPLIER", "src/versioning/version.rs", r"while level > 1 \{\s*result \*= ([^;]+);"),
]
# string constants of src/file_names.rs (emitted as lists of code points): the names the database
# gives its files and the literals the parser compares with. Format side and parse side are
# extracted separately: a theorem (by decide) needs them to fit together.
STR_SPECS = [
    ("FN_LOCK_FILE", "src/file_names.rs", r'const LOCK_FILE: &str = "([^"]*)";'),
    ("FN_CURRENT_FILE", "src/file_names.rs", r'const CURRENT_FILE_NAME: &str = "([^"]*)";'),
    ("FN_WAL_EXT", "src/file_names.rs", r'const WAL_EXT: &str = "([^"]*)";'),
    ("FN_TABLE_EXT", "src/file_names.rs", r'const TABLE_EXT: &str = "([^"]*)";'),
    ("FN_MANIFEST_EXT", "src/file_names.rs", r'const MANIFEST_FILE_EXT: &str = "([^"]*)";'),
    ("FN_TEMP_EXT", "src/file_names.rs", r'const TEMP_FILE_EXT: &str = "([^"]*)";'),
    ("FN_WAL_FMT_PREFIX", "src/file_names.rs", r'fn get_wal_file_path.*?format!\("([^"{]*)\{wal_number\}"\)'),
    ("FN_MANIFEST_FMT_PREFIX", "src/file_names.rs", r'fn get_manifest_file_path.*?format!\("([^"{]*)\{manifest_number\}"\)'),
    ("FN_WAL_PARSE_PREFIX", "src/file_names.rs", r'if file_extension == WAL_EXT \{\s*let file_number: u64 = FileNameHandler::parse_file_number\(file_stem, "([^"]*)"\)'),
    ("FN_MANIFEST_PARSE_PREFIX", "src/file_names.rs", r'if file_extension == MANIFEST_FILE_EXT \{\s*let file_number: u64 = FileNameHandler::parse_file_number\(file_stem, "([^"]*)"\)'),
    ("FN_TABLE_PARSE_PREFIX", "src/file_names.rs", r'if file_extension == TABLE_EXT \{\s*let file_number: u64 = FileNameHandler::parse_file_number\(file_stem, "([^"]*)"\)'),
    ("FN_TEMP_PARSE_PREFIX", "src/file_names.rs", r'if file_extension == TEMP_FILE_EXT \{\s*let file_number: u64 = FileNameHandler::parse_file_number\(file_stem, "([^"]*)"\)'),
]
# names used inside right-hand sides
ALIASES = {"starting_multiple_bytes": "STARTING_MULTIPLE_BYTES"}

def ev(expr, env):
    expr = expr.strip().replace("_", "") if re.fullmatch(r"[0-9a-fA-Fx_]+", expr.strip()) else expr.strip()
    tree = ast.parse(expr, mode="eval")
    def go(n):
        if isinstance(n, ast.Expression): return go(n.body)
        if isinstance(n, ast.Constant) and isinstance(n.value, int): return n.value
        if isinstance(n, ast.Name):
            if n.id in env: return env[n.id]
            raise ValueError("unknown name " + n.id)
        if isinstance(n, ast.BinOp):
            a, b = go(n.left), go(n.right)
            if isinstance(n.op, ast.Add): return a + b
            if isinstance(n.op, ast.Sub): return a - b
            if isinstance(n.op, ast.Mult): return a * b
            if isinstance(n.op, ast.FloorDiv) or isinstance(n.op, ast.Div): return a // b
            if isinstance(n.op, ast.LShift): return a << b
        raise ValueError("unsupported expression: " + expr)
    return go(tree)

def main():
    env, lines, missing = {}, [], []
    cache = {}
    for name, f, rx in SPECS:
        p = os.path.join(REPO, f)
        try:
            src = cache.setdefault(p, open(p).read())
        except OSError:
            missing.append((name, f)); continue
        m = re.search(rx, src, re.S)
        if not m:
            missing.append((name, f)); continue
        rhs = re.sub(r"\bas (usize|u\d+)\b", "", m.group(1))
        rhs = re.sub(r"(\d)_(\d)", r"\1\2", rhs)
        rhs = re.sub(r"(\d)\.(?!\d)", r"\1", rhs)   # `10.` -> `10` (an f64 literal with an integer value)
        for a, b in ALIASES.items():
            rhs = re.sub(r"\b" + a + r"\b", b, rhs)
        try:
            v = ev(rhs, env)
        except Exception as e:
            missing.append((name, f + ": " + str(e))); continue
        env[name] = v
        lines.append(f"/-- `{f}` -/\ndef {name} : Nat := {v}")
    for name, f, rx in STR_SPECS:
        p = os.path.join(REPO, f)
        try:
            src = cache.setdefault(p, open(p).read())
        except OSError:
            missing.append((name, f)); continue
        m = re.search(rx, src, re.S)
        if not m or "\\" in m.group(1):
            missing.append((name, f)); continue
        cps = [ord(c) for c in m.group(1)]
        env[name] = '"' + m.group(1) + '"'
        lines.append(f"/-- `{f}`: \"{m.group(1)}\" as code points -/\ndef {name} : List Nat := [" + ", ".join(map(str, cps)) + "]")
    body = ("-- GENERATED by tools/extract_constants.py from the current /repo sources. Do not edit.\n"
            "namespace Rain.Gen\n\n" + "\n\n".join(lines) + "\n\nend Rain.Gen\n")
    if missing:
        body += "\n-- constants that could not be extracted (this makes dependants fail to build):\n"
        for n, f in missing:
            body += f"-- MISSING {n} from {f}\n"
    os.makedirs(os.path.dirname(OUT), exist_ok=True)
    old = open(OUT).read() if os.path.exists(OUT) else None
    if old != body:
        open(OUT, "w").write(body)
    for n, f in missing:
        print(f"MISSING {n} {f}", file=sys.stderr)
    print("constants:", " ".join(f"{k}={v}" for k, v in env.items()))
    return 0

if __name__ == "__main__":
    sys.exit(main())
