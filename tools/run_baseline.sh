#!/bin/bash
# Runs the repository's pinned suite (guard OFF) the way /root/.vp/BASELINE.json does.
cd /repo || exit 2
if cargo nextest --version >/dev/null 2>&1 && [ -f /w/lib/nextest.toml ]; then
  exec cargo nextest run --workspace --no-fail-fast --tool-config-file pb:/w/lib/nextest.toml --profile pb --test-threads 8 --offline "$@"
else
  exec cargo test --workspace --no-fail-fast --offline "$@"
fi
