"""Per-property configuration of ./check: Lean modules holding the property theorems, harness
components that tie the model to the code, trusted base and assumptions written into the evidence."""

COMMON_TB = [
    "Lean 4.33.0 kernel (lake build); axioms allowed: propext, Classical.choice, Quot.sound (audited per theorem with #print axioms)",
    "the statements in lean/Rain/Props/*.lean and the specs they mention (read them: a wrong statement is not caught by the kernel)",
    "the hand-written Lean model of the named Rust code; tied to /repo's working tree on every run by the Rust harness (byte/behaviour comparison through the compiled driver raindrv) - sampled, so a divergence on inputs never generated is not seen",
    "Lean compiler (for the raindrv executable), the Rust harness, SimFs, generators, tools/extract_constants.py",
    "hook code in /repo under cargo feature `verif` (add-only wrappers)",
]

PROPS = {
    "C12": {
        "title": "Log files return exactly the records appended",
        "technique": "Lean 4 theorems (round trip for all record lengths and session splits, truncation at every byte, writer death between fragments) over a model of logs.rs + byte-exact differential test of LogWriter/LogReader against the compiled model + the same oracles on the crate's real disk-backed filesystem (TmpFileSystem in a scratch directory): generated histories with clean close + reopen and a log appended to in two sessions + the log reader's corruption flag (what manifest recovery consults): Lean 4 model readAllF with proofs that it never fires on a written log, cut or not (C15_log_no_false_positive, C15_log_torn_write_not_corruption), fires on Last->First and Full->Last/Middle type damage, and kernel-checked witnesses of the transitions it cannot see (Full->First and Last->Middle at the end of the file, a raised length byte); flags and records of the real reader are compared with the model on every generated log and on damaged variants of it",
        "level_text": "Machine-checked proof over the Lean model of LogWriter/LogReader for every block size, checksum function, record list, session split, truncation point and fragment cut; the model is tied to the code on every run by byte-exact comparison of file contents and reader output, exhaustively around the block-boundary arithmetic, and the round-trip/truncation/partial-append oracle is evaluated on the implementation itself.",
        "design_ref": "5 (C12)",
        "level": "proof",
        "lean_modules": ["Rain.Props.C12", "Rain.Legacy.LogD8", "Rain.Props.LogFlags"],
        "components": ["c12", "disk"],
        "sig_prefixes": ["c12:", "disk:"],
        "trusted_base": COMMON_TB + [
            "crc crate's CRC-32C (a parameter of the theorems with the only hypothesis crc d < 2^32; concrete Lean CRC-32C used only for byte-exact comparison)",
        ],
        "assumptions": [
            "the filesystem returns short reads only at end of file and appends are not reordered (SimFs semantics)",
            "LogReader is used with initial offset 0 (the only value the database passes)",
            "current_cursor_position of LogReader is not modelled (argued redundant in Rain/Log.lean)",
        ],
    },
    "C14": {
        "level": "proof",
        "lean_modules": ["Rain.Props.C14"],
        "components": ["c14", "c13"],
        "sig_prefixes": ["c14:"],
        "title": "Filters never hide a key that is present",
        "technique": "Lean 4 theorems (no false negative for every hash/key set/bits-per-key; filter-block index agreement for every monotone block layout; serialize/parse round trip) + differential test of BloomFilterPolicy and FilterBlockBuilder/Reader against the compiled model",
        "level_text": "Machine-checked proof over the Lean model of filter_policy.rs / filter_block_builder.rs / filter_block.rs for all key sets, hashes, bits-per-key and block layouts; the model is tied to the code on every run by byte-exact comparison of created filters, filter blocks and match answers on generated inputs, and the no-false-negative oracle is evaluated on the implementation itself.",
        "design_ref": "5 (C14)",
        "trusted_base": COMMON_TB + [
            "filter_size_bits as u32 does not truncate (filters below 2^32 bits; hypothesis _hfaithful)",
            "f64 floor(bits_per_key*0.69) equals bits*69/100 for bits_per_key < 100 (compared by the harness for 0..128)",
        ],
        "assumptions": [
            "the table builder calls notify_new_data_block with non-decreasing block offsets and Table::get queries the filter with the data block's start offset (checked at table level by the C13 component)",
            "total filter-block size below 2^32 bytes",
        ],
    },
}

PROPS["C13"] = {
    "level": "proof",
    "lean_modules": ["Rain.Props.C13", "Rain.Props.Lru", "Rain.Props.BinSearch"],
    "components": ["c13", "lru", "binsearch"],
    "sig_prefixes": ["c13:", "lru:", "c09:"],
    "title": "Table files give back exactly what was put in",
    "technique": "Lean 4 theorems (block round trip, separator/successor bounds, Table::get = first-entry-at-or-after specification and TwoLevelIterator = flat cursor for EVERY partition into blocks and every cursor program) + differential test of BlockBuilder/BlockReader/TableBuilder/Table/TwoLevelIterator against the compiled model and the specification + LRU cache model (table cache, block cache): Lean 4 proofs that for every operation sequence a hit is the last value inserted for that key, never another key's or an older one (cache_contents_sound, cache_answers_sound), size <= capacity, recently used keys stay; the real LRUCache is run against the model on generated sequences and hammered from several threads + the binary searches of the code as loops (Rain/BinSearch: find_file_with_upper_bound_range, BlockIter::seek) proved equal to the linear specifications the other models use on every sorted input, in range on any input, logarithmic; the real functions run against the loop model on synthetic levels and real blocks (component binsearch)",
    "level_text": "Machine-checked proof over the Lean model of block_builder.rs / block.rs / table_builder.rs / table.rs / key.rs / bytes.rs for every sorted entry list, every partition into non-empty blocks (hence every max_block_size), every lookup and every cursor program; tied to the code on every run by byte-exact block comparison, structural table dumps (partition, index keys) and answer-for-answer comparison of lookups and cursor programs on tables built by the real TableBuilder; the specification itself (first entry at or after the target decides: value / deletion / not in this file) is evaluated on the implementation.",
    "design_ref": "5 (C13)",
    "trusted_base": COMMON_TB + [
        "snap compression and the CRC trailer of table blocks are below the model (exercised: tables are written and read back through the real code)",
    ],
    "assumptions": [
        "entries handed to TableBuilder are strictly sorted by internal key (asserted by the builder) and non-empty (an empty block does not parse: C13_block_roundtrip needs kvs != [], and the builder never emits an empty block)",
        "block and table sizes below 2^32 bytes; sequence numbers are u64",
    ],
}

PROPS["C04"] = {
    "level": "proof",
    "lean_modules": ["Rain.Props.C04"],
    "components": ["c04"],
    "sig_prefixes": ["c04:"],
    "title": "Iterators yield exactly the visible keys, in order, under any cursor movement",
    "technique": "Lean 4 refinement proofs (MergingIterator = cursor over the sorted union; DatabaseIterator = cursor over the visible pairs; composition) for every cursor program + differential test of MergingIterator and DB::new_iterator against the compiled model and a sorted-map oracle",
    "level_text": "Machine-checked refinement proofs over the Lean models of MergingIterator and DatabaseIterator (iterator.rs, file_iterators.rs) for every list of sorted children with distinct internal keys, every snapshot bound and every sequence of seek/first/last/next/prev with arbitrary reversals; tied to the code on every run by step-for-step comparison of the real iterators (MergingIterator over generated children; DB::new_iterator over LSM shapes produced by generated histories, at the latest state and at snapshots) with the compiled model, and by a BTreeMap cursor oracle evaluated on the implementation.",
    "design_ref": "5 (C04)",
    "trusted_base": COMMON_TB + [
        "each child iterator (memtable iterator, table TwoLevelIterator [proved a cursor in C13], FilesEntryIterator of a level) behaves as a cursor over its sorted entries; FilesEntryIterator and the skip-list iterator are exercised through the DB-level comparison, not modelled",
        "read sampling in DatabaseIterator (schedules compactions only) is not modelled",
    ],
    "assumptions": [
        "internal keys are distinct across the merged sources (the LSM invariant proved in Props/Lsm guarantees it)",
        "next/prev are only called on a valid iterator (the implementation asserts it); the model leaves an invalid iterator unchanged",
        "contents do not change while a cursor program runs (iterator stability under concurrent writes is C03/C05)",
    ],
}

DB_TB = COMMON_TB + [
    "nerdondon-hopscotch skip list, snap compression, crc crate, parking_lot, arc-swap: exercised through the real code, not modelled",
    "SimFs semantics (POSIX-like: per-handle cursors, O_APPEND, rename replaces, completed operations are durable and ordered)",
]

def _db(pid, title, prefixes, technique, text, assumptions, mods, comps=("lsm",)):
    PROPS[pid] = {
        "level": "proof", "title": title, "lean_modules": list(mods), "components": list(comps),
        "sig_prefixes": prefixes, "technique": technique, "level_text": text, "design_ref": "5 (%s)" % pid,
        "trusted_base": DB_TB, "assumptions": assumptions,
    }

LSM_TIE = ("tied to the code on every run by trace validation: generated single-client histories run on the real database (SimFs, tiny memtable/file/block sizes, both log-reuse settings, options re-drawn at reopen); every flush, trivial move and table compaction the real worker performs is recorded with the version's files and the tables' entries and checked against the model's transition relation (stepFlush / stepTrivialMove / validCompaction + drop rule), consecutive transitions must chain, every quiescent state dump must satisfy the executable invariant invB and the model's read path on the dumped state must agree with the real gets; independently every get/scan is compared with a BTreeMap oracle and frozen snapshot copies")
LSM_TB = DB_TB + [
    "recovery (close+reopen) is not a step of the LSM model: reopened states are re-validated (invariant, shape, oracle contents) and the durable side is covered by the C02 monitor",
    "find_file_with_upper_bound_range is a binary search; the model takes the first file whose largest key is not below the target (equal under the invariant's level sortedness)",
]
PROPS["C01"] = {
    "level": "proof", "title": "Reads return the latest committed write, wherever the data lives",
    "lean_modules": ["Rain.Props.Lsm", "Rain.Props.Lru", "Rain.Props.BinSearch"], "components": ["lsm", "lru", "disk", "binsearch"], "sig_prefixes": ["c01:", "c07:", "c10:", "c09:", "lru:", "disk:"],
    "technique": "Lean 4 refinement proof (DB::get = newest entry at or below the bound over memtable / immutable memtable / level-0 files / deeper levels; every transition preserves invariant and views; C01_reads_latest for every action list) + trace validation of the real worker's transitions against the proved relation + BTreeMap oracle + LRU cache model (table cache, block cache): Lean 4 proofs that for every operation sequence a hit is the last value inserted for that key, never another key's or an older one (cache_contents_sound, cache_answers_sound), size <= capacity, recently used keys stay; the real LRUCache is run against the model on generated sequences and hammered from several threads + the same oracles on the crate's real disk-backed filesystem (TmpFileSystem in a scratch directory): generated histories with clean close + reopen and a log appended to in two sessions + the binary searches of the code as loops (Rain/BinSearch: find_file_with_upper_bound_range, BlockIter::seek) proved equal to the linear specifications the other models use on every sorted input, in range on any input, logarithmic; the real functions run against the loop model on synthetic levels and real blocks (component binsearch)",
    "level_text": "Machine-checked proof over the LSM model (read path exactly as Version::get searches, all transitions guarded only by validity predicates, no size thresholds, hence every DbOptions): for every history a get at the latest sequence number returns the most recent write. " + LSM_TIE + ".",
    "design_ref": "5 (C01)", "trusted_base": LSM_TB,
    "assumptions": ["single client (concurrency is C05/C06)", "Table::get meets its specification lookupSorted (proved for the table model in C13, filters never cut a lookup short: C14)"],
}
PROPS["C07"] = {
    "level": "proof", "title": "Compaction and flushing are invisible to readers",
    "lean_modules": ["Rain.Props.Lsm", "Rain.Props.Pick", "Rain.Props.Score", "Rain.Props.Seek"], "components": ["lsm", "pick", "score"], "sig_prefixes": ["c07:", "c10:", "c09:"],
    "technique": "Lean 4 proof that rotation, flush (to any admissible level), table compaction (any admissible inputs, any cut of the output, drop rule with any smallest snapshot, tombstone dropping at the base level) and trivial move preserve every view at or above the smallest snapshot + validity predicates evaluated on every transition of the real worker + full dumps before/after every compaction + input selection: Lean 4 model of finalize_compaction_inputs (SetupOtherInputs: boundary files, level-0 overlap closure with its restart loop, expansion under the 25 x max_file_size limit) and proof that for every state satisfying the invariant and every seed the real callers can pass, the selected files satisfy the input clauses of validCompaction (C07_selected_inputs_are_valid); the real selection is run against the model on synthetic versions and on the database's own versions; the same for what pick_compaction itself selects for a size-triggered compaction (C07_picked_size_compaction_inputs_are_valid) + seek charging (Version::get / record_read_sample / update_stats / FileMetadata::set_file_size, the trigger of seek compactions) as a Lean model (Rain/Seek) with theorems (the charged file is the first of at least two consulted, lies in the level recorded with it, never in the last level; a recorded file_to_compact is never overwritten and stays well placed under any reads; a new file's budget is positive) tied to the code: every get that reaches the tables and every read sample of every lsm history is recorded by a hook (key, charged (level, file), files of the version searched) and compared with the model's charge; allowed_seeks of every file in every state dump is compared with initialAllowed/updateStats over the recorded charges; the recorded file_to_compact with updateStats over the reads on that version",
    "level_text": "Machine-checked proof (rearrange_view, C07_invisible) over the LSM model for every state satisfying the invariant and every valid transition. " + LSM_TIE + "; full contents (scan + gets at the latest state and at every live snapshot) are dumped before and after every compact_range and after background quiescence.",
    "design_ref": "5 (C07)", "trusted_base": LSM_TB,
    "assumptions": ["a transition outside the validity predicates is reported as a violation even if no wrong read was observed (the proof no longer covers it)"],
}
PROPS["C10"] = {
    "level": "proof", "title": "The reported LSM shape is always well formed",
    "lean_modules": ["Rain.Props.Lsm", "Rain.Props.Builder"], "components": ["lsm", "builder"], "sig_prefixes": ["c10:", "c09:"],
    "technique": "Lean 4 invariant proof (step_inv, C10_wellformed_reachable: ordered disjoint levels, bounds = first/last entry, distinct file numbers, for every reachable state) + executable invariant evaluated on dumped states + structural cross-check of SSTables/NumFilesAtLevel against the table files after every quiescence and reopen + version builder: Lean 4 model of VersionBuilder (accumulate_changes / apply_changes, overlap assertion) with proofs that replaying a whole manifest with one builder equals installing the edits one at a time (under the explicit freshness condition on file numbers, with kernel-checked counterexamples without it), that flush / trivial-move / compaction edits reproduce the LSM model's transitions and never trip the overlap assertion, and that the result agrees with the durability model's versionOf; the real builder is run against the model on synthetic versions and edit lists",
    "level_text": "Machine-checked proof that every valid transition preserves the invariant whose content is exactly the property's statement. " + LSM_TIE + "; after every quiescent step and every reopen the dump is cross-checked against a full scan of each table file and the descriptors.",
    "design_ref": "5 (C10)", "trusted_base": LSM_TB,
    "assumptions": ["the structured dump (hook) is used instead of the lossy SSTables debug string for non-UTF-8 keys; NumFilesAtLevel is compared with it"],
}
PROPS["C03"] = {
    "level": "proof", "title": "A snapshot or iterator sees exactly the state at its creation, forever",
    "lean_modules": ["Rain.Props.Lsm", "Rain.Props.C04", "Rain.Props.Proto"], "components": ["lsm", "c06"], "sig_prefixes": ["c03:", "c07:", "c09:", "c06:"],
    "technique": "Lean 4 proofs: C03_snapshot_stable (a get at a snapshot is unchanged by any later writes, rotations, flushes, trivial moves and compactions that respect the snapshot), C04_visible_is_view (iteration and get agree), C05_cut_stable (a cut keeps seeing the same memtable entries) + frozen-oracle comparison of live snapshots and kept-open iterators across flushes, compactions and file deletion on the real database + directed schedules (component c06): a writer applying a multi-key batch is parked at every stage (before / after the WAL append, between memtable insertions, after the last insertion); a snapshot taken and gets / scans made meanwhile must show the state before the batch, and the same snapshot must still show it after the writer has finished",
    "level_text": "Machine-checked proofs over the LSM, iterator and protocol models for every later action list and every number of simultaneously live snapshots. " + LSM_TIE + "; histories take snapshots and open iterators at random points and keep them across later writes, flushes, automatic/manual/seek-triggered compactions and obsolete-file deletion; every live snapshot is re-read (gets + scans) against its frozen oracle copy, kept iterators are scanned completely when closed.",
    "design_ref": "5 (C03)", "trusted_base": LSM_TB,
    "assumptions": ["the smallest-snapshot value a compaction uses is at most every live snapshot (checked on every recorded compaction: smallest_snapshot is part of the event and of validCompaction)", "version pinning (files of a pinned version are not deleted) is checked by the C11 directory checks"],
}
PROPS["C11"] = {
    "level": "proof", "title": "Exactly the needed files are on disk: nothing live deleted, nothing dead kept",
    "lean_modules": ["Rain.Props.C11", "Rain.Props.Durable"], "components": ["lsm", "c02"], "sig_prefixes": ["c11:", "c09:"],
    "technique": "Lean 4 proofs over the retention model and the durability monitor (C11_monitored_removal_keeps_recovery: a removal the monitor accepts never changes what recovery reads) — every removal in the recorded filesystem operation streams of real histories is evaluated by the monitor — plus: Lean 4 proofs over the retention model (a deletion pass keeps every file of every linked version, of running outputs and every WAL/manifest recovery needs; every released reference unlinks its version; in a quiescent reader-free state a pass leaves exactly the current version's tables; kernel-checked witness of the repaired leak) + directory listing vs state dump and vs the model's deletion pass after every quiescence/reopen, with readers and iterators held across compactions",
    "level_text": "Machine-checked proofs over the model of the version list with reference counts, tables_in_use and remove_obsolete_files for every sequence of acquisitions, releases, installations, outputs and deletion passes. Tied to the code on every run: after every quiescent point and reopen of generated histories (snapshots and iterators held across flushes, compactions and deletion passes) the directory is compared with the dumped state (versions, reference counts, tables in use, WAL / manifest numbers); with no reader alive a deletion pass is forced and the directory must equal the model's clean() of the dumped state; live tables must never be missing. Crash leftovers (orphan tables, stale manifests, temp files) are covered by the C02 crash enumerator's post-recovery checks.",
    "design_ref": "5 (C11)", "trusted_base": LSM_TB,
    "assumptions": ["the reference count the model calls `refs` is Arc::strong_count minus the version set's own references (list link, current_version field), as dumped by the hook",
                    "deletion passes run only at the end of a flush/compaction (known finding: files whose last reference was a reader's linger until the next pass)"],
}

DUR_TB = DB_TB + [
    "granularity of the durability model: completed filesystem operations as recorded by SimFs, abstracted to complete log records / complete tables / CURRENT; the translation of the recorded stream into model operations (harness/src/crash.rs model_stream) is part of the tie",
    "no fsync / write-back reordering below the FileSystem trait (the code never calls fsync; the property speaks of crashes between filesystem operations)",
    "the monitor's conditions on manifest appends and CURRENT switches are semantic (recovered contents unchanged); that the database's edits satisfy them follows from the LSM theorems and is evaluated on every recorded edit",
]
PROPS["C02"] = {
    "level": "proof", "title": "Acknowledged writes survive a crash at any point; batches are all-or-nothing",
    "lean_modules": ["Rain.Props.Durable", "Rain.Props.C12", "Rain.Props.Codec", "Rain.Props.Builder"], "components": ["c02", "codec", "builder", "disk"], "sig_prefixes": ["c02:", "c09:", "c11:file-needed", "codec:", "disk:"],
    "technique": "Lean 4 proof that every prefix of an operation stream accepted by the durability monitor recovers to exactly the batches whose WAL append is in the prefix (C02_every_prefix_recovers) + the monitor evaluated on every recorded real stream + crash enumeration of EVERY prefix (and of prefixes of the recovery of crash images) on the real code with an acknowledged/in-flight oracle + record codecs: Lean 4 model of the write-batch record and the manifest record with theorems for ALL records (round trip, injectivity, every proper prefix of a batch record is rejected, trailing bytes / torn fields of a manifest record are rejected, field-boundary cuts are exactly the shorter records); the real encoders and decoders are run against the model on generated records and on damaged encodings + version builder: Lean 4 model of VersionBuilder (accumulate_changes / apply_changes, overlap assertion) with proofs that replaying a whole manifest with one builder equals installing the edits one at a time (under the explicit freshness condition on file numbers, with kernel-checked counterexamples without it), that flush / trivial-move / compaction edits reproduce the LSM model's transitions and never trip the overlap assertion, and that the result agrees with the durability model's versionOf; the real builder is run against the model on synthetic versions and edit lists + the same oracles on the crate's real disk-backed filesystem (TmpFileSystem in a scratch directory): generated histories with clean close + reopen and a log appended to in two sessions",
    "level_text": "Machine-checked proof over the durability model (persistent image as complete records, recovery function, ordering monitor) for every monitored stream and every prefix, i.e. every crash point, including crashes during recovery and repeated crash-recover rounds (recovery's operations are part of the stream). Tied to the code on every run: the stream of mutating filesystem operations recorded by SimFs for generated histories (writes, multi-key batches, values spanning several 32 KiB log blocks, flushes, compactions, manifest switches, reopens with both log-reuse settings) is translated to model operations and must be accepted by the monitor; independently every prefix of the stream (an even sample for long streams, always around renames/removals/creations) becomes a crash image that is reopened on the real code, compared with acknowledged +/- in-flight contents, written to, closed, reopened; crashes inside the recovery of crash images are enumerated one level deep.",
    "design_ref": "5 (C02)", "trusted_base": DUR_TB,
    "assumptions": ["a write is acknowledged only after its WAL append completed (apply_changes, proved at protocol level: C05_wal_before_memtable)", "crash = prefix of the operation stream; a torn last write is C16"],
}
PROPS["C16"] = {
    "level": "proof", "title": "A torn final write costs at most the unacknowledged tail",
    "lean_modules": ["Rain.Props.C16"], "components": ["c16"], "sig_prefixes": ["c16:", "c09:"],
    "technique": "Lean 4 theorems over the log model for EVERY cut length (reader returns exactly the complete records; a log with a torn record is reported not-clean and is not re-used; any log that reads cleanly can be appended to and the appended records are read back) + torn-write enumeration on the real code (every write of the recorded stream cut at several lengths, both log-reuse settings, recovery, further writes, clean reopen)",
    "level_text": "Machine-checked proofs (C12_truncation_total, C12_torn_log_is_not_reused, C12_clean_append, re-stated in Props/C16) for every block size, checksum, record list and cut length; at image level a torn write is an absent operation of the durability model. Tied to the code on every run: the byte-level model is compared with LogWriter/LogReader (incl. was_read_cleanly_to_end) on thousands of generated files and cut points (C12 component), and the torn-write enumerator cuts every write to a WAL, manifest, CURRENT temp file and (sampled) table of recorded histories at 1 byte, half and all-but-one (thorough: more lengths), reopens with reuse_log_files true and false, checks acknowledged/in-flight contents, writes more, closes, reopens and checks again.",
    "design_ref": "5 (C16)", "trusted_base": DUR_TB,
    "assumptions": ["a torn write is a byte prefix of the write (no garbage beyond the prefix)"],
}
PROPS["C08"] = {
    "level": "proof", "title": "I/O failures are reported, never swallowed; nothing acknowledged is lost",
    "lean_modules": ["Rain.Props.Durable", "Rain.Props.Proto"], "components": ["c08", "disk"], "sig_prefixes": ["c08:", "c09:", "c11:file-needed", "disk:"],
    "technique": "Lean 4: a failed filesystem call is an absent operation of the durability model, so the image stays safe for the acknowledged batches (step_safe / C16_incomplete_operation_changes_nothing), write-ahead order at protocol level (C05_wal_before_memtable) + exhaustive single-fault enumeration on the real code (every call position, transient and sticky) with a possible-values oracle, and the stream of completed operations under faults checked by the durability monitor",
    "level_text": "The proof part is partial by nature: it shows that the persistent image cannot be harmed by operations that fail (they are absent from the monitored stream) and that the ordering discipline keeps every acknowledged batch recoverable; whether each API call REPORTS the failure is decided on the real code by fault enumeration: for generated histories every position of the filesystem call stream (create, write/append, rename, remove, open-for-read, size, list, lock) is armed in turn, once and persistently; every API result is recorded (Ok writes must be visible to every later successful read, Err writes may or may not be applied, failed batches all-or-nothing), then the fault is removed, the database reopened and compared; the completed-operation streams of fault runs are fed to the durability monitor. Two findings (read errors swallowed by table iterators) are recorded as known findings.",
    "design_ref": "5 (C08)", "trusted_base": DUR_TB,
    "assumptions": ["single injected failure (transient or sticky from a position on)", "the interleaving of foreground and background filesystem calls is made reproducible by waiting for background quiescence after every operation; replay also tries neighbouring call positions"],
}
PROPS["C15"] = {
    "level": "proof", "title": "Corrupted files are detected, never served as data",
    "lean_modules": ["Rain.Props.C15", "Rain.Props.Codec", "Rain.Props.LogFlags"], "components": ["c15", "codec", "c12"], "sig_prefixes": ["c15:", "codec:", "c12:"],
    "technique": "Lean 4 theorems for the checksum-protected spans (every single-byte change of a table block or of a log fragment's payload/checksum is rejected, under the explicit hypothesis that the checksum detects one-byte changes; kernel-checked witnesses that fragment length and type bytes are unprotected) + exhaustive single-byte corruption (flip, zero, random) and truncation of every persistent file of small database images on the real code + record codecs: Lean 4 model of the write-batch record and the manifest record with theorems for ALL records (round trip, injectivity, every proper prefix of a batch record is rejected, trailing bytes / torn fields of a manifest record are rejected, field-boundary cuts are exactly the shorter records); the real encoders and decoders are run against the model on generated records and on damaged encodings + the log reader's corruption flag (what manifest recovery consults): Lean 4 model readAllF with proofs that it never fires on a written log, cut or not (C15_log_no_false_positive, C15_log_torn_write_not_corruption), fires on Last->First and Full->Last/Middle type damage, and kernel-checked witnesses of the transitions it cannot see (Full->First and Last->Middle at the end of the file, a raised length byte); flags and records of the real reader are compared with the model on every generated log and on damaged variants of it",
    "level_text": "Proof for the CRC-protected spans only (under the named hypothesis DetectsOneByte, never an axiom); the format has no integrity evidence for log-fragment length/type bytes, footer handles and CURRENT, so those are decided by exhaustive per-offset exploration of generated images (a test, labelled as such): every offset of every table, WAL, manifest and CURRENT file (an even sample for larger files) x {bit flip, zero, random byte} plus table truncations; each mutated image is opened, scanned and probed with gets; allowed outcomes are an error, the exact expected contents, or (WAL only) the replay with one contiguous run of damaged batches skipped; panics, hangs and aborts are failures.",
    "design_ref": "5 (C15)", "trusted_base": DB_TB + ["CRC-32C detects every single-byte change (validated on every mutation of the exploration, not proved)"],
    "assumptions": ["single-byte corruptions and truncations only", "three format-level / iterator-API findings are recorded as known findings and reported by KNOWN-FINDING lines"],
}

PROPS["C05"] = {
    "level": "proof", "title": "Concurrent operations are linearizable: no lost, stale or phantom reads",
    "lean_modules": ["Rain.Props.Proto", "Rain.Props.Lsm", "Rain.Props.Group"], "components": ["c05"], "sig_prefixes": ["c05:", "c09:"],
    "technique": "Lean 4 invariant proofs over the group-commit/read-cut protocol model for every interleaving and grouping (every acknowledged batch applied exactly once in sequence order, WAL before memtable, a reader's cut is stable under all later steps) and over the LSM model (flush, compaction, trivial move preserve every view) + directed schedules that park a real reader/writer/worker at every unlocked window while other threads run to completion + writer-trace tie (proto.write) + multi-thread stress with a per-key register history checker + the grouping rule itself (build_group_commit_batch: size caps regenerated from the sources, sync rule, batch-less forced-compaction writers) as a Lean model with theorems (the group is a non-empty prefix, members have batches, popped writers beyond the members are at most one trailing batch-less writer, size bound, maximality, independence of later arrivals) compared with every group the real code forms while several writers are queued (the queue the leader saw is recorded by a hook)",
    "level_text": "Machine-checked proofs: (1) protocol model of apply_changes / build_group_commit_batch / the published sequence number / read cuts, one step per critical section and one per unlocked shared access: C05_exactly_once_in_order, C05_wal_before_memtable, C05_memtable_contents, C05_cut_stable for every reachable state, i.e. every interleaving and every group-commit grouping; (2) LSM model: a cut (memtable, immutable memtable, version, sequence) keeps answering the same whatever flushes/compactions/moves/deletions complete afterwards (C01/C03 theorems, view preservation). Linearizability follows on the model: the linearization point of a write is the publication of its sequence number, of a read its cut. Tied to the code on every run by forcing the model's interleavings on the real database through the scheduling hooks: a get parked after releasing the mutex (and again before reading tables) while rotation, flush, version installation, compaction and file deletion run to completion; a writer parked before/after the WAL append and between memtable insertions while readers and other writers run; queued writers of sizes that do and do not fit the group cap (each acknowledged put must be in the WAL and the memtable exactly once, hook trace compared with the model); the worker parked while building a table, writing the manifest, in the compaction loop and before deleting files. A stress phase (many threads, tiny memtable) checks per-key register histories with invocation/response times. Not exhibited: interleavings finer than hook-to-hook segments, weak-memory effects.",
    "design_ref": "5 (C05)",
    "trusted_base": DB_TB + ["scheduling hooks sit at the boundaries of the unlocked windows; interleavings finer than hook-to-hook segments, data races inside the skip list and weak-memory effects of ArcSwap/atomics are not exhibited", "the register checker is sound (never alarms on a linearizable history) and complete for single-writer-per-key histories; keys written by several threads are checked for real-time order and membership only"],
    "assumptions": ["parking_lot mutex gives mutual exclusion; ArcSwap load/store are atomic and sequentially consistent", "the concurrent skip list is linearizable per insertion (crate-level assumption)"],
}
PROPS["C06"] = {
    "level": "proof", "title": "No reader ever observes part of a batch",
    "lean_modules": ["Rain.Props.Proto"], "components": ["c06"], "sig_prefixes": ["c06:", "c09:"],
    "technique": "Lean 4 invariant proof over the group-commit protocol model (a published sequence number is never inside a batch's range; acknowledged batches wholly visible, in-flight batches wholly invisible, for every interleaving and group size) + directed schedules that park the real writer at every stage of applying a batch while readers get, scan and take snapshots",
    "level_text": "Machine-checked proof over the protocol model of apply_changes / build_group_commit_batch / apply_batch_to_memtable and the read cuts (one step per critical section, one step per unlocked shared access) for every reachable state; the model is tied to the code on every run by forcing its interleavings on the real database through scheduling hooks (writer parked before the WAL append, after it, after each single memtable insertion, after all of them; batches of 2-200 operations, some larger than the memtable) and comparing the hook-point trace, the published sequence number and the number of inserted entries with the model's state; the all-or-nothing oracle is evaluated on real gets, scans and snapshots.",
    "design_ref": "5 (C06)",
    "trusted_base": DB_TB + ["scheduling hooks sit at the boundaries of the unlocked windows; interleavings finer than hook-to-hook segments, data races inside the skip list and weak-memory effects of ArcSwap/atomics are not exhibited"],
    "assumptions": ["parking_lot mutex gives mutual exclusion; readers take their sequence number under the database mutex (as coded)", "memtable rotation never happens between two insertions of one group (it is done in make_room_for_write before the group is built)"],
}
PROPS["C09"] = {
    "level": "proof", "title": "Every operation terminates; the background worker never dies",
    "lean_modules": ["Rain.Props.Sched", "Rain.Props.Proto", "Rain.Props.Lsm", "Rain.Props.C14", "Rain.Props.Score", "Rain.Props.Potential", "Rain.Props.Seek", "Rain.Props.BinSearch"], "components": ["c09", "score"], "sig_prefixes": ["c09:"],
    "technique": "Lean 4 proofs over a model of the background-work protocol (scheduled flag, task channel, condition variable, shutdown): invariant for every reachable state (work is never left unscheduled, a sleeper always has a waker, the flag matches queued/running tasks), every worker task decreases a potential or sets the sticky error, every worker-only run is bounded by 2*potential and ends with every wait condition false (C09_inv, C09_sleeper_has_waker, C09_blocked_writer_has_worker, C09_worker_task_progress, C09_worker_runs_are_bounded, C09_worker_idle_means_nobody_waits, C09_waiters_are_released[_without_failure]); writer-queue progress (C09_writer_progress); which compaction runs: model of Version::finalize + VersionSet::pick_compaction with the loop bound, trigger and limits regenerated from the sources, proved never to ask for a compaction of the last level or of an empty level (the two panics of pick_compaction; C09_code_pick_never_panics) and always to pick one when the score asks for it (C09_size_compaction_is_picked_of_inv), compared with the real functions on synthetic versions; table work terminates: an entry-weighted depth potential strictly decreases with every valid table compaction and trivial move and only writes raise it (C09_compaction_decreases_potential, C09_table_work_is_bounded: #table operations <= 6 x #entries written); totality of every model function; the model's invariant evaluated on every scheduling step and on sampled states of the real database; watchdog scenarios and a panic hook on the real code",
    "level_text": "Proved for every reachable state and every interleaving of the protocol model: the flag/channel/condvar protocol between clients (memtable rotation, manual compaction, seek-triggered work, waits in make_room_for_write / compact_range / Drop) and the single worker cannot lose a wake-up or deadlock, and the worker alone releases every waiter within 2*potential steps (potential = pending flush + manual rounds + compaction work; for table compactions such a potential is exhibited and proved over the LSM model: every transition the real worker performs is validated against that model's transition relation, and Rain.Props.Potential proves that each valid table compaction or trivial move lowers the entry-weighted depth sum(6 - level) by at least the number of entries taken from the upper level); the choice of the compaction (level scores, seed file after the compaction pointer) is modelled with the code's own constants and proved never to hit pick_compaction's two panics and to return a non-empty valid compaction whenever the score asks for one; the writer hand-off cannot deadlock; every modelled read path is a total function (kernel-checked termination, no partial/unsafe); the LSM invariant excludes the layouts on which the version builder panics. Tied to the code on every run: the real database records every 'schedule' / worker 'start' / 'finish' step inside the critical section that performs it, and a sampler thread dumps the state whenever the mutex is free; the model's invariant (through the driver, with L0 trigger/stop regenerated from the sources) is evaluated on every recorded step (~20 000 per quick run) and every distinct sampled observation (~80 000 samples). What no model here exhibits - lock re-entrancy, thread joins, panics, a wait that re-checks a stale condition - is decided by running the real code: every harness-issued call runs under a watchdog with a process-wide panic hook; the C09 component drives every descriptor kind, sustained multi-threaded writes through the memtable-full / L0-slowdown / L0-stop waits with concurrent manual compactions, close immediately afterwards, close with live iterators, degenerate option values, snapshots/iterators from several threads. Hangs and worker deaths found this way (D4, D12, D13) are repaired and kept as corpus.",
    "design_ref": "5 (C09), 0.2",
    "trusted_base": DB_TB + ["bounded time on the real code = the watchdog deadline (seconds for calls that take milliseconds)", "the scheduling events are recorded by hook code inside the critical sections (should_schedule_compaction, compaction_task entry/exit); waiters are not observable, so the 'sleeper has a waker' conjunct is checked on the model only", "the abstract `work` counter of the scheduling model is connected to the LSM model's potential by argument, not by a refinement proof (the scheduling model assumes each table compaction lowers `work`; Rain.Props.Potential proves a concrete potential that every valid table compaction lowers); seek-triggered selection (file and level recorded by read sampling) is not part of the scoring model", "scores are compared as exact rationals in the model and as f64 in the code: they agree for byte counts below 2^53 (the generator avoids near-ties that differ by less than one ulp)"],
    "assumptions": ["the filesystem makes progress (SimFs never blocks)", "parking_lot Condvar::wait releases the mutex atomically; notify_all wakes every waiter"],
}
PROPS["C17"] = {
    "level": "proof", "title": "One owner at a time: a database cannot be opened or destroyed while open",
    "lean_modules": ["Rain.Props.Proto"], "components": ["c17"], "sig_prefixes": ["c17:"],
    "technique": "Lean 4 proof over the lock-file protocol model (single owner, open/destroy fail while owned, exactly one winner among racing opens in any order) + racing open/close/destroy threads on the disk-backed TmpFileSystem compared with the model's verdicts",
    "level_text": "Machine-checked proof over the lock protocol of DB::open / Drop / destroy_database (exclusive advisory lock taken before recovery touches anything, released after background work stopped) for every action sequence and every order in which racing attempts are served; tied to the code on every run by barrier-released threads racing open and destroy_database on a real disk-backed filesystem (OS flock), whose outcomes are compared with the model's run of the same action list; the owner is read and written before and after every failed attempt.",
    "design_ref": "5 (C17)",
    "trusted_base": COMMON_TB + ["OS flock semantics as used by fs2 (try_lock_exclusive fails iff another open file description holds the lock, also within one process)"],
    "assumptions": ["disk-backed filesystem (InMemoryFileSystem's no-op lock is outside the property)", "the model has one step per lock operation; the failing open's earlier side effects (create_dir_all, starting and stopping its own worker thread, truncating the empty LOCK file) are exercised by the harness, not modelled"],
}

# properties whose check is registered in MANIFEST.json
CLAIMED = ["C01", "C02", "C03", "C04", "C05", "C06", "C07", "C08", "C09", "C10", "C11", "C12", "C13", "C14", "C15", "C16", "C17"]
