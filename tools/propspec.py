"""Per-property configuration of ./check: Lean modules holding the property theorems, harness
components that tie the model to the code, trusted base and assumptions written into the evidence."""

COMMON_TB = [
    "Lean 4.33.0 kernel (lake build); axioms allowed: propext, Classical.choice, Quot.sound (audited per theorem with #print axioms)",
    "the statements in lean/Rain/Props/*.lean and the specs they mention (read them: a wrong statement is not caught by the kernel)",
    "the hand-written Lean model of the named Rust code; tied to /repo's working tree on every run by the Rust harness (byte/behaviour comparison through the compiled driver raindrv) - sampled, so a divergence on inputs never generated is not seen",
    "Lean compiler (for the raindrv executable), the Rust harness, SimFs, generators, tools/extract_constants.py",
    "hook code in /repo under cargo feature `verif` (add-only wrappers)",
]

PROPS = {
    "C12": {
        "level": "proof",
        "lean_modules": ["Rain.Props.C12"],
        "components": ["c12"],
        "trusted_base": COMMON_TB + [
            "crc crate's CRC-32C (a parameter of the theorems with the only hypothesis crc d < 2^32; concrete Lean CRC-32C used only for byte-exact comparison)",
        ],
        "assumptions": [
            "the filesystem returns short reads only at end of file and appends are not reordered (SimFs semantics)",
            "LogReader is used with initial offset 0 (the only value the database passes)",
            "current_cursor_position of LogReader is not modelled (argued redundant in Rain/Log.lean)",
        ],
    },
}
