#!/bin/bash
# Build the framework from files on disk only (offline): Lean model + theorems + driver, Rust harness.
set -e
cd "$(dirname "$0")/.."
export CARGO_NET_OFFLINE=true
python3 tools/extract_constants.py
(cd lean && lake build raindrv Rain)
cp /repo/Cargo.lock harness/Cargo.lock 2>/dev/null || true
(cd harness && cargo build --release --offline)
