#!/bin/bash
# tools/mutant.sh <seed-id> <worktree> <demo-file-in-mutant-dir> <tier> <prop>...
# 1. confirms a seeded change in its scratch worktree (demo passes without, fails with the patch)
# 2. stores it under /verif/seeded/<seed-id>/
# 3. applies it to /repo, runs ./check for the listed properties, undoes it, records the verdicts
set -u
id=$1; wt=$2; demo=$3; tier=$4; shift 4
out=/verif/seeded/$id; mkdir -p $out
cp $wt/mutant/patch.diff $out/patch.diff
cp $wt/mutant/$demo $out/$demo
[ -f $wt/mutant/meta.json ] && cp $wt/mutant/meta.json $out/agent_meta.json
[ -f $wt/mutant/RUN.txt ] && cp $wt/mutant/RUN.txt $out/RUN.txt
log=$out/confirm.log; [ "${SKIP_CONFIRM:-0}" = 1 ] || : > $log
if [ "${SKIP_CONFIRM:-0}" != 1 ]; then
  cd $wt && git apply -R mutant/patch.diff 2>/dev/null; git -C $wt checkout -- . 
  t=tests/seed_${id//-/_}_demo.rs; cp mutant/$demo $t
  echo "== demo WITHOUT patch" >> $log
  CARGO_NET_OFFLINE=true cargo test --offline ${FEATURES:-} --test seed_${id//-/_}_demo >> $log 2>&1; a=$?
  git apply mutant/patch.diff
  echo "== demo WITH patch" >> $log
  CARGO_NET_OFFLINE=true cargo test --offline ${FEATURES:-} --test seed_${id//-/_}_demo >> $log 2>&1; b=$?
  git apply -R mutant/patch.diff; rm -f $t
  echo "confirm: demo rc without=$a with=$b" | tee -a $log
fi
cd /verif
git -C /repo diff --quiet || { echo "/repo dirty, abort"; exit 2; }
git -C /repo apply $out/patch.diff || { echo "patch does not apply to /repo"; exit 2; }
: > $out/checks.log
for p in "$@"; do
  ./check $p --tier $tier --seed 1 > $out/check_$p.out 2>&1; rc=$?
  echo "check $p tier=$tier rc=$rc $(grep -c '^VIOLATION' $out/check_$p.out) violation line(s): $(grep '^VIOLATION' $out/check_$p.out | head -2 | cut -c1-200)" | tee -a $out/checks.log
done
git -C /repo checkout -- .
git -C /verif checkout -- evidence 2>/dev/null
