//! C13 — table files give back exactly what was put in (and C14 at table level).
//!
//! (1) separators / successors: implementation vs model + the contract `a <= sep < b`, `a <= succ`;
//! (2) blocks: byte-exact encode, decode round trip;
//! (3) tables built by the real `TableBuilder` on SimFs for generated sorted entry sets and block
//!     sizes 16 B … larger than the table: structural dump (partition, index keys) vs model,
//!     point lookups at every (key, bound) around every entry vs the specification
//!     (first entry >= target …) and vs the model on the observed layout, cursor programs
//!     (seek / first / last / next / prev with reversals) vs a flat sorted-list cursor and vs the model;
//! (4) the table's filter block: bytes vs the model fed with the observed block offsets, and no
//!     stored key is ever rejected.

use std::sync::Arc;

use raindb::verif::{Entry, TableAnswer};
use raindb::DbOptions;

use crate::drv::{hex, Drv};
use crate::prng::Prng;
use crate::report::Report;
use crate::simfs::SimFs;

#[derive(Clone, Debug)]
pub struct Case {
    pub block: usize,
    pub bloom: usize,
    pub entries: Vec<Entry>,
    pub pseed: u64,
}

fn ent(e: &Entry) -> String {
    format!("{}/{}/{}/{}", hex(&e.0), e.1, if e.2 == 1 { "p" } else { "d" }, val_tok(&e.3))
}
fn ent_full(e: &Entry) -> String {
    format!("{}/{}/{}/{}", hex(&e.0), e.1, if e.2 == 1 { "p" } else { "d" }, hex(&e.3))
}
fn val_tok(v: &[u8]) -> String {
    if v.len() > 24 && v.iter().all(|b| *b == v[0]) {
        format!("r{}x{:02x}", v.len(), v[0])
    } else {
        hex(v)
    }
}
fn val_untok(s: &str) -> Option<Vec<u8>> {
    if let Some(rest) = s.strip_prefix('r') {
        let (n, b) = rest.split_once('x')?;
        Some(vec![u8::from_str_radix(b, 16).ok()?; n.parse().ok()?])
    } else {
        crate::drv::unhex(s)
    }
}
fn ents(es: &[Entry]) -> String {
    if es.is_empty() {
        "_".into()
    } else {
        es.iter().map(ent_full).collect::<Vec<_>>().join(",")
    }
}

impl Case {
    pub fn to_line(&self) -> String {
        format!(
            "c13 block={} bloom={} pseed={} entries={}",
            self.block,
            self.bloom,
            self.pseed,
            if self.entries.is_empty() { "_".to_string() } else { self.entries.iter().map(ent).collect::<Vec<_>>().join(",") }
        )
    }
    pub fn from_line(line: &str) -> Option<Case> {
        let mut c = Case { block: 4096, bloom: 10, entries: vec![], pseed: 1 };
        for tok in line.split_whitespace().skip(1) {
            let (k, v) = tok.split_once('=')?;
            match k {
                "block" => c.block = v.parse().ok()?,
                "bloom" => c.bloom = v.parse().ok()?,
                "pseed" => c.pseed = v.parse().ok()?,
                "entries" => {
                    if v != "_" {
                        for e in v.split(',') {
                            let p: Vec<&str> = e.split('/').collect();
                            if p.len() != 4 {
                                return None;
                            }
                            c.entries.push((crate::drv::unhex(p[0])?, p[1].parse().ok()?, if p[2] == "p" { 1 } else { 0 }, val_untok(p[3])?));
                        }
                    }
                }
                _ => {}
            }
        }
        Some(c)
    }
}

fn ik_lt(a: (&[u8], u64), b: (&[u8], u64)) -> bool {
    a.0 < b.0 || (a.0 == b.0 && a.1 > b.1)
}

/// specification of a point lookup over the sorted entries
fn spec_lookup(es: &[Entry], k: &[u8], snap: u64) -> TableAnswer {
    for e in es {
        if !ik_lt((&e.0, e.1), (k, snap)) {
            if e.0 == k {
                return if e.2 == 1 { TableAnswer::Found(e.3.clone()) } else { TableAnswer::Deleted };
            }
            return TableAnswer::NotInFile;
        }
    }
    TableAnswer::NotInFile
}

fn show_answer(a: &TableAnswer) -> String {
    match a {
        TableAnswer::Found(v) => format!("found:{}", hex(v)),
        TableAnswer::Deleted => "deleted".into(),
        TableAnswer::NotInFile => "absent".into(),
        TableAnswer::Error(e) => format!("error:{e}"),
    }
}

#[derive(Clone, Debug)]
enum COp {
    Seek(Vec<u8>, u64),
    First,
    Last,
    Next,
    Prev,
}
impl COp {
    fn tok(&self) -> String {
        match self {
            COp::Seek(k, s) => format!("s:{}:{}", hex(k), s),
            COp::First => "f".into(),
            COp::Last => "l".into(),
            COp::Next => "n".into(),
            COp::Prev => "p".into(),
        }
    }
}

fn flat_step(es: &[Entry], pos: usize, op: &COp) -> usize {
    let n = es.len();
    match op {
        COp::Seek(k, s) => es.iter().position(|e| !ik_lt((&e.0, e.1), (k, *s))).unwrap_or(n),
        COp::First => 0,
        COp::Last => n.saturating_sub(1),
        COp::Next => {
            if pos >= n {
                n
            } else {
                pos + 1
            }
        }
        COp::Prev => {
            if pos == 0 || pos >= n {
                n
            } else {
                pos - 1
            }
        }
    }
}

pub fn run_case(c: &Case, drv: &mut Drv, rep: &mut Report) {
    let line = c.to_line();
    rep.case(&line, c.entries.len() >= 2);
    rep.count(&format!("c13.block-size.{}", if c.block <= 32 { "<=32" } else if c.block <= 256 { "33-256" } else if c.block <= 4096 { "257-4096" } else { ">4096" }));
    let fs = SimFs::new();
    use raindb::fs::FileSystem;
    fs.create_dir_all(std::path::Path::new("/t/data")).unwrap();
    let opts = DbOptions {
        db_path: "/t".into(),
        max_block_size: c.block,
        filesystem_provider: fs.dyn_fs(),
        filter_policy: Arc::new(raindb::BloomFilterPolicy::new(c.bloom)),
        ..DbOptions::default()
    };
    let es = &c.entries;
    if let Err(e) = raindb::verif::table_build(&opts, 7, es) {
        rep.fail("oracle", "c13:build-failed", &format!("building a table from sorted entries failed: {e}"), &line);
        return;
    }
    let table = match raindb::verif::table_open(&opts, 7) {
        Ok(t) => t,
        Err(e) => {
            rep.fail("oracle", "c13:open-failed", &format!("a freshly built table cannot be opened: {e}"), &line);
            return;
        }
    };
    let dump = match table.dump() {
        Ok(d) => d,
        Err(e) => {
            rep.fail("oracle", "c13:dump-failed", &format!("a freshly built table cannot be read back: {e}"), &line);
            return;
        }
    };
    // oracle: the blocks concatenate to the input
    let flat: Vec<Entry> = dump.blocks.iter().flat_map(|b| b.entries.clone()).collect();
    if &flat != es {
        rep.fail("oracle", "c13:contents-differ", &format!("the table holds {} entries, {} were added (or they differ)", flat.len(), es.len()), &line);
        return;
    }
    if dump.blocks.iter().any(|b| b.entries.is_empty()) {
        rep.fail("oracle", "c13:empty-block", "the table has an empty data block", &line);
    }
    rep.count(&format!("c13.blocks.{}", match dump.blocks.len() { 0 => "0", 1 => "1", 2..=5 => "2-5", 6..=30 => "6-30", _ => ">30" }));
    let counts: String = if dump.blocks.is_empty() { "_".into() } else { dump.blocks.iter().map(|b| b.entries.len().to_string()).collect::<Vec<_>>().join(",") };
    let es_tok = ents(es);
    // index contract: last key of block i <= index key i < first key of block i+1
    for (i, b) in dump.blocks.iter().enumerate() {
        let last = b.entries.last().unwrap();
        let ik = (&b.index_key.0[..], b.index_key.1);
        if ik_lt(ik, (&last.0, last.1)) {
            rep.fail("contract", "c13:index-key-below-block", &format!("index key of block {i} is below the block's last key"), &line);
        }
        if let Some(nb) = dump.blocks.get(i + 1) {
            let first = &nb.entries[0];
            if !ik_lt(ik, (&first.0, first.1)) {
                rep.fail("contract", "c13:index-key-not-below-next-block", &format!("index key of block {i} is not below the first key of block {}", i + 1), &line);
            }
        }
    }
    // model: partition and index keys
    let ans = drv.ask(&format!("table.part {} {}", c.block, es_tok));
    if ans != "no-model" {
        let want_idx: String = if dump.blocks.is_empty() { "_".into() } else { dump.blocks.iter().map(|b| format!("{}/{}", hex(&b.index_key.0), b.index_key.1)).collect::<Vec<_>>().join(",") };
        let got = format!("{counts} {want_idx}");
        if ans != got {
            // partition differs? then compare the index keys on the implementation's partition
            let ans2 = drv.ask(&format!("table.index {} {}", counts, es_tok));
            if ans2 != want_idx {
                rep.drift.push(format!("index keys differ from the model on the implementation's own partition (impl {want_idx}, model {ans2}) :: {line}"));
                rep.count("model_drift");
            } else {
                rep.drift.push(format!("block partition differs from the model (impl {counts}, model {}) :: {line}", ans.split(' ').next().unwrap_or("")));
                rep.count("model_drift");
            }
        }
    }
    // point lookups around every entry
    let mut rng = Prng::new(c.pseed);
    let mut probes: Vec<(Vec<u8>, u64)> = vec![];
    for e in es.iter() {
        for s in [e.1, e.1.saturating_sub(1), e.1 + 1, 0, u64::MAX] {
            probes.push((e.0.clone(), s));
        }
        let mut k2 = e.0.clone();
        k2.push(0);
        probes.push((k2, e.1));
        if !e.0.is_empty() {
            let mut k3 = e.0.clone();
            k3.pop();
            probes.push((k3, e.1));
        }
    }
    for _ in 0..8 {
        probes.push((crate::c14::gen_key(&mut rng), rng.below(40)));
    }
    probes.sort();
    probes.dedup();
    let cap = 400;
    if probes.len() > cap {
        // keep a deterministic sample
        let step = probes.len() / cap + 1;
        probes = probes.into_iter().step_by(step).collect();
    }
    for (k, s) in &probes {
        let got = table.get(k, *s);
        let want = spec_lookup(es, k, *s);
        rep.count(match &want {
            TableAnswer::Found(_) => "c13.lookup.found",
            TableAnswer::Deleted => "c13.lookup.deleted",
            _ => "c13.lookup.absent",
        });
        if got != want {
            let sig = match (&got, &want) {
                (TableAnswer::Deleted, TableAnswer::NotInFile) => "c13:lookup-deleted-instead-of-not-in-file",
                (TableAnswer::NotInFile, _) => "c13:lookup-misses-present-entry",
                (TableAnswer::Error(_), _) => "c13:lookup-error",
                _ => "c13:lookup-wrong-answer",
            };
            rep.fail("oracle", sig, &format!("get({}, {}) = {}, the entries say {}", hex(k), s, show_answer(&got), show_answer(&want)), &line);
            return;
        }
    }
    // the same file read by a session configured with another bits-per-key setting (the options may
    // change between the session that wrote the table and the one reading it)
    {
        let other = ((c.bloom * 7 + 3) % 64) + 1;
        let opts2 = DbOptions { filter_policy: Arc::new(raindb::BloomFilterPolicy::new(other)), ..opts.clone() };
        match raindb::verif::table_open(&opts2, 7) {
            Err(e) => {
                rep.fail("oracle", "c13:open-failed", &format!("the table cannot be opened with bloom bits-per-key {other}: {e}"), &line);
                return;
            }
            Ok(t2) => {
                rep.count("c13.reader-with-other-bloom-setting");
                for (k, s) in &probes {
                    let got = t2.get(k, *s);
                    let want = spec_lookup(es, k, *s);
                    if got != want {
                        rep.fail("oracle", "c13:lookup-differs-with-other-reader-bloom-setting", &format!("table built with {} bloom bits per key, read with {other}: get({}, {}) = {}, the entries say {}", c.bloom, hex(k), s, show_answer(&got), show_answer(&want)), &line);
                        return;
                    }
                }
            }
        }
    }
    // model on the observed layout (sampled: the request carries the whole table)
    for (k, s) in probes.iter().step_by(probes.len() / 12 + 1) {
        let ans = drv.ask(&format!("table.get {} {} {} {}", counts, es_tok, hex(k), s));
        if ans != "no-model" && ans != show_answer(&table.get(k, *s)) {
            rep.drift.push(format!("table.get({}, {s}) differs from the model ({ans}) :: {line}", hex(k)));
            rep.count("model_drift");
        }
    }
    // cursor programs
    if !es.is_empty() {
        let nprog = 3;
        for _ in 0..nprog {
            let len = rng.range(10, 60) as usize;
            let mut prog: Vec<COp> = vec![];
            for _ in 0..len {
                let op = match rng.below(12) {
                    0 => COp::First,
                    1 => COp::Last,
                    2 | 3 => {
                        if rng.chance(2, 3) {
                            let e = rng.pick(es);
                            COp::Seek(e.0.clone(), (e.1 as i64 + rng.range(0, 2) as i64 - 1).max(0) as u64)
                        } else {
                            COp::Seek(crate::c14::gen_key(&mut rng), rng.below(30))
                        }
                    }
                    4 | 5 | 6 | 7 => COp::Next,
                    _ => COp::Prev,
                };
                prog.push(op);
            }
            let mut cur = table.cursor();
            let mut pos = es.len(); // the flat cursor starts invalid
            let mut outs: Vec<String> = vec![];
            let mut valid_before = false;
            for (i, op) in prog.iter().enumerate() {
                // next/prev on an invalid table cursor are no-ops in the implementation
                match op {
                    COp::Seek(k, s) => {
                        if let Err(e) = cur.seek(k, *s) {
                            rep.fail("oracle", "c13:cursor-error", &format!("seek failed: {e}"), &line);
                            return;
                        }
                    }
                    COp::First => {
                        if let Err(e) = cur.seek_to_first() {
                            rep.fail("oracle", "c13:cursor-error", &format!("seek_to_first failed: {e}"), &line);
                            return;
                        }
                    }
                    COp::Last => {
                        if let Err(e) = cur.seek_to_last() {
                            rep.fail("oracle", "c13:cursor-error", &format!("seek_to_last failed: {e}"), &line);
                            return;
                        }
                    }
                    COp::Next => cur.next(),
                    COp::Prev => cur.prev(),
                }
                let _ = valid_before;
                pos = flat_step(es, pos, op);
                valid_before = pos < es.len();
                let got = if cur.is_valid() { cur.current() } else { None };
                let want = es.get(pos).cloned();
                rep.count(if want.is_some() { "c13.cursor.step.valid" } else { "c13.cursor.step.invalid" });
                outs.push(match &got {
                    Some(e) => ent_full(e),
                    None => "-".into(),
                });
                if got != want {
                    rep.fail(
                        "oracle",
                        "c13:cursor-position-wrong",
                        &format!(
                            "after op {i} of program [{}] the table cursor is at {:?}, a sorted list would be at {:?}",
                            prog.iter().map(|o| o.tok()).collect::<Vec<_>>().join(","),
                            got.as_ref().map(|e| (hex(&e.0), e.1)),
                            want.as_ref().map(|e| (hex(&e.0), e.1))
                        ),
                        &line,
                    );
                    return;
                }
            }
            let ans = drv.ask(&format!("table.iter {} {} {}", counts, es_tok, prog.iter().map(|o| o.tok()).collect::<Vec<_>>().join(",")));
            if ans != "no-model" && ans != outs.join(" ") {
                rep.drift.push(format!("cursor program differs from the model :: {line}"));
                rep.count("model_drift");
            }
        }
    }
    // C14 at table level: filter block
    if let Some(fb) = &dump.filter_block {
        let mut shared = 0u64;
        let mut span = 0u64;
        for w in dump.blocks.windows(2) {
            if w[0].offset / 2048 == w[1].offset / 2048 {
                shared += 1;
            }
            if w[1].offset / 2048 > w[0].offset / 2048 + 1 {
                span += 1;
            }
        }
        rep.add("c14.table.block-pairs-sharing-a-filter-range", shared);
        rep.add("c14.table.blocks-spanning-filter-ranges", span);
        let mut req = format!("filter.build {}", c.bloom);
        for b in &dump.blocks {
            req.push_str(&format!(" {}:{}", b.offset, b.entries.iter().map(|e| hex(&e.0)).collect::<Vec<_>>().join(",")));
        }
        // TableBuilder::finalize flushes the last data block and notifies the filter builder with the
        // offset behind it (block contents + 5-byte descriptor): trailing empty filters appear when the
        // last block ends in a later 2 KiB range than it starts
        if let Some(last) = dump.blocks.last() {
            req.push_str(&format!(" {}:", last.offset + last.size + 5));
        }
        let ans = drv.ask(&req);
        if ans != "no-model" && ans != hex(fb) {
            if std::env::var("VERIF_TRACE").is_ok() {
                let real = hex(fb);
                let pos = ans.bytes().zip(real.bytes()).position(|(a, b)| a != b);
                eprintln!("filter drift: offsets {:?} sizes {:?} model-len {} real-len {} first-diff {:?}\nmodel tail {}\nreal  tail {}", dump.blocks.iter().map(|b| b.offset).collect::<Vec<_>>(), dump.blocks.iter().map(|b| b.entries.len()).collect::<Vec<_>>(), ans.len(), real.len(), pos, &ans[ans.len().saturating_sub(120)..], &real[real.len().saturating_sub(120)..]);
            }
            rep.drift.push(format!("table filter block differs from the model fed with the observed block offsets :: {line}"));
            rep.count("model_drift");
        }
        let qs: Vec<(u64, Vec<u8>)> = dump.blocks.iter().flat_map(|b| b.entries.iter().map(move |e| (b.offset, e.0.clone()))).collect();
        match raindb::verif::filter_block_match(c.bloom, fb.clone(), &qs) {
            Ok(ans) => {
                if let Some(i) = ans.iter().position(|a| !*a) {
                    rep.fail("oracle", "c14:table-filter-false-negative", &format!("user key {} stored in the block at offset {} is rejected by the table's filter block", hex(&qs[i].1), qs[i].0), &line);
                }
            }
            Err(e) => rep.fail("oracle", "c14:table-filter-unreadable", &format!("the table's filter block cannot be parsed: {e}"), &line),
        }
    }
}

/// separators, successors, blocks
fn run_small(seed: u64, drv: &mut Drv, rep: &mut Report, n: usize) {
    let mut rng = Prng::new(seed);
    for _ in 0..n {
        let a = crate::c14::gen_key(&mut rng);
        let mut b = if rng.chance(1, 3) {
            let mut x = a.clone();
            if !x.is_empty() && rng.chance(1, 2) {
                let i = rng.below(x.len() as u64) as usize;
                x[i] = x[i].wrapping_add(rng.range(1, 3) as u8);
                x.truncate(i + 1 + rng.below(2) as usize);
            } else {
                x.push(rng.next() as u8);
            }
            x
        } else {
            crate::c14::gen_key(&mut rng)
        };
        let (mut a, sa, sb) = (a, rng.below(20), rng.below(20));
        if a > b {
            std::mem::swap(&mut a, &mut b);
        }
        let line = format!("c13sep a={} sa={} b={} sb={}", hex(&a), sa, hex(&b), sb);
        rep.case(&line, a != b);
        // bytes
        let s = raindb::verif::bytes_separator(&a, &b);
        if a < b && !(a <= s && s < b) {
            rep.fail("contract", "c13:bytes-separator-out-of-range", &format!("sep({}, {}) = {}", hex(&a), hex(&b), hex(&s)), &line);
        }
        let ans = drv.ask(&format!("bytes.sep {} {}", hex(&a), hex(&b)));
        if ans != "no-model" && ans != hex(&s) {
            rep.drift.push(format!("bytes separator differs from the model ({ans}) :: {line}"));
            rep.count("model_drift");
        }
        let su = raindb::verif::bytes_successor(&a);
        if su < a {
            rep.fail("contract", "c13:bytes-successor-below", &format!("succ({}) = {}", hex(&a), hex(&su)), &line);
        }
        let ans = drv.ask(&format!("bytes.succ {}", hex(&a)));
        if ans != "no-model" && ans != hex(&su) {
            rep.drift.push(format!("bytes successor differs from the model ({ans}) :: {line}"));
            rep.count("model_drift");
        }
        // internal keys
        let ka = (a.clone(), sa, 1u8);
        let kb = (b.clone(), sb, 1u8);
        let lt = ik_lt((&a, sa), (&b, sb));
        if lt {
            match raindb::verif::ikey_separator(&ka, &kb) {
                Ok(sep) => {
                    let sp = (&sep.0[..], sep.1);
                    if ik_lt(sp, (&a, sa)) || !ik_lt(sp, (&b, sb)) {
                        rep.fail("contract", "c13:key-separator-out-of-range", &format!("separator {}@{} is not in [a, b)", hex(&sep.0), sep.1), &line);
                    }
                    let ans = drv.ask(&format!("key.sep {} {} {} {}", hex(&a), sa, hex(&b), sb));
                    if ans != "no-model" && ans != format!("{}/{}", hex(&sep.0), sep.1) {
                        rep.drift.push(format!("key separator differs from the model ({ans}) :: {line}"));
                        rep.count("model_drift");
                    }
                }
                Err(e) => rep.fail("oracle", "c13:key-separator-error", &e, &line),
            }
        }
        match raindb::verif::ikey_successor(&ka) {
            Ok(su) => {
                if ik_lt((&su.0, su.1), (&a, sa)) {
                    rep.fail("contract", "c13:key-successor-below", &format!("successor {}@{} is below the key", hex(&su.0), su.1), &line);
                }
                let ans = drv.ask(&format!("key.succ {} {}", hex(&a), sa));
                if ans != "no-model" && ans != format!("{}/{}", hex(&su.0), su.1) {
                    rep.drift.push(format!("key successor differs from the model ({ans}) :: {line}"));
                    rep.count("model_drift");
                }
            }
            Err(e) => rep.fail("oracle", "c13:key-successor-error", &e, &line),
        }
        // blocks
        let es = gen_entries(&mut rng, 12, false);
        let r = *rng.pick(&[1usize, 2, 3, 16]);
        let bl = format!("c13blk r={} entries={}", r, ents(&es));
        rep.case(&bl, !es.is_empty());
        match raindb::verif::block_encode(r, &es) {
            Ok(raw) => {
                match raindb::verif::block_decode(raw.clone()) {
                    Ok(back) => {
                        if back != es {
                            rep.fail("oracle", "c13:block-roundtrip", "decode(encode(entries)) differs from the entries", &bl);
                        }
                    }
                    Err(e) => rep.fail("oracle", "c13:block-roundtrip", &format!("a freshly encoded block does not parse: {e}"), &bl),
                }
                let ans = drv.ask(&format!("block.enc {} {}", r, ents(&es)));
                if ans != "no-model" && ans != hex(&raw) {
                    rep.drift.push(format!("block bytes differ from the model :: {bl}"));
                    rep.count("model_drift");
                }
                let ans = drv.ask(&format!("block.dec {}", hex(&raw)));
                if ans != "no-model" && ans != ents(&es) {
                    rep.drift.push(format!("block decode differs from the model :: {bl}"));
                    rep.count("model_drift");
                }
            }
            Err(e) => rep.fail("oracle", "c13:block-encode-error", &e, &bl),
        }
    }
}

pub fn gen_entries(rng: &mut Prng, max_keys: usize, big: bool) -> Vec<Entry> {
    let nk = rng.range(1, max_keys as u64) as usize;
    let mut keys: Vec<Vec<u8>> = (0..nk)
        .map(|_| match rng.below(5) {
            0 => crate::c14::gen_key(rng),
            1 => {
                let mut k = b"prefix/shared/".to_vec();
                let n = rng.below(3) as usize;
                k.extend(rng.bytes(n));
                k
            }
            2 => vec![0xff; rng.range(1, 4) as usize],
            3 => vec![rng.range(97, 104) as u8],
            _ => format!("k{:03}", rng.below(40)).into_bytes(),
        })
        .collect();
    keys.sort();
    keys.dedup();
    let mut out = vec![];
    for k in keys {
        let nv = match rng.below(6) {
            0 => rng.range(2, 12),
            _ => rng.range(1, 3),
        };
        let mut seqs: Vec<u64> = (0..nv).map(|_| rng.below(60)).collect();
        seqs.sort();
        seqs.dedup();
        seqs.reverse();
        for s in seqs {
            let put = rng.chance(4, 5);
            let v = if !put {
                vec![]
            } else {
                match rng.below(12) {
                    0 => vec![],
                    1 if big => vec![b'V'; rng.range(300, 5000) as usize],
                    _ => {
                        let n = rng.range(1, 30) as usize;
                        rng.bytes(n)
                    }
                }
            };
            out.push((k.clone(), s, if put { 1 } else { 0 }, v));
        }
    }
    out
}

/// a long table: hundreds of keys with incompressible values so that the file spans many 2 KiB filter
/// ranges and its blocks start at every residue of the file offset modulo 2048
pub fn gen_long_entries(rng: &mut Prng) -> Vec<Entry> {
    let n = rng.range(150, 700) as usize;
    let base = rng.below(1000);
    let mut out = vec![];
    for i in 0..n {
        let k = format!("k{:06}", base + i as u64).into_bytes();
        let nv = if rng.chance(1, 20) { rng.range(2, 20) } else { 1 };
        let mut seqs: Vec<u64> = (0..nv).map(|_| rng.below(200)).collect();
        seqs.sort();
        seqs.dedup();
        seqs.reverse();
        for s in seqs {
            let len = rng.range(20, 130) as usize;
            out.push((k.clone(), s, 1u8, rng.bytes(len)));
        }
    }
    out
}

/// sizes at and around 2^16 and 2^17: a user key whose internal key reaches 65 536 bytes, two keys
/// sharing such a prefix, values of 64 KiB and more (compressible ones give multi-chunk Snappy
/// blocks), next to ordinary short entries
pub fn gen_huge_entries(rng: &mut Prng) -> Vec<Entry> {
    if rng.chance(1, 4) {
        // a table of more than 2 MiB: block offsets pass 2^21, the handles of the later blocks need
        // four-byte varints (and the file offset passes 2^21 in the footer's index handle)
        let n = rng.range(11, 14);
        return (0..n).map(|i| (format!("big-{i:02}").into_bytes(), 40 + i, 1u8, rng.bytes(200_000))).collect();
    }
    let klen = *rng.pick(&[65_527usize, 65_528, 65_535, 65_536, 66_000, 70_000, 131_073]);
    let fill = rng.range(98, 121) as u8;
    let mut keys: Vec<Vec<u8>> = vec![b"apple".to_vec(), b"zebra".to_vec(), vec![fill; klen]];
    if rng.chance(1, 2) {
        let mut k2 = vec![fill; klen];
        k2.push(b'x');
        keys.push(k2);
    }
    if rng.chance(1, 2) {
        keys.push(vec![fill; 3]);
    }
    keys.sort();
    keys.dedup();
    let mut out = vec![];
    for k in keys {
        let nv = rng.range(1, 2);
        for j in 0..nv {
            let v = match rng.below(6) {
                0 => vec![b'V'; *rng.pick(&[65_535usize, 65_536, 65_537, 150_000])],
                1 => {
                    let n = *rng.pick(&[16_383usize, 16_384, 70_000]);
                    rng.bytes(n)
                }
                _ => {
                    let n = rng.range(0, 20) as usize;
                    rng.bytes(n)
                }
            };
            out.push((k.clone(), 50 - j, 1u8, v));
        }
    }
    out
}

enum Job {
    /// a table with keys / values of 64 KiB and more: implementation against the oracles only (the
    /// list-based model driver needs minutes for such a table)
    Huge(Case),
    Table(Case),
    Small(u64, usize),
}

fn job(j: &Job, drv: &mut Drv, rep: &mut Report) {
    match j {
        Job::Table(c) => run_case(c, drv, rep),
        Job::Huge(c) => {
            let _ = drv;
            rep.count("c13.huge-tables-checked-against-the-oracles-only");
            if c.entries.first().map_or(false, |e| e.0.starts_with(b"big-")) {
                rep.count("c13.huge-tables-over-2-mib");
            }
            run_case(c, &mut Drv::spawn("none"), rep)
        }
        Job::Small(seed, n) => run_small(*seed, drv, rep, *n),
    }
}

pub fn rule() -> &'static str {
    "(1) key/byte separators and successors on generated key pairs (shared prefixes, adjacent bytes, 0xff runs); (2) blocks with restart intervals 1,2,3,16; (3) tables built by the real TableBuilder on SimFs from generated sorted entry sets (empty/one-byte/0xff keys, shared prefixes, many versions per key, tombstones, values empty..multi-block; plus long tables of 150-700 keys with incompressible values spanning many 2 KiB filter ranges; plus tables with a user key of 65 527 .. 131 073 bytes - internal keys at and beyond 2^16 -, two keys sharing such a prefix, values of 16 383 .. 200 000 bytes, tables of more than 2 MiB whose block offsets pass 2^21) x max_block_size 16 B..1 MiB x Bloom bits 1..64: dump vs model, lookups at every (key, bound) around every entry, random cursor programs with reversals; (4) the table's filter block. Non-trivial = at least two entries / distinct keys; distinct by case text."
}

pub fn run(tier: &str, seed: u64, drv_path: &str, replay: Option<&str>, corpus: &str) -> Report {
    let mut rep = Report::new("c13", rule());
    if let Some(line) = replay {
        let mut drv = Drv::spawn(drv_path);
        match Case::from_line(line) {
            Some(c) if line.starts_with("c13 ") => run_case(&c, &mut drv, &mut rep),
            _ => rep.fail("oracle", "c13:bad-replay", "cannot parse replay case (only table cases replay)", line),
        }
        rep.model_requests = drv.requests;
        return rep;
    }
    let thorough = tier == "thorough";
    let mut rng = Prng::new(seed ^ 0xC13);
    let mut jobs: Vec<Job> = vec![];
    if let Ok(rd) = std::fs::read_dir(corpus) {
        for e in rd.flatten() {
            if let Ok(txt) = std::fs::read_to_string(e.path()) {
                for l in txt.lines().filter(|l| l.starts_with("c13 ")) {
                    if let Some(c) = Case::from_line(l) {
                        jobs.push(Job::Table(c));
                    }
                }
            }
        }
    }
    let ntab = if thorough { 4000 } else { 400 };
    for _ in 0..ntab {
        let block = *rng.pick(&[16usize, 24, 40, 64, 100, 256, 1024, 4096, 1 << 20]);
        let big = rng.chance(1, 4);
        let maxk = if rng.chance(1, 5) { 60 } else { 14 };
        let entries = gen_entries(&mut rng, maxk, big);
        jobs.push(Job::Table(Case { block, bloom: rng.range(1, 64) as usize, entries, pseed: rng.next() }));
    }
    let nlong = if thorough { 600 } else { 60 };
    for _ in 0..nlong {
        let block = *rng.pick(&[64usize, 100, 200, 256, 512, 1024, 4096]);
        let entries = gen_long_entries(&mut rng);
        jobs.push(Job::Table(Case { block, bloom: rng.range(4, 16) as usize, entries, pseed: rng.next() }));
    }
    let nhuge = if thorough { 80 } else { 10 };
    for _ in 0..nhuge {
        let block = *rng.pick(&[256usize, 4096, 1 << 17, 1 << 20]);
        let entries = gen_huge_entries(&mut rng);
        jobs.push(Job::Huge(Case { block, bloom: rng.range(4, 16) as usize, entries, pseed: rng.next() }));
    }
    let nsmall = if thorough { 200 } else { 32 };
    for _ in 0..nsmall {
        jobs.push(Job::Small(rng.next(), 60));
    }
    crate::par::run_jobs(jobs, drv_path, &mut rep, job);
    rep.rule = rule().to_string();
    rep
}
