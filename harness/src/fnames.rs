//! File names (`src/file_names.rs`): the real formatter and parser against the Lean model
//! (`Rain/FileNames.lean`) on generated numbers and names, and the reading of CURRENT at
//! `DB::open` against the model's `parseCurrent` on doctored CURRENT files.
//! (The per-folder deletion decision is tied in every `lsm` history: `dbsim::validate_obsolete`.)

use std::path::Path;

use raindb::DB;

use crate::dbsim::{Cfg, DB_PATH};
use crate::drv::Drv;
use crate::prng::Prng;
use crate::report::Report;
use crate::simfs::SimFs;

pub fn enc(name: &str) -> String {
    if name.is_empty() {
        "-".to_string()
    } else {
        name.chars().map(|c| (c as u32).to_string()).collect::<Vec<_>>().join(",")
    }
}

fn dec(s: &str) -> Option<String> {
    if s == "-" {
        return Some(String::new());
    }
    s.split(',').map(|t| t.parse::<u32>().ok().and_then(char::from_u32)).collect()
}

/// kind and number of a name as the database itself writes it (canonical spelling only)
pub fn own_name(name: &str) -> Option<(&'static str, u64)> {
    let canon = |s: &str| s.parse::<u64>().ok().filter(|n| n.to_string() == s);
    if let Some(n) = name.strip_prefix("wal-").and_then(|s| s.strip_suffix(".log")).and_then(canon) {
        return Some(("wal", n));
    }
    if let Some(n) = name.strip_prefix("MANIFEST-").and_then(|s| s.strip_suffix(".manifest")).and_then(canon) {
        return Some(("manifest", n));
    }
    if let Some(n) = name.strip_suffix(".rdb").and_then(canon) {
        return Some(("table", n));
    }
    if let Some(n) = name.strip_suffix(".dbtemp").and_then(canon) {
        return Some(("temp", n));
    }
    match name {
        "CURRENT" => Some(("current", 0)),
        "LOCK" => Some(("lock", 0)),
        _ => None,
    }
}

const KINDS: [&str; 6] = ["wal", "table", "manifest", "temp", "current", "lock"];

fn check_format(kind: &str, n: u64, drv: &mut Drv, rep: &mut Report) {
    let line = format!("fnames fmt kind={kind} n={n}");
    rep.case(&line, true);
    rep.count(&format!("fmt.{kind}"));
    let real = match raindb::verif::file_name_format(DB_PATH, kind, n) {
        Some(p) => p,
        None => {
            rep.fail("oracle", "harness:fnames-unknown-kind", "the hook does not know the kind", &line);
            return;
        }
    };
    let folder = match kind {
        "wal" => format!("{DB_PATH}/wal/"),
        "table" => format!("{DB_PATH}/data/"),
        _ => format!("{DB_PATH}/"),
    };
    let name = match real.strip_prefix(&folder) {
        Some(nm) if !nm.contains('/') => nm.to_string(),
        _ => {
            rep.fail("contract", "c11:file-path-outside-its-folder", &format!("the {kind} file {n} is placed at {real}, not directly inside {folder} where the deletion pass and recovery look for files of this kind"), &line);
            return;
        }
    };
    // the real code must read its own names back (C11 / C02: deletion and recovery decide on parsed names)
    let back = raindb::verif::file_name_parse(&real);
    let want = match kind {
        "current" | "lock" => kind.to_string(),
        _ => format!("{kind}:{n}"),
    };
    if back != want {
        rep.fail("oracle", "c11:written-name-does-not-parse-back", &format!("the database names its {kind} file {n} {name:?} but reads that name back as {back}: the deletion pass and recovery do not recognise their own file"), &line);
        return;
    }
    let ans = drv.ask(&format!("fname.fmt {kind} {n}"));
    if ans == "no-model" {
        return;
    }
    rep.model_requests += 1;
    if dec(&ans).as_deref() != Some(name.as_str()) {
        rep.drift.push(format!("file name differs from the model: implementation {name:?} model {:?} :: {line}", dec(&ans)));
        rep.count("model_drift");
    }
}

fn check_parse(name: &str, drv: &mut Drv, rep: &mut Report) {
    let line = format!("fnames parse name={}", enc(name));
    let folder = ["", "/wal", "/data"][name.len() % 3];
    let real = raindb::verif::file_name_parse(&format!("{DB_PATH}{folder}/{name}"));
    rep.case(&line, real != "err");
    rep.count(&format!("parse.{}", real.split(':').next().unwrap_or("")));
    if real != "err" && own_name(name).is_none() {
        rep.count("parse.accepted-non-canonical-spelling");
    }
    let ans = drv.ask(&format!("fname.parse {}", enc(name)));
    if ans == "no-model" {
        return;
    }
    rep.model_requests += 1;
    if ans != real {
        rep.drift.push(format!("the parser differs from the model on {name:?}: implementation {real} model {ans} :: {line}"));
        rep.count("model_drift");
    }
}

fn gen_number(rng: &mut Prng) -> u64 {
    match rng.below(8) {
        0 => rng.below(12),
        1 => {
            // around powers of ten
            let p = 10u64.pow(rng.range(1, 19) as u32);
            p.wrapping_add(rng.below(3)).wrapping_sub(1)
        }
        2 => u64::MAX - rng.below(3),
        3 => 1u64 << rng.range(1, 63),
        4 => rng.next(),
        _ => rng.below(100_000),
    }
}

fn gen_digits(rng: &mut Prng) -> String {
    match rng.below(12) {
        0 => String::new(),
        1 => format!("+{}", gen_number(rng)),
        2 => format!("-{}", gen_number(rng)),
        3 => format!("{}{}", "0".repeat(rng.range(1, 25) as usize), gen_number(rng)),
        4 => "18446744073709551616".to_string(),
        5 => format!("{}{}", gen_number(rng), rng.below(10)), // often overflows
        6 => format!("{}x", gen_number(rng)),
        7 => format!(" {}", gen_number(rng)),
        8 => "+".to_string(),
        9 => format!("{}\u{0663}", rng.below(100)), // a non-ASCII decimal digit
        _ => gen_number(rng).to_string(),
    }
}

fn gen_name(rng: &mut Prng) -> String {
    let prefixes = ["wal-", "MANIFEST-", "", "WAL-", "wal", "manifest-", "MANIFEST", "x", ".", "wal-wal-"];
    let exts = ["log", "rdb", "manifest", "dbtemp", "LOG", "rdb ", "", "log.bak", "rdb.", "tmp", "manifest\n", "é"];
    let pairs = [("wal-", "log"), ("MANIFEST-", "manifest"), ("", "rdb"), ("", "dbtemp")];
    let name = match rng.below(24) {
        16..=23 => {
            // the right prefix and extension, any spelling of the number
            let (p, e) = *rng.pick(&pairs);
            format!("{p}{}.{e}", gen_digits(rng))
        }
        0 => "CURRENT".to_string(),
        1 => "LOCK".to_string(),
        2 => format!("CURRENT.{}", rng.pick(&exts)),
        3 => format!(".{}", rng.pick(&exts)),
        4 => format!("{}{}", rng.pick(&prefixes), gen_digits(rng)),
        5 => format!("{}{}..{}", rng.pick(&prefixes), gen_digits(rng), rng.pick(&exts)),
        6 => format!("{}.{}.{}", gen_digits(rng), rng.pick(&exts), rng.pick(&exts)),
        7 => "...".to_string(),
        8 => format!("{}{}.{}", rng.pick(&prefixes), gen_number(rng), rng.pick(&exts)),
        _ => format!("{}{}.{}", rng.pick(&prefixes), gen_digits(rng), rng.pick(&exts)),
    };
    // the model's domain: one path component
    if name.is_empty() || name == "." || name == ".." || name.contains('/') {
        "x".to_string()
    } else {
        name
    }
}

/// `DB::open` on a closed database whose CURRENT file was replaced by `contents`: opens iff the
/// model reads the contents as the number of the manifest that exists.
fn check_current(seed: u64, drv: &mut Drv, rep: &mut Report) {
    let mut rng = Prng::new(seed);
    let fs = SimFs::new();
    let cfg = Cfg { share: false, ..Cfg::gen(&mut rng) };
    let line0 = format!("fnames current seed={seed} cfg={}", cfg.to_tok());
    {
        let db = match DB::open(cfg.options(&fs)) {
            Ok(d) => d,
            Err(e) => {
                rep.fail("oracle", "c01:open-failed", &format!("DB::open on an empty filesystem failed: {e}"), &line0);
                return;
            }
        };
        for i in 0..rng.range(1, 40) {
            let _ = db.put(raindb::WriteOptions::default(), format!("k{i}").into_bytes(), vec![b'v'; rng.range(1, 200) as usize]);
        }
    }
    let current = Path::new("/db/CURRENT");
    let orig = match fs.read_file(current).and_then(|b| String::from_utf8(b).ok()) {
        Some(s) => s,
        None => {
            rep.fail("oracle", "c11:current-missing", "CURRENT is missing after a clean close", &line0);
            return;
        }
    };
    let number: u64 = match orig.trim_end().strip_prefix("MANIFEST-").and_then(|s| s.strip_suffix(".manifest")).and_then(|s| s.parse().ok()) {
        Some(n) => n,
        None => {
            rep.fail("oracle", "c02:current-does-not-name-a-manifest", &format!("CURRENT holds {orig:?}"), &line0);
            return;
        }
    };
    let n = number;
    let variants: Vec<String> = vec![
        orig.clone(),
        format!("MANIFEST-{n}.manifest"),
        String::new(),
        "\n".to_string(),
        format!("MANIFEST-+{n}.manifest\n"),
        format!("MANIFEST-00{n}.manifest\n"),
        format!("MANIFEST-{n}.manifest\n\n"),
        format!("MANIFEST-{n}.manifest \n"),
        format!("MANIFEST-{}.manifest\n", n + 1),
        format!("MANIFEST-{n}\n"),
        format!("{n}.manifest\n"),
        format!("manifest-{n}.manifest\n"),
        format!("{n}.rdb\n"),
        "CURRENT\n".to_string(),
        format!("MANIFEST-{n}.manifes\n"),
        format!("MANIFEST-{n}.manifest.bak\n"),
        format!("MANIFEST--{n}.manifest\n"),
        orig[..rng.range(0, orig.len() as u64 - 1) as usize].to_string(),
    ];
    for v in variants {
        let line = format!("{line0} contents={}", enc(&v));
        rep.case(&line, true);
        let img = fs.snapshot();
        img.write_file_raw(current, v.clone().into_bytes());
        let opts = raindb::DbOptions { create_if_missing: false, ..cfg.options(&img) };
        let opened = match crate::dbsim::with_deadline(30, move || DB::open(opts).map(|_| ()).map_err(|e| e.to_string())) {
            Some(r) => r,
            None => {
                rep.fail("oracle", "c09:open-hangs", &format!("DB::open does not return with CURRENT = {v:?}"), &line);
                continue;
            }
        };
        let ans = drv.ask(&format!("fname.current {}", enc(&v)));
        if ans == "no-model" {
            continue;
        }
        rep.model_requests += 1;
        let model_opens = ans == number.to_string();
        rep.count(if opened.is_ok() { "current.opened" } else { "current.rejected" });
        if opened.is_ok() != model_opens {
            rep.drift.push(format!("reading CURRENT differs from the model: contents {v:?}, implementation {}, model reads {ans} (the manifest on disk is {number}) :: {line}", match &opened { Ok(()) => "opened".to_string(), Err(e) => format!("failed: {e}") }));
            rep.count("model_drift");
        }
    }
}

/// `DB::open` on a closed database from which a live table file was removed (and possibly replaced
/// by a file with another spelling or kind of the same number): fails with "missing files" iff the
/// model's `missingFiles` over the names of the three folders is non-empty.
fn check_missing(seed: u64, drv: &mut Drv, rep: &mut Report) {
    let mut rng = Prng::new(seed);
    let fs = SimFs::new();
    let cfg = Cfg { share: false, ..Cfg::gen(&mut rng) };
    let line0 = format!("fnames missing seed={seed} cfg={}", cfg.to_tok());
    let live: Vec<u64> = {
        let db = match DB::open(cfg.options(&fs)) {
            Ok(d) => d,
            Err(e) => {
                rep.fail("oracle", "c01:open-failed", &format!("DB::open on an empty filesystem failed: {e}"), &line0);
                return;
            }
        };
        for i in 0..rng.range(20, 120) {
            let _ = db.put(raindb::WriteOptions::default(), format!("k{:04}", i * 7 % 97).into_bytes(), vec![b'v'; rng.range(1, 200) as usize]);
        }
        if rng.chance(1, 2) {
            db.compact_range(None..None);
        }
        db.verif_wait_idle(std::time::Duration::from_secs(20));
        db.verif_state().levels.iter().flatten().map(|f| f.number).collect()
    };
    if live.is_empty() {
        rep.count("missing.no-table");
        return;
    }
    let victim = *rng.pick(&live);
    let vpath = format!("/db/data/{victim}.rdb");
    let variants: Vec<(&str, Option<String>)> = vec![
        ("intact", None),
        ("removed", Some(String::new())),
        ("plus-spelling", Some(format!("/db/data/+{victim}.rdb"))),
        ("zero-spelling", Some(format!("/db/data/0{victim}.rdb"))),
        ("as-temp-file", Some(format!("/db/{victim}.dbtemp"))),
        ("as-backup", Some(format!("/db/data/{victim}.rdb.bak"))),
        ("in-wal-folder", Some(format!("/db/wal/{victim}.rdb"))),
    ];
    for (what, replacement) in variants {
        let line = format!("{line0} victim={victim} variant={what}");
        rep.case(&line, true);
        let img = fs.snapshot();
        if let Some(r) = &replacement {
            use raindb::fs::FileSystem;
            let data = img.read_file(Path::new(&vpath)).unwrap_or_default();
            let _ = img.remove_file(Path::new(&vpath));
            if !r.is_empty() {
                img.write_file_raw(Path::new(r), data);
            }
        }
        let names: Vec<String> = img.all_files().iter().map(|(p, _)| p.to_string_lossy().to_string()).filter(|p| {
            let rest = p.strip_prefix("/db/").unwrap_or("");
            !rest.is_empty() && (!rest.contains('/') || (rest.starts_with("wal/") && rest.matches('/').count() == 1) || (rest.starts_with("data/") && rest.matches('/').count() == 1))
        }).map(|p| p.rsplit('/').next().unwrap_or("").to_string()).collect();
        let opts = raindb::DbOptions { create_if_missing: false, ..cfg.options(&img) };
        let opened = match crate::dbsim::with_deadline(30, move || DB::open(opts).map(|_| ()).map_err(|e| e.to_string())) {
            Some(r) => r,
            None => {
                rep.fail("oracle", "c09:open-hangs", &format!("DB::open does not return ({what})"), &line);
                continue;
            }
        };
        let ans = drv.ask(&format!("fname.missing {} {}", live.iter().map(|n| n.to_string()).collect::<Vec<_>>().join(","), names.iter().map(|n| enc(n)).collect::<Vec<_>>().join(";")));
        if ans == "no-model" {
            continue;
        }
        rep.model_requests += 1;
        rep.count(&format!("missing.{what}.{}", if opened.is_ok() { "opened" } else { "rejected" }));
        let model_opens = ans == "-";
        if what == "removed" && opened.is_ok() {
            rep.fail("oracle", "c15:missing-table-not-detected", &format!("table {victim} of the current version was removed from the closed database and DB::open succeeded"), &line);
        } else if what == "intact" && opened.is_err() {
            rep.fail("oracle", "c02:clean-database-does-not-open", &format!("a cleanly closed database does not open again: {opened:?}"), &line);
        } else if opened.is_ok() != model_opens {
            rep.drift.push(format!("the missing-files test of recovery differs from the model: variant {what}, implementation {}, model reports missing [{ans}] :: {line}", match &opened { Ok(()) => "opened".to_string(), Err(e) => format!("failed: {e}") }));
            rep.count("model_drift");
        }
    }
}

pub fn rule() -> &'static str {
    "the real FileNameHandler against the Lean model: the path of every kind of file for generated numbers (small, around powers of ten, powers of two, u64::MAX) - placed directly in its folder, read back by the real parser as the same kind and number (oracle), equal to the model's name; the real parser against the model's on generated names (canonical names, signs, leading zeros, overflowing digit strings, wrong case, double and empty extensions, dot files, non-ASCII digits, CURRENT / LOCK look-alikes); DB::open on a closed database whose CURRENT was replaced (no newline, two newlines, non-canonical numbers, other kinds, truncations) opens iff the model reads the contents as the existing manifest's number; DB::open on a closed database from which a live table was removed - and replaced by a file with another spelling (+n, 0n), another kind (n.dbtemp), a backup name or in another folder - fails iff the model's missingFiles over the names of the three folders is non-empty (a removed table that nothing replaces must be detected: oracle). Non-trivial = a formatted name, a name the parser accepts, a CURRENT variant; distinct by case text."
}

pub fn run(tier: &str, seed: u64, replay: Option<&str>, drv_path: &str) -> Report {
    let mut rep = Report::new("fnames", rule());
    let mut drv = Drv::spawn(drv_path);
    if let Some(line) = replay {
        let get = |name: &str| line.split_whitespace().find_map(|t| t.strip_prefix(&format!("{name}="))).map(|s| s.to_string());
        if line.contains(" fmt ") {
            if let (Some(k), Some(n)) = (get("kind"), get("n").and_then(|s| s.parse().ok())) {
                check_format(&k, n, &mut drv, &mut rep);
            }
        } else if line.contains(" parse ") {
            if let Some(nm) = get("name").and_then(|s| dec(&s)) {
                check_parse(&nm, &mut drv, &mut rep);
            }
        } else if line.contains(" missing ") {
            if let Some(s) = get("seed").and_then(|s| s.parse().ok()) {
                check_missing(s, &mut drv, &mut rep);
            }
        } else if line.contains(" current ") {
            if let Some(s) = get("seed").and_then(|s| s.parse().ok()) {
                check_current(s, &mut drv, &mut rep);
            }
        } else {
            rep.fail("oracle", "harness:fnames-bad-replay", "cannot parse replay case", line);
        }
        return rep;
    }
    let mut rng = Prng::new(seed ^ 0xf11e);
    let n = if tier == "thorough" { 40000 } else { 4000 };
    for k in KINDS {
        for num in [0u64, 1, 9, 10, 11, 99, 100, u64::MAX, u64::MAX - 1, 1 << 32, (1 << 63) + 5] {
            check_format(k, num, &mut drv, &mut rep);
        }
    }
    for _ in 0..n {
        let k = *rng.pick(&KINDS[..4]);
        let num = gen_number(&mut rng);
        check_format(k, num, &mut drv, &mut rep);
        // the canonical name, then mutated names
        if let Some(p) = raindb::verif::file_name_format(DB_PATH, k, num) {
            if let Some(nm) = p.rsplit('/').next() {
                check_parse(nm, &mut drv, &mut rep);
            }
        }
        for _ in 0..3 {
            let nm = gen_name(&mut rng);
            check_parse(&nm, &mut drv, &mut rep);
        }
    }
    let nc = if tier == "thorough" { 60 } else { 8 };
    for _ in 0..nc {
        check_current(rng.next() % 1_000_000, &mut drv, &mut rep);
    }
    for _ in 0..nc {
        check_missing(rng.next() % 1_000_000, &mut drv, &mut rep);
    }
    rep
}
