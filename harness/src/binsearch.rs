//! The two binary searches of the code against the loop model (`Rain/BinSearch.lean`):
//! `find_file_with_upper_bound_range` (+ the level part of `Version::get_overlapping_files`) on
//! synthetic levels, `BlockIter::seek` on real blocks. On sorted input the answers must be equal
//! (and `Rain/Props/BinSearch.lean` proves that the model's loop then equals the linear
//! specifications the other models use); on unsorted levels the real loop must stay in range.

use raindb::verif::{Entry, FileDump, IKey};
use raindb::DbOptions;

use crate::drv::{hex, Drv};
use crate::prng::Prng;
use crate::report::Report;

const MAX_SEQ: u64 = (1u64 << 56) - 1;

fn key(i: u64) -> Vec<u8> {
    format!("k{:03}", i).into_bytes()
}

fn gen_seq(rng: &mut Prng) -> u64 {
    match rng.below(8) {
        0 => 0,
        1 => MAX_SEQ,
        2 => rng.range(1, 4),
        3 => (1u64 << 32) + rng.below(3),
        _ => rng.range(1, 1000),
    }
}

/// a sorted, disjoint level: adjacent files may share the boundary user key (older versions in the
/// later file); single-entry files (smallest = largest) occur
fn gen_level(rng: &mut Prng, n: usize) -> Vec<FileDump> {
    let mut out = vec![];
    let mut k = rng.below(3);
    let mut seq_cap = MAX_SEQ; // the next smallest key with user key `k` must have a sequence below this
    for i in 0..n {
        let small_seq = if seq_cap == 0 { k += 1; seq_cap = MAX_SEQ; gen_seq(rng) } else { gen_seq(rng).min(seq_cap.saturating_sub(1)) };
        let smallest: IKey = (key(k), small_seq, 1);
        let span = if rng.chance(1, 4) { 0 } else { rng.range(1, 4) };
        let largest: IKey = if span == 0 {
            if rng.chance(1, 2) || small_seq == 0 { smallest.clone() } else { (key(k), rng.below(small_seq), 1) }
        } else {
            (key(k + span), gen_seq(rng), if rng.chance(1, 5) { 0 } else { 1 })
        };
        k += span;
        out.push(FileDump { number: 100 + i as u64, size: rng.range(1, 400), smallest, largest: largest.clone(), allowed_seeks: 100 });
        if rng.chance(1, 3) && largest.1 > 0 {
            // the next file continues the same user key with older versions
            seq_cap = largest.1;
        } else {
            k += rng.range(1, 3);
            seq_cap = MAX_SEQ;
        }
    }
    out
}

fn level_tok(fs: &[FileDump]) -> String {
    if fs.is_empty() {
        "_".to_string()
    } else {
        fs.iter().map(crate::dbsim::file_tok_pub).collect::<Vec<_>>().join(";")
    }
}

fn gen_targets(rng: &mut Prng, fs: &[FileDump], n: usize) -> Vec<IKey> {
    let mut out = vec![];
    for _ in 0..n {
        let t: IKey = if !fs.is_empty() && rng.chance(2, 3) {
            // at or next to a boundary key
            let f = &fs[rng.below(fs.len() as u64) as usize];
            let b = if rng.chance(1, 2) { f.smallest.clone() } else { f.largest.clone() };
            let seq = match rng.below(5) {
                0 => b.1,
                1 => b.1.saturating_add(1).min(MAX_SEQ),
                2 => b.1.saturating_sub(1),
                3 => MAX_SEQ,
                _ => 0,
            };
            (b.0, seq, 1)
        } else {
            (key(rng.below(60)), gen_seq(rng), 1)
        };
        out.push(t);
    }
    out
}

fn qtok(ts: &[IKey]) -> String {
    ts.iter().map(|t| format!("{}/{}", hex(&t.0), t.1)).collect::<Vec<_>>().join(",")
}

fn check_level(rng: &mut Prng, drv: &mut Drv, rep: &mut Report, origin: &str, opts: &DbOptions) {
    let n = match rng.below(6) {
        0 => 0,
        1 => 1,
        2 => 2,
        3 => rng.range(3, 9) as usize,
        4 => rng.range(9, 40) as usize,
        _ => [3usize, 4, 7, 8, 15, 16, 17, 31, 32, 33][rng.below(10) as usize],
    };
    let mut fs = gen_level(rng, n);
    let sorted = !rng.chance(1, 8) || fs.len() < 2;
    if !sorted {
        // shuffle: the loop must still terminate inside the vector
        for i in (1..fs.len()).rev() {
            let j = rng.below(i as u64 + 1) as usize;
            fs.swap(i, j);
        }
    }
    let targets = gen_targets(rng, &fs, 8);
    let case = format!("binsearch {origin} level n={} sorted={}", fs.len(), sorted);
    let mut real: Vec<String> = vec![];
    for t in &targets {
        let idx = match raindb::verif::find_file(&fs, t) {
            Ok(i) => i,
            Err(e) => {
                rep.case(&case, true);
                rep.fail("oracle", "c09:find-file-panics", &format!("find_file_with_upper_bound_range on {} files ({}sorted) and target {}/{}: {e}", fs.len(), if sorted { "" } else { "un" }, hex(&t.0), t.1), &case);
                return;
            }
        };
        if let Some(i) = idx {
            if i >= fs.len() {
                rep.case(&case, true);
                rep.fail("oracle", "c09:find-file-index-out-of-range", &format!("find_file_with_upper_bound_range returned index {i} for {} files", fs.len()), &case);
                return;
            }
        }
        let mut levels: Vec<Vec<FileDump>> = vec![vec![]; 7];
        let lvl = 1 + rng.below(6) as usize;
        levels[lvl] = fs.clone();
        let kept = if sorted {
            match raindb::verif::overlapping_files(opts, &levels, t) {
                Ok(v) => v.get(lvl).and_then(|l| l.first().copied()),
                Err(e) => {
                    rep.case(&case, true);
                    rep.fail("oracle", "c09:get-overlapping-files-panics", &format!("Version::get_overlapping_files: {e}"), &case);
                    return;
                }
            }
        } else {
            None
        };
        real.push(format!("{}:{}", idx.map_or("-".to_string(), |i| i.to_string()), kept.map_or("-".to_string(), |n| n.to_string())));
    }
    rep.case(&case, fs.len() >= 2);
    rep.count(if sorted { "binsearch.sorted-levels" } else { "binsearch.unsorted-levels" });
    let model = drv.ask(&format!("bin.findfile {} {}", level_tok(&fs), qtok(&targets)));
    if model == "no-model" {
        return;
    }
    rep.model_requests += 1;
    let m: Vec<&str> = model.split(' ').collect();
    if m.len() != real.len() {
        rep.drift.push(format!("bin.findfile answered {} values for {} targets :: {case}", m.len(), real.len()));
        rep.count("model_drift");
        return;
    }
    for ((t, r), w) in targets.iter().zip(real.iter()).zip(m.iter()) {
        rep.count("binsearch.level-queries");
        if sorted {
            if r != w {
                rep.drift.push(format!("file search differs on a sorted level of {} files for target {}/{}: implementation (index:kept file) {r}, model {w} :: {case} level={}", fs.len(), hex(&t.0), t.1, level_tok(&fs)));
                rep.count("model_drift");
                return;
            }
            if r.starts_with('-') {
                rep.count("binsearch.level-past-the-end");
            } else if r.ends_with('-') {
                rep.count("binsearch.level-in-a-gap");
            } else {
                rep.count("binsearch.level-hit");
            }
        } else {
            // only the index part is defined for an unsorted level
            let ri = r.split(':').next().unwrap_or("");
            let wi = w.split(':').next().unwrap_or("");
            if ri == wi {
                rep.count("binsearch.unsorted-same-index-as-model");
            } else {
                rep.count("binsearch.unsorted-other-index-than-model");
            }
        }
    }
}

fn check_block(rng: &mut Prng, drv: &mut Drv, rep: &mut Report, origin: &str) {
    let n = match rng.below(5) {
        0 => 1,
        1 => rng.range(2, 5) as usize,
        2 => [15usize, 16, 17, 31, 32, 33, 63, 64, 65][rng.below(9) as usize],
        _ => rng.range(5, 200) as usize,
    };
    let restart = [1usize, 2, 3, 16, 16][rng.below(5) as usize];
    let mut entries: Vec<Entry> = vec![];
    let mut k = 0u64;
    let mut seq = 0u64;
    for _ in 0..n {
        if !entries.is_empty() && seq > 0 && rng.chance(1, 3) {
            seq = rng.below(seq); // an older version of the same user key
        } else {
            k += rng.range(1, 3);
            seq = gen_seq(rng);
        }
        entries.push((key(k), seq, if rng.chance(1, 6) { 0 } else { 1 }, vec![b'v'; rng.below(5) as usize]));
    }
    let fake: Vec<FileDump> = entries.iter().map(|e| FileDump { number: 0, size: 0, smallest: (e.0.clone(), e.1, e.2), largest: (e.0.clone(), e.1, e.2), allowed_seeks: 0 }).collect();
    let mut targets = gen_targets(rng, &fake, 10);
    if rng.chance(1, 2) {
        // the same target twice in a row: the "already there" shortcut of BlockIter::seek
        let t = targets[0].clone();
        targets.insert(1, t);
    }
    let case = format!("binsearch {origin} block n={n} restart={restart}");
    let real = match std::panic::catch_unwind(std::panic::AssertUnwindSafe(|| raindb::verif::block_seek(restart, &entries, &targets))) {
        Ok(Ok(r)) => r,
        Ok(Err(e)) => {
            rep.case(&case, true);
            rep.fail("oracle", "c13:block-seek-fails", &format!("seeking in a block of {n} sorted entries failed: {e}"), &case);
            return;
        }
        Err(_) => {
            rep.case(&case, true);
            rep.fail("oracle", "c09:block-seek-panics", &format!("BlockIter::seek panicked on a block of {n} sorted entries"), &case);
            return;
        }
    };
    rep.case(&case, n >= 2);
    rep.count("binsearch.blocks");
    // independent oracle: first entry not below the target
    let cmp = |a: &IKey, b: &IKey| raindb::verif::ikey_cmp(a, b).unwrap_or(std::cmp::Ordering::Equal);
    for (t, r) in targets.iter().zip(real.iter()) {
        let want = entries.iter().position(|e| cmp(&(e.0.clone(), e.1, e.2), t) != std::cmp::Ordering::Less);
        if *r != want {
            rep.fail("oracle", "c13:block-seek-wrong-position", &format!("BlockIter::seek({}/{}) in a block of {n} entries (restart interval {restart}) stands on position {:?}, the first entry not below the target is at {:?}", hex(&t.0), t.1, r, want), &case);
            return;
        }
    }
    let ktok = entries.iter().map(|e| format!("{}/{}", hex(&e.0), e.1)).collect::<Vec<_>>().join(",");
    let model = drv.ask(&format!("bin.blockseek {ktok} {}", qtok(&targets)));
    if model == "no-model" {
        return;
    }
    rep.model_requests += 1;
    let m: Vec<&str> = model.split(' ').collect();
    if m.len() != real.len() {
        rep.drift.push(format!("bin.blockseek answered {} values for {} targets :: {case}", m.len(), real.len()));
        rep.count("model_drift");
        return;
    }
    for ((t, r), w) in targets.iter().zip(real.iter()).zip(m.iter()) {
        rep.count("binsearch.block-queries");
        let rs = r.unwrap_or(n).to_string();
        if &rs != w {
            rep.drift.push(format!("block seek differs for target {}/{}: implementation {rs}, model {w} :: {case} keys={ktok}", hex(&t.0), t.1));
            rep.count("model_drift");
            return;
        }
        if r.is_none() {
            rep.count("binsearch.block-past-the-end");
        }
    }
}

pub fn rule() -> &'static str {
    "the real find_file_with_upper_bound_range and the level part of Version::get_overlapping_files on synthetic levels (0..40 files, sizes around powers of two, adjacent files sharing a boundary user key, single-key files, sequence numbers 0 / 2^32 / 2^56-1, targets at and next to every kind of boundary) and the real BlockIter::seek on real blocks (1..200 entries, restart intervals 1/2/3/16, runs of versions of one user key, repeated targets) against the loop model of Rain/BinSearch.lean; one level in eight is shuffled (the loop must stay in range on any input). Non-trivial = at least two elements; distinct by case text."
}

pub fn run(tier: &str, seed: u64, replay: Option<&str>, drv_path: &str) -> Report {
    let mut rep = Report::new("binsearch", rule());
    let mut drv = Drv::spawn(drv_path);
    let opts = DbOptions::with_memory_env();
    let one = |s: u64, drv: &mut Drv, rep: &mut Report| {
        let mut r = Prng::new(s);
        if s % 2 == 0 {
            check_level(&mut r, drv, rep, &format!("gen={s}"), &opts);
        } else {
            check_block(&mut r, drv, rep, &format!("gen={s}"));
        }
    };
    if let Some(line) = replay {
        if let Some(s) = line.split_whitespace().find_map(|t| t.strip_prefix("gen=")).and_then(|s| s.parse::<u64>().ok()) {
            one(s, &mut drv, &mut rep);
        } else {
            rep.fail("oracle", "binsearch:bad-replay", "cannot parse replay case", line);
        }
        return rep;
    }
    let mut rng = Prng::new(seed ^ 0xB15E);
    let n = if tier == "thorough" { 400_000 } else { 20_000 };
    for _ in 0..n {
        let s = rng.next() % 1_000_000_000_000;
        one(s, &mut drv, &mut rep);
    }
    rep
}
