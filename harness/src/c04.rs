//! C04 — iterators yield exactly the visible keys, in order, under any cursor movement.
//!
//! (a) `MergingIterator` over generated child lists (globally distinct internal keys) driven by
//!     random cursor programs with high reversal density: vs a flat sorted-list cursor (oracle)
//!     and vs the Lean merge model;
//! (b) database iterators: a generated history builds an LSM shape (entries of one key spread
//!     over memtable, level-0 files and deeper levels, tombstone runs), then random programs of
//!     seek / first / last / next / prev run on `DB::new_iterator` (latest state or a snapshot):
//!     every step vs a BTreeMap cursor (oracle) and vs the Lean `DatabaseIterator` model fed with
//!     the dumped sources.

use std::collections::BTreeMap;

use raindb::verif::Entry;
use raindb::{RainDbIterator, ReadOptions, DB};

use crate::dbsim::{gen_key, gen_val, Cfg, Op};
use crate::drv::{hex, Drv};
use crate::prng::Prng;
use crate::report::Report;
use crate::simfs::SimFs;

fn ent_full(e: &Entry) -> String {
    format!("{}/{}/{}/{}", hex(&e.0), e.1, if e.2 == 1 { "p" } else { "d" }, hex(&e.3))
}
fn children_tok(ch: &[Vec<Entry>]) -> String {
    if ch.is_empty() {
        return "-".into();
    }
    ch.iter().map(|c| if c.is_empty() { "_".to_string() } else { c.iter().map(ent_full).collect::<Vec<_>>().join(",") }).collect::<Vec<_>>().join(";")
}
fn ik_lt(a: (&[u8], u64), b: (&[u8], u64)) -> bool {
    a.0 < b.0 || (a.0 == b.0 && a.1 > b.1)
}

// ---------------------------------------------------------------- (a) merging iterator

fn gen_children(rng: &mut Prng) -> Vec<Vec<Entry>> {
    let nch = rng.range(1, 6) as usize;
    let mut all: Vec<Entry> = vec![];
    let nk = rng.range(1, 10);
    let mut seq = 1u64;
    for _ in 0..rng.range(1, 40) {
        let k = gen_key(rng, nk * 12);
        let put = rng.chance(3, 4);
        all.push((k, seq, if put { 1 } else { 0 }, if put { gen_val(rng, false) } else { vec![] }));
        seq += rng.range(1, 3);
    }
    let mut ch: Vec<Vec<Entry>> = vec![vec![]; nch];
    for e in all {
        let i = if rng.chance(1, 6) { 0 } else { rng.below(nch as u64) as usize };
        ch[i].push(e);
    }
    for c in ch.iter_mut() {
        c.sort_by(|a, b| if ik_lt((&a.0, a.1), (&b.0, b.1)) { std::cmp::Ordering::Less } else { std::cmp::Ordering::Greater });
    }
    ch
}

fn merge_case(seed: u64, drv: &mut Drv, rep: &mut Report) {
    let mut rng = Prng::new(seed);
    let children = gen_children(&mut rng);
    let mut flat: Vec<Entry> = children.iter().flatten().cloned().collect();
    flat.sort_by(|a, b| if ik_lt((&a.0, a.1), (&b.0, b.1)) { std::cmp::Ordering::Less } else { std::cmp::Ordering::Greater });
    let len = rng.range(10, 200) as usize;
    let line = format!("c04merge seed={seed}");
    rep.case(&line, flat.len() >= 2 && children.len() >= 2);
    let mut cur = match raindb::verif::MergeCursor::new(&children) {
        Ok(c) => c,
        Err(e) => {
            rep.fail("oracle", "c04:merge-setup", &e, &line);
            return;
        }
    };
    let n = flat.len();
    let mut pos = n;
    let mut prog: Vec<String> = vec![];
    let mut outs: Vec<String> = vec![];
    let mut bias_back = false;
    for step in 0..len {
        if step % 17 == 0 {
            bias_back = rng.chance(1, 2);
        }
        let valid = pos < n;
        let r = rng.below(20);
        // reversal density: mix next/prev heavily while valid
        let op: u8 = if !valid {
            *rng.pick(&[0u8, 1, 2, 2])
        } else if r < 1 {
            0
        } else if r < 2 {
            1
        } else if r < 4 {
            2
        } else if (r < 12) != bias_back {
            3
        } else {
            4
        };
        match op {
            0 => {
                cur.seek_to_first().unwrap();
                pos = 0;
                prog.push("f".into());
            }
            1 => {
                cur.seek_to_last().unwrap();
                pos = n.saturating_sub(1);
                prog.push("l".into());
            }
            2 => {
                let (k, s) = if !flat.is_empty() && rng.chance(2, 3) {
                    let e = rng.pick(&flat);
                    (e.0.clone(), (e.1 as i64 + rng.range(0, 2) as i64 - 1).max(0) as u64)
                } else {
                    (gen_key(&mut rng, 60), rng.below(80))
                };
                cur.seek(&k, s).unwrap();
                pos = flat.iter().position(|e| !ik_lt((&e.0, e.1), (&k, s))).unwrap_or(n);
                prog.push(format!("s:{}:{}", hex(&k), s));
            }
            3 => {
                cur.next();
                pos += 1;
                prog.push("n".into());
            }
            _ => {
                cur.prev();
                pos = if pos == 0 { n } else { pos - 1 };
                prog.push("p".into());
            }
        }
        let got = if cur.is_valid() { cur.current() } else { None };
        let want = flat.get(pos).cloned();
        rep.count(if want.is_some() { "c04.merge.step.valid" } else { "c04.merge.step.invalid" });
        outs.push(got.as_ref().map_or("-".to_string(), ent_full));
        if got != want {
            rep.fail(
                "oracle",
                "c04:merge-position-wrong",
                &format!(
                    "children {} program [{}]: the merging iterator is at {:?}, the sorted union is at {:?}",
                    children_tok(&children),
                    prog.join(","),
                    got.as_ref().map(|e| (hex(&e.0), e.1)),
                    want.as_ref().map(|e| (hex(&e.0), e.1))
                ),
                &line,
            );
            return;
        }
    }
    let ans = drv.ask(&format!("merge.run {} {}", children_tok(&children), prog.join(",")));
    if ans != "no-model" && ans != outs.join(" ") {
        rep.drift.push(format!("merging iterator program differs from the model :: {line}"));
        rep.count("model_drift");
    }
}

// ---------------------------------------------------------------- (a') level iterator

/// `FilesEntryIterator` over real table files: a sorted run of entries (several versions per user
/// key) cut into 1-6 files at random places - also inside the run of versions of one user key -
/// against a cursor over the concatenation and against the Lean model (`Rain.Concat.step`;
/// theorem C04_level_iterator_is_a_cursor). Seeks are biased to the keys next to the file
/// boundaries, alternating between a key of a later file and one of an earlier file.
fn level_case(seed: u64, drv: &mut Drv, rep: &mut Report) {
    let mut rng = Prng::new(seed);
    let line = format!("c04level seed={seed}");
    let nk = rng.range(2, 14);
    let mut flat: Vec<Entry> = vec![];
    let mut seq = 1u64;
    for i in 0..nk {
        let k = format!("k{:03}", i * 3 + rng.below(3)).into_bytes();
        let nv = if rng.chance(1, 3) { rng.range(2, 7) } else { 1 };
        let mut vs = vec![];
        for _ in 0..nv {
            let put = rng.chance(4, 5);
            vs.push((k.clone(), seq, if put { 1u8 } else { 0u8 }, if put { gen_val(&mut rng, false) } else { vec![] }));
            seq += rng.range(1, 3);
        }
        vs.reverse(); // newest first
        flat.extend(vs);
    }
    let n = flat.len();
    let nfiles = rng.range(1, 6).min(n as u64) as usize;
    let mut cuts: Vec<usize> = (0..nfiles - 1).map(|_| rng.range(1, n as u64 - 1) as usize).collect();
    cuts.sort();
    cuts.dedup();
    let mut files: Vec<Vec<Entry>> = vec![];
    let mut start = 0;
    for c in cuts.iter().chain(std::iter::once(&n)) {
        if *c > start {
            files.push(flat[start..*c].to_vec());
            start = *c;
        }
    }
    let straddle = files.windows(2).any(|w| w[0].last().map(|e| &e.0) == w[1].first().map(|e| &e.0));
    rep.case(&line, files.len() >= 2 && n >= 3);
    rep.count(&format!("c04.level.files.{}", files.len()));
    if straddle {
        rep.count("c04.level.versions-of-a-key-straddle-a-file-boundary");
    }
    let fs = SimFs::new();
    {
        use raindb::fs::FileSystem;
        fs.create_dir_all(std::path::Path::new("/lv/data")).unwrap();
    }
    let opts = raindb::DbOptions {
        db_path: "/lv".into(),
        max_block_size: *rng.pick(&[16usize, 64, 256, 4096]),
        filesystem_provider: fs.dyn_fs(),
        ..raindb::DbOptions::default()
    };
    let numbered: Vec<(u64, Vec<Entry>)> = files.iter().enumerate().map(|(i, f)| (i as u64 + 1, f.clone())).collect();
    let mut cur = match raindb::verif::LevelCursor::new(&opts, &numbered) {
        Ok(c) => c,
        Err(e) => {
            rep.fail("oracle", "c04:level-setup", &e, &line);
            return;
        }
    };
    // keys next to the boundaries
    let mut edge: Vec<(Vec<u8>, u64)> = vec![];
    for w in files.windows(2) {
        for e in [w[0].last().unwrap(), w[1].first().unwrap()] {
            edge.push((e.0.clone(), e.1));
            edge.push((e.0.clone(), e.1 + 1));
            edge.push((e.0.clone(), u64::MAX >> 8));
        }
    }
    let len = rng.range(10, 120) as usize;
    let mut pos = n;
    let mut prog: Vec<String> = vec![];
    let mut outs: Vec<String> = vec![];
    let mut bias_back = false;
    for step in 0..len {
        if step % 11 == 0 {
            bias_back = rng.chance(1, 2);
        }
        let valid = pos < n;
        let r = rng.below(20);
        let op: u8 = if !valid {
            *rng.pick(&[0u8, 1, 2, 2])
        } else if r < 1 {
            0
        } else if r < 2 {
            1
        } else if r < 8 {
            2
        } else if (r < 14) != bias_back {
            3
        } else {
            4
        };
        match op {
            0 => {
                cur.seek_to_first().unwrap();
                pos = 0;
                prog.push("f".into());
            }
            1 => {
                cur.seek_to_last().unwrap();
                pos = n.saturating_sub(1);
                prog.push("l".into());
            }
            2 => {
                let (k, s) = if !edge.is_empty() && rng.chance(1, 2) {
                    rng.pick(&edge).clone()
                } else if rng.chance(2, 3) {
                    let e = rng.pick(&flat);
                    (e.0.clone(), (e.1 as i64 + rng.range(0, 2) as i64 - 1).max(0) as u64)
                } else {
                    (format!("k{:03}", rng.below(50)).into_bytes(), rng.below(80))
                };
                cur.seek(&k, s).unwrap();
                pos = flat.iter().position(|e| !ik_lt((&e.0, e.1), (&k, s))).unwrap_or(n);
                prog.push(format!("s:{}:{}", hex(&k), s));
            }
            3 => {
                cur.next();
                pos += 1;
                prog.push("n".into());
            }
            _ => {
                cur.prev();
                pos = if pos == 0 { n } else { pos - 1 };
                prog.push("p".into());
            }
        }
        let got = if cur.is_valid() { cur.current() } else { None };
        let want = flat.get(pos).cloned();
        rep.count(if want.is_some() { "c04.level.step.valid" } else { "c04.level.step.invalid" });
        outs.push(got.as_ref().map_or("-".to_string(), ent_full));
        if got != want {
            rep.fail(
                "oracle",
                "c04:level-iterator-position-wrong",
                &format!(
                    "files {} program [{}]: the level iterator is at {:?}, a cursor over the concatenation of the files is at {:?}",
                    children_tok(&files),
                    prog.join(","),
                    got.as_ref().map(|e| (hex(&e.0), e.1)),
                    want.as_ref().map(|e| (hex(&e.0), e.1))
                ),
                &line,
            );
            return;
        }
    }
    let ans = drv.ask(&format!("level.run {} {}", children_tok(&files), prog.join(",")));
    if ans != "no-model" && ans != outs.join(" ") {
        rep.drift.push(format!("level iterator program differs from the model :: {line}"));
        rep.count("model_drift");
    }
}

// ---------------------------------------------------------------- (b) database iterator

fn db_case(seed: u64, drv: &mut Drv, rep: &mut Report) {
    let mut rng = Prng::new(seed);
    let line = format!("c04db seed={seed}");
    let cfg = Cfg::gen(&mut rng);
    let fs = SimFs::new();
    let db = match DB::open(cfg.options(&fs)) {
        Ok(d) => d,
        Err(e) => {
            rep.fail("oracle", "c04:open-failed", &format!("{e}"), &line);
            return;
        }
    };
    let space = *rng.pick(&[6u64, 12, 24, 60]);
    let mut oracle: BTreeMap<Vec<u8>, Vec<u8>> = BTreeMap::new();
    let mut snap: Option<(raindb::Snapshot, BTreeMap<Vec<u8>, Vec<u8>>)> = None;
    let nops = rng.range(10, 120);
    let snap_at = rng.below(nops);
    for i in 0..nops {
        if i == snap_at && rng.chance(1, 2) {
            snap = Some((db.get_snapshot(), oracle.clone()));
        }
        let r = rng.below(100);
        let op = if r < 50 {
            Op::Put(gen_key(&mut rng, space), gen_val(&mut rng, false))
        } else if r < 75 {
            Op::Del(gen_key(&mut rng, space))
        } else if r < 85 {
            Op::Fill(rng.below(30) as u32, rng.range(3, 20) as u32, *rng.pick(&[10u32, 60, 200]))
        } else if r < 92 {
            Op::Compact(None, None)
        } else {
            Op::Idle
        };
        match op {
            Op::Put(k, v) => {
                if db.put(Default::default(), k.clone(), v.clone()).is_ok() {
                    oracle.insert(k, v);
                }
            }
            Op::Del(k) => {
                if db.delete(Default::default(), k.clone()).is_ok() {
                    oracle.remove(&k);
                }
            }
            Op::Fill(s, n, l) => {
                for j in 0..n {
                    let k = format!("fill-{:05}", s + j).into_bytes();
                    let v = vec![b'f'; l as usize];
                    if db.put(Default::default(), k.clone(), v.clone()).is_ok() {
                        oracle.insert(k, v);
                    }
                }
            }
            Op::Compact(_, _) => {
                if rng.chance(1, 3) {
                    db.compact_range(None..None);
                }
            }
            _ => {
                db.verif_wait_idle(std::time::Duration::from_secs(20));
            }
        }
    }
    // a long run of hidden versions of one user key (130-300 overwrites kept alive by a snapshot
    // taken before them), so that stepping over a key means stepping over hundreds of records
    let mut hold: Option<raindb::Snapshot> = None;
    // the key with the long run: the cursor program seeks it and its successors again and again
    // (a run of versions that straddles a table-file boundary of a deeper level, the level's
    // iterator standing in the later file, then a seek back to the key - seeded change C04i)
    let mut hot: Option<Vec<u8>> = None;
    if rng.chance(1, 3) {
        hold = Some(db.get_snapshot());
        let k = if !oracle.is_empty() && rng.chance(3, 4) { oracle.keys().nth(rng.below(oracle.len() as u64) as usize).unwrap().clone() } else { gen_key(&mut rng, space) };
        let nver = rng.range(130, 300);
        for j in 0..nver {
            if rng.chance(1, 12) {
                if db.delete(Default::default(), k.clone()).is_ok() {
                    oracle.remove(&k);
                }
            } else {
                let v = format!("h{j}").into_bytes();
                if db.put(Default::default(), k.clone(), v.clone()).is_ok() {
                    oracle.insert(k.clone(), v);
                }
            }
        }
        rep.count("c04.db.long-run-of-hidden-versions");
        if rng.chance(1, 2) {
            // push the run into a deeper level while the snapshot keeps every version alive: the
            // compaction's outputs are cut at max_file_size inside the run
            db.compact_range(None..None);
            rep.count("c04.db.long-run-compacted-into-deeper-levels");
        }
        hot = Some(k);
    }
    db.verif_wait_idle(std::time::Duration::from_secs(20));
    let st = db.verif_state();
    // sources for the model
    let mut children: Vec<Vec<Entry>> = vec![st.mem.clone()];
    if let Some(imm) = &st.imm {
        children.push(imm.clone());
    }
    let mut shape = vec![];
    for (lvl, files) in st.levels.iter().enumerate() {
        let mut level_entries = vec![];
        for f in files {
            match db.verif_table_entries(f.number) {
                Ok(es) => {
                    if lvl == 0 {
                        children.push(es);
                    } else {
                        level_entries.extend(es);
                    }
                }
                Err(e) => {
                    rep.fail("oracle", "c04:table-unreadable", &e, &line);
                    return;
                }
            }
        }
        if lvl > 0 && !level_entries.is_empty() {
            children.push(level_entries);
        }
        shape.push(files.len());
    }
    let use_snap = snap.is_some() && rng.chance(2, 3);
    let (ro, want_map, snap_seq) = if use_snap {
        let (s, m) = snap.as_ref().unwrap();
        (ReadOptions { fill_cache: true, snapshot: Some(s.clone()) }, m.clone(), st.snapshots.first().copied().unwrap_or(st.last_sequence))
    } else {
        (ReadOptions::default(), oracle.clone(), st.last_sequence)
    };
    let want: Vec<(Vec<u8>, Vec<u8>)> = want_map.into_iter().collect();
    let n = want.len();
    let nsrc = children.iter().filter(|c| !c.is_empty()).count();
    rep.case(&format!("{line} shape={:?} mem={} sources={} visible={}", shape, st.mem.len(), nsrc, n), nsrc >= 2 && n >= 2);
    rep.count(&format!("c04.db.sources.{}", nsrc.min(6)));
    if use_snap {
        rep.count("c04.db.at-snapshot");
    }
    let mut it = match db.new_iterator(ro) {
        Ok(i) => i,
        Err(e) => {
            rep.fail("oracle", "c04:new-iterator-failed", &format!("{e}"), &line);
            return;
        }
    };
    let len = rng.range(10, 200) as usize;
    let mut pos = n; // invalid
    let mut prog: Vec<String> = vec![];
    let mut outs: Vec<String> = vec![];
    let mut bias_back = false;
    for step in 0..len {
        if step % 13 == 0 {
            bias_back = rng.chance(1, 2);
        }
        let valid = pos < n;
        let r = rng.below(20);
        let op: u8 = if !valid {
            *rng.pick(&[0u8, 1, 2, 2])
        } else if r < 1 {
            0
        } else if r < 2 {
            1
        } else if r < 4 || (hot.is_some() && r < 8) {
            2
        } else if (r < 12) != bias_back {
            3
        } else {
            4
        };
        match op {
            0 => {
                it.seek_to_first().unwrap();
                pos = 0;
                prog.push("f".into());
            }
            1 => {
                it.seek_to_last().unwrap();
                pos = n.saturating_sub(1);
                prog.push("l".into());
            }
            2 => {
                let k = match &hot {
                    Some(h) if rng.chance(2, 3) => {
                        // the hot key, or a visible key a little behind it
                        let later: Vec<&(Vec<u8>, Vec<u8>)> = want.iter().filter(|e| e.0 > *h).take(4).collect();
                        if later.is_empty() || rng.chance(1, 2) { h.clone() } else { rng.pick(&later).0.clone() }
                    }
                    _ => {
                        if n > 0 && rng.chance(1, 2) {
                            rng.pick(&want).0.clone()
                        } else {
                            gen_key(&mut rng, space)
                        }
                    }
                };
                it.seek(&k).unwrap();
                pos = want.iter().position(|e| e.0 >= k).unwrap_or(n);
                prog.push(format!("s:{}", hex(&k)));
            }
            3 => {
                it.next();
                pos += 1;
                prog.push("n".into());
            }
            _ => {
                it.prev();
                pos = if pos == 0 { n } else { pos - 1 };
                prog.push("p".into());
            }
        }
        let got: Option<(Vec<u8>, Vec<u8>)> = if it.is_valid() { it.current().map(|(k, v)| (k.clone(), v.clone())) } else { None };
        let w = want.get(pos).cloned();
        rep.count(if w.is_some() { "c04.db.step.valid" } else { "c04.db.step.invalid" });
        outs.push(got.as_ref().map_or("-".to_string(), |(k, v)| format!("{}={}", hex(k), hex(v))));
        if got != w {
            rep.fail(
                "oracle",
                "c04:iterator-position-wrong",
                &format!(
                    "sources {} snapshot {} program [{}]: the database iterator shows {:?}, a sorted map of the visible pairs shows {:?}",
                    children_tok(&children),
                    snap_seq,
                    prog.join(","),
                    got.as_ref().map(|(k, _)| hex(k)),
                    w.as_ref().map(|(k, _)| hex(k))
                ),
                &line,
            );
            break;
        }
    }
    drop(it);
    let ans = drv.ask(&format!("dbiter.run {} {} {}", children_tok(&children), snap_seq, prog.join(",")));
    if ans != "no-model" && ans != outs.join(" ") {
        rep.drift.push(format!("database iterator program differs from the model (snapshot {snap_seq}, program {}) :: {line}", prog.join(",")));
        rep.count("model_drift");
    }
    if let Some((s, _)) = snap {
        db.release_snapshot(s);
    }
    if let Some(s) = hold {
        db.release_snapshot(s);
    }
    let _ = std::panic::catch_unwind(std::panic::AssertUnwindSafe(move || drop(db)));
}

enum Job {
    Level(u64),
    Merge(u64),
    Db(u64),
}

fn job(j: &Job, drv: &mut Drv, rep: &mut Report) {
    match j {
        Job::Merge(s) => merge_case(*s, drv, rep),
        Job::Level(s) => level_case(*s, drv, rep),
        Job::Db(s) => db_case(*s, drv, rep),
    }
}

pub fn rule() -> &'static str {
    "(a') FilesEntryIterator over 1-6 real table files cut out of one sorted run (cuts also inside the versions of one user key), programs of 10-120 operations with seeks biased to the keys next to the file boundaries, against a cursor over the concatenation and the Lean model; (a) MergingIterator over 1-6 memtable-backed children with globally distinct internal keys, cursor programs of 10-200 operations with alternating forward/backward bias (next/prev only when valid, as DatabaseIterator calls it); (b) DB::new_iterator after a generated history (puts/deletes/fills/compactions on tiny memtable and file sizes, so one user key has versions in the memtable, several level-0 files and deeper levels, with tombstone runs), at the latest state or at a snapshot, programs of seek/first/last/next/prev; every step compared with a sorted-map cursor and the whole program with the Lean model. Non-trivial = at least two sources and two visible entries; distinct by seed (the case is regenerated from its seed)."
}

pub fn run(tier: &str, seed: u64, drv_path: &str, replay: Option<&str>, _corpus: &str) -> Report {
    let mut rep = Report::new("c04", rule());
    if let Some(line) = replay {
        let mut drv = Drv::spawn(drv_path);
        let s: Option<u64> = line.split_whitespace().find_map(|t| t.strip_prefix("seed=")).and_then(|v| v.parse().ok());
        match (line.split_whitespace().next(), s) {
            (Some("c04merge"), Some(s)) => merge_case(s, &mut drv, &mut rep),
            (Some("c04level"), Some(s)) => level_case(s, &mut drv, &mut rep),
            (Some("c04db"), Some(s)) => db_case(s, &mut drv, &mut rep),
            _ => rep.fail("oracle", "c04:bad-replay", "cannot parse replay case", line),
        }
        rep.model_requests = drv.requests;
        return rep;
    }
    let thorough = tier == "thorough";
    let mut rng = Prng::new(seed ^ 0xC04);
    let mut jobs = vec![];
    for _ in 0..(if thorough { 20000 } else { 1500 }) {
        jobs.push(Job::Merge(rng.next()));
    }
    for _ in 0..(if thorough { 4000 } else { 300 }) {
        jobs.push(Job::Db(rng.next()));
    }
    for _ in 0..(if thorough { 8000 } else { 800 }) {
        jobs.push(Job::Level(rng.next()));
    }
    crate::par::run_jobs(jobs, drv_path, &mut rep, job);
    rep.rule = rule().to_string();
    rep
}
