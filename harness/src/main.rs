//! `rainverif <component> --tier quick|thorough --seed N --drv <raindrv> --out <file> [--replay-case "<line>"]`

mod c04;
mod builder;
mod c05;
mod disk;
mod codec;
mod lru;
mod fnames;
mod pick;
mod score;
mod seekcheck;
mod binsearch;
mod c09;
mod sched;
mod c12;
mod c13;
mod c14;
mod c17;
mod corrupt;
mod crash;
mod faults;
mod dbsim;
mod lsm;
mod shard;
mod drv;
mod par;
mod prng;
mod report;
mod simfs;

use std::panic;

fn arg(args: &[String], name: &str) -> Option<String> {
    args.iter().position(|a| a == name).and_then(|i| args.get(i + 1).cloned())
}

fn main() {
    let args: Vec<String> = std::env::args().collect();
    if args.len() < 2 {
        eprintln!("usage: rainverif <component> --tier T --seed N --drv PATH --out FILE [--replay-case LINE]");
        std::process::exit(2);
    }
    let comp = args[1].clone();
    let tier = arg(&args, "--tier").unwrap_or_else(|| "quick".into());
    let seed: u64 = arg(&args, "--seed").and_then(|s| s.parse().ok()).unwrap_or(1);
    let drv = arg(&args, "--drv").unwrap_or_else(|| "/verif/lean/.lake/build/bin/raindrv".into());
    let out = arg(&args, "--out");
    // a case too long for the command line is passed as @file
    let replay = arg(&args, "--replay-case").map(|r| match r.strip_prefix('@') {
        Some(path) => std::fs::read_to_string(path).map(|t| t.trim_end().to_string()).unwrap_or(r.clone()),
        None => r,
    });
    let corpus = arg(&args, "--corpus").unwrap_or_else(|| "/verif/corpus".into());
    let rep = match comp.as_str() {
        "binsearch" => binsearch::run(&tier, seed, replay.as_deref(), &drv),
        "c12" => c12::run(&tier, seed, &drv, replay.as_deref(), &format!("{corpus}/C12")),
        "c04" => c04::run(&tier, seed, &drv, replay.as_deref(), &format!("{corpus}/C04")),
        "c13" => c13::run(&tier, seed, &drv, replay.as_deref(), &format!("{corpus}/C13")),
        "c14" => c14::run(&tier, seed, &drv, replay.as_deref(), &format!("{corpus}/C14")),
        "lsm" => {
            let prop = arg(&args, "--property").unwrap_or_else(|| "C01".into());
            let sh = shard::parse_shard(&args);
            if sh.is_some() || replay.is_some() || std::env::var("VERIF_NOSHARD").is_ok() {
                lsm::run(&tier, seed, &prop, replay.as_deref(), &format!("{corpus}/lsm"), sh, &drv)
            } else {
                let mut rep = report::Report::new("lsm", lsm::rule());
                let n = par::threads();
                let pass: Vec<String> = vec!["--tier".into(), tier.clone(), "--seed".into(), seed.to_string(), "--property".into(), prop.clone(), "--corpus".into(), corpus.clone(), "--drv".into(), drv.clone()];
                let secs = if tier == "thorough" { 3000 } else { 420 };
                shard::run_sharded(&mut rep, "lsm", &pass, n, std::time::Duration::from_secs(secs), "c09:operation-hangs");
                rep.rule = lsm::rule().to_string();
                rep
            }
        }
        "c05" | "c06" => {
            let sh = shard::parse_shard(&args);
            let only = arg(&args, "--only").or_else(|| if comp == "c06" { Some("batch-parked,group-commit".to_string()) } else { None });
            if sh.is_some() || replay.is_some() || std::env::var("VERIF_NOSHARD").is_ok() {
                c05::run(&tier, seed, replay.as_deref(), sh, only.as_deref(), &drv, &format!("{corpus}/C05"))
            } else {
                let mut rep = report::Report::new(&comp, c05::rule());
                let n = par::threads().min(8);
                let mut pass: Vec<String> = vec!["--tier".into(), tier.clone(), "--seed".into(), seed.to_string(), "--drv".into(), drv.clone(), "--corpus".into(), corpus.clone()];
                if let Some(o) = &only {
                    pass.push("--only".into());
                    pass.push(o.clone());
                }
                let secs = if tier == "thorough" { 3000 } else { 500 };
                shard::run_sharded(&mut rep, "c05", &pass, n, std::time::Duration::from_secs(secs), "c09:operation-hangs");
                rep.rule = c05::rule().to_string();
                rep.component = comp.clone();
                rep
            }
        }
        "c09" => {
            let sh = shard::parse_shard(&args);
            if sh.is_some() || replay.is_some() || std::env::var("VERIF_NOSHARD").is_ok() {
                c09::run(&tier, seed, replay.as_deref(), sh, &drv)
            } else {
                let mut rep = report::Report::new("c09", c09::rule());
                let n = par::threads().min(8);
                let pass: Vec<String> = vec!["--tier".into(), tier.clone(), "--seed".into(), seed.to_string(), "--drv".into(), drv.clone()];
                let secs = if tier == "thorough" { 3000 } else { 600 };
                shard::run_sharded(&mut rep, "c09", &pass, n, std::time::Duration::from_secs(secs), "c09:operation-hangs");
                rep.rule = c09::rule().to_string();
                rep
            }
        }
        "c17" => c17::run(&tier, seed, replay.as_deref(), &drv),
        "lru" => lru::run(&tier, seed, replay.as_deref(), &drv),
        "fnames" => fnames::run(&tier, seed, replay.as_deref(), &drv),
        "codec" => codec::run(&tier, seed, replay.as_deref(), &drv),
        "pick" => pick::run(&tier, seed, replay.as_deref(), &drv),
        "score" => score::run(&tier, seed, replay.as_deref(), &drv),
        "builder" => builder::run(&tier, seed, replay.as_deref(), &drv),
        "disk" => disk::run(&tier, seed, replay.as_deref()),
        "c15" => {
            let sh = shard::parse_shard(&args);
            if sh.is_some() || replay.is_some() || std::env::var("VERIF_NOSHARD").is_ok() {
                corrupt::run(&tier, seed, replay.as_deref(), sh)
            } else {
                let mut rep = report::Report::new("c15", corrupt::rule());
                let n = par::threads();
                let pass: Vec<String> = vec!["--tier".into(), tier.clone(), "--seed".into(), seed.to_string()];
                let secs = if tier == "thorough" { 3000 } else { 500 };
                shard::run_sharded(&mut rep, "c15", &pass, n, std::time::Duration::from_secs(secs), "c15:hang-or-abort-on-corrupted-file");
                rep.rule = corrupt::rule().to_string();
                rep
            }
        }
        "c08" => {
            let sh = shard::parse_shard(&args);
            let cdir = format!("{corpus}/C08");
            if sh.is_some() || replay.is_some() || std::env::var("VERIF_NOSHARD").is_ok() {
                faults::run(&tier, seed, replay.as_deref(), &cdir, sh, &drv)
            } else {
                let mut rep = report::Report::new("c08", faults::rule());
                let n = par::threads();
                let pass: Vec<String> = vec!["--tier".into(), tier.clone(), "--seed".into(), seed.to_string(), "--corpus".into(), corpus.clone(), "--drv".into(), drv.clone()];
                let secs = if tier == "thorough" { 3000 } else { 500 };
                shard::run_sharded(&mut rep, "c08", &pass, n, std::time::Duration::from_secs(secs), "c09:operation-hangs");
                rep.rule = faults::rule().to_string();
                rep
            }
        }
        "c02" | "c16" => {
            let torn = comp == "c16";
            let sh = shard::parse_shard(&args);
            let cdir = format!("{corpus}/{}", if torn { "C16" } else { "C02" });
            if sh.is_some() || replay.is_some() || std::env::var("VERIF_NOSHARD").is_ok() {
                crash::run(torn, &tier, seed, replay.as_deref(), &cdir, sh, &drv)
            } else {
                let mut rep = report::Report::new(&comp, crash::rule(torn));
                let n = par::threads();
                let pass: Vec<String> = vec!["--tier".into(), tier.clone(), "--seed".into(), seed.to_string(), "--corpus".into(), corpus.clone(), "--drv".into(), drv.clone()];
                let secs = if tier == "thorough" { 3000 } else { 500 };
                shard::run_sharded(&mut rep, &comp, &pass, n, std::time::Duration::from_secs(secs), "c09:operation-hangs");
                rep.rule = crash::rule(torn).to_string();
                rep
            }
        }
        other => {
            eprintln!("unknown component {other}");
            std::process::exit(2);
        }
    };
    let _ = panic::take_hook();
    let js = if args.iter().any(|a| a == "--shard") { rep.to_lines() } else { rep.to_json() };
    match out {
        Some(p) => std::fs::write(p, js).unwrap(),
        None => println!("{js}"),
    }
}
