//! C17 — one owner at a time: a database cannot be opened or destroyed while open.
//! Uses the real disk-backed `TmpFileSystem` (OS `flock`).

use std::sync::{Arc, Barrier};

use raindb::fs::TmpFileSystem;
use raindb::{DbOptions, ReadOptions, WriteOptions, DB};

use crate::dbsim::with_deadline;
use crate::prng::Prng;
use crate::report::Report;

type Fail = (String, String);

fn opts(fs: &Arc<TmpFileSystem>, reuse: bool) -> DbOptions {
    DbOptions {
        db_path: fs.get_root_path().join("db").to_string_lossy().to_string(),
        filesystem_provider: fs.clone(),
        create_if_missing: true,
        max_memtable_size: 2048,
        reuse_log_files: reuse,
        ..DbOptions::default()
    }
}

fn scenario(seed: u64, drv_path: String) -> Vec<Fail> {
    let mut rng = Prng::new(seed);
    let mut fails = vec![];
    // (action token for the model, did it succeed in the implementation)
    let mut observed: Vec<(String, bool)> = vec![("o0".to_string(), true)];
    let base = std::env::temp_dir().join(format!("rainverif-c17-{}-{}", std::process::id(), seed));
    let _ = std::fs::create_dir_all(&base);
    let fs = Arc::new(TmpFileSystem::new(Some(&base)));
    let reuse = rng.chance(1, 2);
    let owner = match DB::open(opts(&fs, reuse)) {
        Ok(d) => d,
        Err(e) => return vec![("c17:first-open-failed".into(), e.to_string())],
    };
    let mut expect = std::collections::BTreeMap::new();
    for i in 0..rng.range(1, 40) {
        let (k, v) = (format!("k{i:03}").into_bytes(), vec![b'v'; rng.range(1, 60) as usize]);
        owner.put(WriteOptions::default(), k.clone(), v.clone()).unwrap();
        expect.insert(k, v);
    }
    // several threads try to open / destroy while the owner is alive
    let nthreads = rng.range(2, 4) as usize;
    let barrier = Arc::new(Barrier::new(nthreads));
    let mut hs = vec![];
    for t in 0..nthreads {
        let (fs2, b) = (fs.clone(), barrier.clone());
        let destroy = t % 2 == 1;
        hs.push(std::thread::spawn(move || {
            b.wait();
            if destroy {
                match DB::destroy_database(opts(&fs2, reuse)) {
                    Ok(()) => Some("destroy_database succeeded while the database was open".to_string()),
                    Err(_) => None,
                }
            } else {
                match DB::open(opts(&fs2, reuse)) {
                    Ok(_d) => Some("a second DB::open succeeded while the database was open".to_string()),
                    Err(_) => None,
                }
            }
        }));
    }
    for (t, h) in hs.into_iter().enumerate() {
        let tok = if t % 2 == 1 { "d".to_string() } else { format!("o{}", t + 1) };
        match h.join() {
            Ok(Some(msg)) => {
                observed.push((tok, true));
                fails.push((if msg.starts_with("destroy") { "c17:destroy-while-open".into() } else { "c17:second-open-succeeds".into() }, msg))
            }
            Ok(None) => observed.push((tok, false)),
            Err(_) => fails.push(("c17:panic".into(), "an open/destroy attempt panicked".into())),
        }
    }
    // the running instance is undisturbed
    for (k, v) in &expect {
        match owner.get(ReadOptions::default(), k) {
            Ok(g) if &g == v => {}
            other => {
                fails.push(("c17:owner-disturbed".into(), format!("after the failed attempts get = {:?}", other.map(|x| x.len()))));
                break;
            }
        }
    }
    if let Err(e) = owner.put(WriteOptions::default(), b"after".to_vec(), b"x".to_vec()) {
        fails.push(("c17:owner-disturbed".into(), format!("put after the failed attempts failed: {e}")));
    }
    expect.insert(b"after".to_vec(), b"x".to_vec());
    if rng.chance(1, 2) {
        owner.verif_wait_idle(std::time::Duration::from_secs(20));
        drop(owner);
    } else {
        // close while a flush is in flight: the compaction thread is parked while it builds the
        // table; until it has finished (and the close with it) the path still has an owner
        owner.verif_wait_idle(std::time::Duration::from_secs(20));
        crate::sched::reset();
        let gate = crate::sched::arm("bg", "bg:building-table", 1);
        let mut i = 0;
        while !gate.wait_parked(std::time::Duration::from_millis(1)) && i < 400 {
            let (k, v) = (format!("late{i:03}").into_bytes(), vec![b'w'; 64]);
            if owner.put(WriteOptions::default(), k.clone(), v.clone()).is_ok() {
                expect.insert(k, v);
            }
            i += 1;
        }
        let parked = gate.wait_parked(std::time::Duration::from_secs(5));
        let closer = std::thread::spawn(move || drop(owner));
        if parked {
            // give the close time to get as far as it can
            std::thread::sleep(std::time::Duration::from_millis(rng.range(5, 40)));
            for round in 0..3 {
                if closer.is_finished() {
                    fails.push(("c17:close-returns-before-background-work-ended".into(), "dropping the DB returned while its compaction thread was still building a table".into()));
                    break;
                }
                match DB::open(opts(&fs, reuse)) {
                    Ok(_d) => {
                        observed.push((format!("o{}", 5 + round), true));
                        fails.push(("c17:open-while-closing".into(), "DB::open succeeded while the previous owner was still closing (its compaction thread was in the middle of a flush)".into()));
                        break;
                    }
                    Err(_) => observed.push((format!("o{}", 5 + round), false)),
                }
                match DB::destroy_database(opts(&fs, reuse)) {
                    Ok(()) => {
                        observed.push(("d".to_string(), true));
                        fails.push(("c17:destroy-while-closing".into(), "destroy_database acted while the previous owner was still closing (its compaction thread was in the middle of a flush)".into()));
                        break;
                    }
                    Err(_) => observed.push(("d".to_string(), false)),
                }
            }
        }
        gate.release();
        if closer.join().is_err() {
            fails.push(("c17:panic".into(), "closing the database panicked".into()));
        }
        crate::sched::reset();
        if !fails.is_empty() {
            drop(fs);
            let _ = std::fs::remove_dir_all(&base);
            return fails;
        }
    }
    observed.push(("c0".to_string(), true));
    // an open that FAILS half-way (CURRENT is missing and the database may not be created) must not
    // keep the lock: the racing opens below would all be refused
    if rng.chance(1, 3) {
        use raindb::fs::FileSystem;
        let cur = fs.get_root_path().join("db").join("CURRENT");
        let bak = fs.get_root_path().join("db").join("CURRENT.away");
        if fs.rename(&cur, &bak).is_ok() {
            let mut o = opts(&fs, reuse);
            o.create_if_missing = false;
            match DB::open(o) {
                Ok(_d) => fails.push(("c17:open-without-current-succeeds".into(), "DB::open with create_if_missing=false succeeded although CURRENT is missing".into())),
                Err(_) => {}
            }
            let _ = fs.rename(&bak, &cur);
        }
    }
    // after close: racing opens, exactly one wins
    let nrace = rng.range(2, 5) as usize;
    let barrier = Arc::new(Barrier::new(nrace));
    let mut hs = vec![];
    for _ in 0..nrace {
        let (fs2, b) = (fs.clone(), barrier.clone());
        hs.push(std::thread::spawn(move || {
            b.wait();
            DB::open(opts(&fs2, reuse)).ok()
        }));
    }
    let mut winners = vec![];
    for h in hs {
        match h.join() {
            Ok(Some(d)) => winners.push(d),
            Ok(None) => {}
            Err(_) => fails.push(("c17:panic".into(), "a racing open panicked".into())),
        }
    }
    // the model serves the racing attempts in some order: the first wins, the others fail
    for r in 0..nrace {
        observed.push((format!("o{}", 10 + r), r == 0 && winners.len() == 1));
    }
    if drv_path != "none" {
        let mut drv = crate::drv::Drv::spawn(&drv_path);
        let ans = drv.ask(&format!("proto.lock {}", observed.iter().map(|x| x.0.as_str()).collect::<Vec<_>>().join(" ")));
        let want = observed.iter().map(|x| if x.1 { "1" } else { "0" }).collect::<Vec<_>>().join(" ");
        if ans != want && winners.len() == 1 && fails.is_empty() {
            fails.push(("c17:model-drift".into(), format!("lock protocol model predicts [{ans}], implementation did [{want}] for actions {:?}", observed.iter().map(|x| x.0.clone()).collect::<Vec<_>>())));
        }
    }
    if winners.len() != 1 {
        fails.push(("c17:racing-opens".into(), format!("{} of {nrace} racing opens succeeded after the owner closed (expected exactly one)", winners.len())));
    }
    if let Some(w) = winners.first() {
        for (k, v) in &expect {
            match w.get(ReadOptions::default(), k) {
                Ok(g) if &g == v => {}
                other => {
                    fails.push(("c17:contents-after-race".into(), format!("the winner of the race reads {:?}", other.map(|x| x.len()))));
                    break;
                }
            }
        }
    }
    for w in winners {
        w.verif_wait_idle(std::time::Duration::from_secs(20));
        drop(w);
    }
    // destroy now works and refuses nothing
    if rng.chance(1, 2) {
        if let Err(e) = DB::destroy_database(opts(&fs, reuse)) {
            fails.push(("c17:destroy-after-close-fails".into(), format!("destroy_database after close failed: {e}")));
        }
    }
    drop(fs);
    let _ = std::fs::remove_dir_all(&base);
    fails
}

/// `TmpFileSystem` with a gate on the creation of table files: lets `pass` creations through and
/// holds the next one until released (30 s at most).
struct GateFs {
    inner: Arc<TmpFileSystem>,
    /// table-file creations to let through before blocking; `usize::MAX` = disarmed
    until_block: std::sync::atomic::AtomicUsize,
    reached: std::sync::atomic::AtomicBool,
    open: std::sync::atomic::AtomicBool,
}

impl raindb::fs::FileSystem for GateFs {
    fn get_name(&self) -> String {
        "GateFs".to_string()
    }
    fn create_dir(&self, path: &std::path::Path) -> std::io::Result<()> {
        self.inner.create_dir(path)
    }
    fn create_dir_all(&self, path: &std::path::Path) -> std::io::Result<()> {
        self.inner.create_dir_all(path)
    }
    fn list_dir(&self, path: &std::path::Path) -> std::io::Result<Vec<std::path::PathBuf>> {
        self.inner.list_dir(path)
    }
    fn open_file(&self, path: &std::path::Path) -> std::io::Result<Box<dyn raindb::fs::ReadonlyRandomAccessFile>> {
        self.inner.open_file(path)
    }
    fn rename(&self, from: &std::path::Path, to: &std::path::Path) -> std::io::Result<()> {
        self.inner.rename(from, to)
    }
    fn create_file(&self, path: &std::path::Path, append: bool) -> std::io::Result<Box<dyn raindb::fs::RandomAccessFile>> {
        use std::sync::atomic::Ordering::SeqCst;
        if path.extension().map_or(false, |e| e == "rdb") {
            let left = self.until_block.load(SeqCst);
            if left != usize::MAX {
                if left == 0 {
                    self.until_block.store(usize::MAX, SeqCst);
                    self.reached.store(true, SeqCst);
                    let deadline = std::time::Instant::now() + std::time::Duration::from_secs(30);
                    while !self.open.load(SeqCst) && std::time::Instant::now() < deadline {
                        std::thread::sleep(std::time::Duration::from_millis(1));
                    }
                } else {
                    self.until_block.store(left - 1, SeqCst);
                }
            }
        }
        self.inner.create_file(path, append)
    }
    fn remove_file(&self, path: &std::path::Path) -> std::io::Result<()> {
        self.inner.remove_file(path)
    }
    fn remove_dir(&self, path: &std::path::Path) -> std::io::Result<()> {
        self.inner.remove_dir(path)
    }
    fn remove_dir_all(&self, path: &std::path::Path) -> std::io::Result<()> {
        self.inner.remove_dir_all(path)
    }
    fn get_file_size(&self, path: &std::path::Path) -> std::io::Result<u64> {
        self.inner.get_file_size(path)
    }
    fn is_dir(&self, path: &std::path::Path) -> std::io::Result<bool> {
        self.inner.is_dir(path)
    }
    fn lock_file(&self, path: &std::path::Path) -> std::io::Result<raindb::fs::FileLock> {
        self.inner.lock_file(path)
    }
}

/// The owner is closed while its background thread is inside a TABLE compaction and an immutable
/// memtable is pending: the compaction loop flushes the memtable first and signals the condition
/// variable although the task is not finished; the close must keep waiting (and keep the lock)
/// until the task has ended. Until then nobody else may open or destroy the database.
/// a filesystem that parks the first removal (`remove_dir_all` / `remove_file` / `remove_dir`) of
/// an armed thread until it is released: `destroy_database` is then stopped in the middle of its
/// deletion phase
struct RemovalGateFs {
    inner: Arc<TmpFileSystem>,
    armed: std::sync::atomic::AtomicBool,
    parked: std::sync::atomic::AtomicBool,
    release: std::sync::atomic::AtomicBool,
}

impl RemovalGateFs {
    fn gate(&self) {
        use std::sync::atomic::Ordering::SeqCst;
        if self.armed.swap(false, SeqCst) {
            self.parked.store(true, SeqCst);
            let t0 = std::time::Instant::now();
            while !self.release.load(SeqCst) && t0.elapsed() < std::time::Duration::from_secs(15) {
                std::thread::sleep(std::time::Duration::from_millis(1));
            }
        }
    }
}

impl raindb::fs::FileSystem for RemovalGateFs {
    fn get_name(&self) -> String {
        self.inner.get_name()
    }
    fn create_dir(&self, path: &std::path::Path) -> std::io::Result<()> {
        self.inner.create_dir(path)
    }
    fn create_dir_all(&self, path: &std::path::Path) -> std::io::Result<()> {
        self.inner.create_dir_all(path)
    }
    fn list_dir(&self, path: &std::path::Path) -> std::io::Result<Vec<std::path::PathBuf>> {
        self.inner.list_dir(path)
    }
    fn open_file(&self, path: &std::path::Path) -> std::io::Result<Box<dyn raindb::fs::ReadonlyRandomAccessFile>> {
        self.inner.open_file(path)
    }
    fn rename(&self, from: &std::path::Path, to: &std::path::Path) -> std::io::Result<()> {
        self.inner.rename(from, to)
    }
    fn create_file(&self, path: &std::path::Path, append: bool) -> std::io::Result<Box<dyn raindb::fs::RandomAccessFile>> {
        self.inner.create_file(path, append)
    }
    fn remove_file(&self, path: &std::path::Path) -> std::io::Result<()> {
        self.gate();
        self.inner.remove_file(path)
    }
    fn remove_dir(&self, path: &std::path::Path) -> std::io::Result<()> {
        self.gate();
        self.inner.remove_dir(path)
    }
    fn remove_dir_all(&self, path: &std::path::Path) -> std::io::Result<()> {
        self.gate();
        self.inner.remove_dir_all(path)
    }
    fn get_file_size(&self, path: &std::path::Path) -> std::io::Result<u64> {
        self.inner.get_file_size(path)
    }
    fn is_dir(&self, path: &std::path::Path) -> std::io::Result<bool> {
        self.inner.is_dir(path)
    }
    fn lock_file(&self, path: &std::path::Path) -> std::io::Result<raindb::fs::FileLock> {
        self.inner.lock_file(path)
    }
}

/// `destroy_database` is the owner while it deletes: an open (or a second destroy) arriving in the
/// middle of the deletion phase must fail, and must not be left with a half-deleted database
fn open_during_destroy(seed: u64) -> Vec<Fail> {
    use std::sync::atomic::Ordering::SeqCst;
    let mut rng = Prng::new(seed);
    let mut fails = vec![];
    let base = std::env::temp_dir().join(format!("rainverif-c17d-{}-{}", std::process::id(), seed));
    let _ = std::fs::create_dir_all(&base);
    let tmp = Arc::new(TmpFileSystem::new(Some(&base)));
    let gate = Arc::new(RemovalGateFs { inner: tmp.clone(), armed: false.into(), parked: false.into(), release: false.into() });
    let reuse = rng.chance(1, 2);
    let mk = |fs: Arc<RemovalGateFs>| DbOptions {
        db_path: tmp.get_root_path().join("db").to_string_lossy().to_string(),
        filesystem_provider: fs,
        create_if_missing: true,
        max_memtable_size: 2048,
        reuse_log_files: reuse,
        ..DbOptions::default()
    };
    {
        let db = match DB::open(mk(gate.clone())) {
            Ok(d) => d,
            Err(e) => return vec![("c17:first-open-failed".into(), e.to_string())],
        };
        for i in 0..rng.range(1, 60) {
            let _ = db.put(WriteOptions::default(), format!("k{i:03}").into_bytes(), vec![b'v'; rng.range(1, 80) as usize]);
        }
    }
    gate.armed.store(true, SeqCst);
    let (g2, o2) = (gate.clone(), mk(gate.clone()));
    let destroyer = std::thread::spawn(move || {
        let r = DB::destroy_database(o2);
        g2.release.store(true, SeqCst);
        r.is_ok()
    });
    let t0 = std::time::Instant::now();
    while !gate.parked.load(SeqCst) && !destroyer.is_finished() && t0.elapsed() < std::time::Duration::from_secs(10) {
        std::thread::sleep(std::time::Duration::from_millis(1));
    }
    if gate.parked.load(SeqCst) {
        // the destroyer stands inside its deletion phase
        let second_destroy = rng.chance(1, 3);
        if second_destroy {
            if DB::destroy_database(mk(gate.clone())).is_ok() {
                fails.push(("c17:second-destroy-succeeds-during-destroy".into(), "destroy_database succeeded while another destroy_database of the same path was deleting its files: the first one does not hold the lock while it deletes".into()));
            }
        } else {
            match DB::open(mk(gate.clone())) {
                Ok(db) => {
                    let seen = db.get(ReadOptions::default(), b"k000").is_ok();
                    fails.push(("c17:open-succeeds-during-destroy".into(), format!("DB::open succeeded while destroy_database was in the middle of deleting the files of the same database (the new owner {} key k000): destroy does not hold the lock while it deletes", if seen { "could still read" } else { "could not read" })));
                    gate.release.store(true, SeqCst);
                    let _ = destroyer.join();
                    drop(db);
                    let _ = std::fs::remove_dir_all(&base);
                    return fails;
                }
                Err(_) => {}
            }
        }
    }
    gate.release.store(true, SeqCst);
    match destroyer.join() {
        Ok(true) => {}
        Ok(false) => fails.push(("c17:destroy-of-a-closed-database-fails".into(), "destroy_database of a closed database returned an error".into())),
        Err(_) => fails.push(("c17:destroy-panics".into(), "destroy_database panicked".into())),
    }
    // afterwards the path is free: a fresh database can be created there
    match DB::open(mk(gate.clone())) {
        Ok(db) => {
            if db.get(ReadOptions::default(), b"k000").is_ok() {
                fails.push(("c17:destroyed-database-still-has-data".into(), "after destroy_database a new database at the same path still returns old data".into()));
            }
        }
        Err(e) => fails.push(("c17:open-after-destroy-failed".into(), format!("opening a new database after destroy_database failed: {e}"))),
    }
    let _ = std::fs::remove_dir_all(&base);
    fails
}

fn close_during_table_compaction(seed: u64) -> Vec<Fail> {
    use std::sync::atomic::Ordering::SeqCst;
    use std::time::{Duration, Instant};
    let mut rng = Prng::new(seed);
    let mut fails = vec![];
    let base = std::env::temp_dir().join(format!("rainverif-c17t-{}-{}", std::process::id(), seed));
    let _ = std::fs::create_dir_all(&base);
    let tmp = Arc::new(TmpFileSystem::new(Some(&base)));
    let fs = Arc::new(GateFs { inner: tmp.clone(), until_block: std::sync::atomic::AtomicUsize::new(usize::MAX), reached: Default::default(), open: Default::default() });
    let reuse = rng.chance(1, 2);
    let mk = |fs: &Arc<GateFs>| DbOptions {
        db_path: tmp.get_root_path().join("db").to_string_lossy().to_string(),
        filesystem_provider: fs.clone(),
        create_if_missing: true,
        max_memtable_size: 2048,
        reuse_log_files: reuse,
        ..DbOptions::default()
    };
    crate::sched::reset();
    let gate = crate::sched::arm("bg", "bg:compact-loop", 1);
    let owner = match DB::open(mk(&fs)) {
        Ok(d) => d,
        Err(e) => return vec![("c17:first-open-failed".into(), e.to_string())],
    };
    let nkeys = rng.range(8, 24);
    let vlen = rng.range(60, 140) as usize;
    let mut expect = std::collections::BTreeMap::new();
    let mut counter = 0u64;
    let mut put = |owner: &DB, expect: &mut std::collections::BTreeMap<Vec<u8>, Vec<u8>>, counter: &mut u64| {
        let k = format!("key{:02}", *counter % nkeys).into_bytes();
        let mut v = format!("{:08}-", *counter).into_bytes();
        v.resize(vlen, b'v');
        if owner.put(WriteOptions::default(), k.clone(), v.clone()).is_ok() {
            expect.insert(k, v);
        }
        *counter += 1;
    };
    // overwrite the same keys until level 0 fills up and a table compaction starts; never write
    // while an immutable memtable exists, so the writer cannot block behind the parked thread
    let t0 = Instant::now();
    while !gate.wait_parked(Duration::from_millis(0)) && t0.elapsed() < Duration::from_secs(20) {
        if owner.verif_state().imm.is_some() {
            std::thread::sleep(Duration::from_millis(1));
            continue;
        }
        put(&owner, &mut expect, &mut counter);
    }
    let mut staged = false;
    if gate.wait_parked(Duration::from_secs(1)) {
        // the background thread is parked inside the compaction loop (mutex released): make an
        // immutable memtable
        let t1 = Instant::now();
        while owner.verif_state().imm.is_none() && t1.elapsed() < Duration::from_secs(10) {
            put(&owner, &mut expect, &mut counter);
        }
        staged = owner.verif_state().imm.is_some();
    }
    let closer = std::thread::spawn(move || drop(owner));
    if staged {
        std::thread::sleep(Duration::from_millis(rng.range(10, 40)));
        if closer.is_finished() {
            fails.push(("c17:close-returns-before-background-work-ended".into(), "dropping the DB returned while its compaction thread was parked inside a table compaction".into()));
        }
        // let the loop flush the memtable (first table file) and hold it when it opens its own
        // output file (second table file)
        fs.until_block.store(1, SeqCst);
        gate.release();
        let t2 = Instant::now();
        while !fs.reached.load(SeqCst) && t2.elapsed() < Duration::from_secs(5) && !closer.is_finished() {
            std::thread::sleep(Duration::from_millis(1));
        }
        if fs.reached.load(SeqCst) && fails.is_empty() {
            std::thread::sleep(Duration::from_millis(rng.range(10, 60)));
            if closer.is_finished() {
                fails.push(("c17:close-returns-before-background-work-ended".into(), "dropping the DB returned while its compaction thread was still in the middle of a table compaction (it had flushed a pending memtable and signalled that)".into()));
            }
            match DB::open(mk(&fs)) {
                Ok(_d) => fails.push(("c17:open-while-closing".into(), "DB::open succeeded while the previous owner was still closing (its compaction thread was in the middle of a table compaction)".into())),
                Err(_) => {}
            }
            if fails.is_empty() {
                if let Ok(()) = DB::destroy_database(mk(&fs)) {
                    fails.push(("c17:destroy-while-closing".into(), "destroy_database acted while the previous owner was still closing (its compaction thread was in the middle of a table compaction)".into()));
                }
            }
            STAGED.fetch_add(1, SeqCst);
        }
    }
    fs.open.store(true, SeqCst);
    gate.release();
    if closer.join().is_err() {
        fails.push(("c17:panic".into(), "closing the database panicked".into()));
    }
    crate::sched::reset();
    if fails.is_empty() {
        // after the close the database opens and holds every acknowledged write
        match DB::open(mk(&fs)) {
            Err(e) => fails.push(("c17:open-after-close-fails".into(), format!("DB::open after the owner closed failed: {e}"))),
            Ok(d) => {
                for (k, v) in &expect {
                    match d.get(ReadOptions::default(), k) {
                        Ok(g) if &g == v => {}
                        other => {
                            fails.push(("c17:contents-after-close".into(), format!("after a close during a table compaction, get({}) = {:?}", String::from_utf8_lossy(k), other.map(|x| x.len()))));
                            break;
                        }
                    }
                }
                d.verif_wait_idle(Duration::from_secs(20));
                drop(d);
            }
        }
    }
    drop(fs);
    drop(tmp);
    let _ = std::fs::remove_dir_all(&base);
    fails
}

static STAGED: std::sync::atomic::AtomicUsize = std::sync::atomic::AtomicUsize::new(0);

pub fn rule() -> &'static str {
    "disk-backed TmpFileSystem: an owner opens and writes; 2-4 barrier-released threads concurrently try DB::open / destroy_database on the same path (all must fail, the owner keeps reading and writing correctly); in half of the scenarios the owner is closed while its compaction thread is parked in the middle of a flush (scheduling hook) and DB::open / destroy_database are tried until the close has finished (all must fail); after the owner closes, 2-5 barrier-released opens race (exactly one wins and sees every write); destroy_database afterwards; in one scenario in six destroy_database of a closed database is parked at its first removal (a filesystem wrapper) and DB::open or a second destroy_database is tried meanwhile (must fail), then the path must be free for a new, empty database. Non-trivial = the scenario ran; distinct by seed."
}

pub fn run(tier: &str, seed: u64, replay: Option<&str>, drv_path: &str) -> Report {
    crate::lsm::install_panic_hook();
    crate::sched::init();
    let mut rep = Report::new("c17", rule());
    let n = if tier == "thorough" { 400 } else { 40 };
    let mut rng = Prng::new(seed ^ 0xC17);
    let seeds: Vec<u64> = match replay {
        Some(line) => line.split_whitespace().find_map(|t| t.strip_prefix("seed=")).and_then(|s| s.parse().ok()).into_iter().collect(),
        None => (0..n).map(|_| rng.next() % 1_000_000_000).collect(),
    };
    for s in seeds {
        let table_compaction = replay.map_or(s % 3 == 0, |l| l.contains("close=table-compaction"));
        let during_destroy = replay.map_or(s % 3 == 1 && s % 2 == 0, |l| l.contains("open=during-destroy"));
        if during_destroy {
            let line = format!("c17 seed={s} open=during-destroy");
            rep.case(&line, true);
            rep.count("c17.open-during-destroy");
            match with_deadline(60, move || open_during_destroy(s)) {
                None => rep.fail("hang", "c17:hang", "scenario did not finish within 60 s", &line),
                Some(fails) => {
                    for (sig, what) in fails {
                        rep.fail("oracle", &sig, &what, &line);
                    }
                }
            }
            continue;
        }
        let line = if table_compaction { format!("c17 seed={s} close=table-compaction") } else { format!("c17 seed={s}") };
        rep.case(&line, true);
        let dp = drv_path.to_string();
        if table_compaction {
            rep.count("c17.close-during-table-compaction");
        } else {
            rep.model_requests += if drv_path != "none" { 1 } else { 0 };
        }
        match with_deadline(60, move || if table_compaction { close_during_table_compaction(s) } else { scenario(s, dp) }) {
            None => rep.fail("hang", "c17:hang", "scenario did not finish within 60 s", &line),
            Some(fails) => {
                for (sig, what) in fails {
                    if sig == "c17:model-drift" {
                        rep.drift.push(format!("{what} :: {line}"));
                        rep.count("model_drift");
                    } else {
                        rep.fail("oracle", &sig, &what, &line);
                    }
                }
            }
        }
    }
    for _ in 0..STAGED.load(std::sync::atomic::Ordering::SeqCst) {
        rep.count("c17.close-during-table-compaction.staged");
    }
    rep
}
