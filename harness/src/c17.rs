//! C17 — one owner at a time: a database cannot be opened or destroyed while open.
//! Uses the real disk-backed `TmpFileSystem` (OS `flock`).

use std::sync::{Arc, Barrier};

use raindb::fs::TmpFileSystem;
use raindb::{DbOptions, ReadOptions, WriteOptions, DB};

use crate::dbsim::with_deadline;
use crate::prng::Prng;
use crate::report::Report;

type Fail = (String, String);

fn opts(fs: &Arc<TmpFileSystem>, reuse: bool) -> DbOptions {
    DbOptions {
        db_path: fs.get_root_path().join("db").to_string_lossy().to_string(),
        filesystem_provider: fs.clone(),
        create_if_missing: true,
        max_memtable_size: 2048,
        reuse_log_files: reuse,
        ..DbOptions::default()
    }
}

fn scenario(seed: u64, drv_path: String) -> Vec<Fail> {
    let mut rng = Prng::new(seed);
    let mut fails = vec![];
    // (action token for the model, did it succeed in the implementation)
    let mut observed: Vec<(String, bool)> = vec![("o0".to_string(), true)];
    let base = std::env::temp_dir().join(format!("rainverif-c17-{}-{}", std::process::id(), seed));
    let _ = std::fs::create_dir_all(&base);
    let fs = Arc::new(TmpFileSystem::new(Some(&base)));
    let reuse = rng.chance(1, 2);
    let owner = match DB::open(opts(&fs, reuse)) {
        Ok(d) => d,
        Err(e) => return vec![("c17:first-open-failed".into(), e.to_string())],
    };
    let mut expect = std::collections::BTreeMap::new();
    for i in 0..rng.range(1, 40) {
        let (k, v) = (format!("k{i:03}").into_bytes(), vec![b'v'; rng.range(1, 60) as usize]);
        owner.put(WriteOptions::default(), k.clone(), v.clone()).unwrap();
        expect.insert(k, v);
    }
    // several threads try to open / destroy while the owner is alive
    let nthreads = rng.range(2, 4) as usize;
    let barrier = Arc::new(Barrier::new(nthreads));
    let mut hs = vec![];
    for t in 0..nthreads {
        let (fs2, b) = (fs.clone(), barrier.clone());
        let destroy = t % 2 == 1;
        hs.push(std::thread::spawn(move || {
            b.wait();
            if destroy {
                match DB::destroy_database(opts(&fs2, reuse)) {
                    Ok(()) => Some("destroy_database succeeded while the database was open".to_string()),
                    Err(_) => None,
                }
            } else {
                match DB::open(opts(&fs2, reuse)) {
                    Ok(_d) => Some("a second DB::open succeeded while the database was open".to_string()),
                    Err(_) => None,
                }
            }
        }));
    }
    for (t, h) in hs.into_iter().enumerate() {
        let tok = if t % 2 == 1 { "d".to_string() } else { format!("o{}", t + 1) };
        match h.join() {
            Ok(Some(msg)) => {
                observed.push((tok, true));
                fails.push((if msg.starts_with("destroy") { "c17:destroy-while-open".into() } else { "c17:second-open-succeeds".into() }, msg))
            }
            Ok(None) => observed.push((tok, false)),
            Err(_) => fails.push(("c17:panic".into(), "an open/destroy attempt panicked".into())),
        }
    }
    // the running instance is undisturbed
    for (k, v) in &expect {
        match owner.get(ReadOptions::default(), k) {
            Ok(g) if &g == v => {}
            other => {
                fails.push(("c17:owner-disturbed".into(), format!("after the failed attempts get = {:?}", other.map(|x| x.len()))));
                break;
            }
        }
    }
    if let Err(e) = owner.put(WriteOptions::default(), b"after".to_vec(), b"x".to_vec()) {
        fails.push(("c17:owner-disturbed".into(), format!("put after the failed attempts failed: {e}")));
    }
    expect.insert(b"after".to_vec(), b"x".to_vec());
    if rng.chance(1, 2) {
        owner.verif_wait_idle(std::time::Duration::from_secs(20));
        drop(owner);
    } else {
        // close while a flush is in flight: the compaction thread is parked while it builds the
        // table; until it has finished (and the close with it) the path still has an owner
        owner.verif_wait_idle(std::time::Duration::from_secs(20));
        crate::sched::reset();
        let gate = crate::sched::arm("bg", "bg:building-table", 1);
        let mut i = 0;
        while !gate.wait_parked(std::time::Duration::from_millis(1)) && i < 400 {
            let (k, v) = (format!("late{i:03}").into_bytes(), vec![b'w'; 64]);
            if owner.put(WriteOptions::default(), k.clone(), v.clone()).is_ok() {
                expect.insert(k, v);
            }
            i += 1;
        }
        let parked = gate.wait_parked(std::time::Duration::from_secs(5));
        let closer = std::thread::spawn(move || drop(owner));
        if parked {
            // give the close time to get as far as it can
            std::thread::sleep(std::time::Duration::from_millis(rng.range(5, 40)));
            for round in 0..3 {
                if closer.is_finished() {
                    fails.push(("c17:close-returns-before-background-work-ended".into(), "dropping the DB returned while its compaction thread was still building a table".into()));
                    break;
                }
                match DB::open(opts(&fs, reuse)) {
                    Ok(_d) => {
                        observed.push((format!("o{}", 5 + round), true));
                        fails.push(("c17:open-while-closing".into(), "DB::open succeeded while the previous owner was still closing (its compaction thread was in the middle of a flush)".into()));
                        break;
                    }
                    Err(_) => observed.push((format!("o{}", 5 + round), false)),
                }
                match DB::destroy_database(opts(&fs, reuse)) {
                    Ok(()) => {
                        observed.push(("d".to_string(), true));
                        fails.push(("c17:destroy-while-closing".into(), "destroy_database acted while the previous owner was still closing (its compaction thread was in the middle of a flush)".into()));
                        break;
                    }
                    Err(_) => observed.push(("d".to_string(), false)),
                }
            }
        }
        gate.release();
        if closer.join().is_err() {
            fails.push(("c17:panic".into(), "closing the database panicked".into()));
        }
        crate::sched::reset();
        if !fails.is_empty() {
            drop(fs);
            let _ = std::fs::remove_dir_all(&base);
            return fails;
        }
    }
    observed.push(("c0".to_string(), true));
    // an open that FAILS half-way (CURRENT is missing and the database may not be created) must not
    // keep the lock: the racing opens below would all be refused
    if rng.chance(1, 3) {
        use raindb::fs::FileSystem;
        let cur = fs.get_root_path().join("db").join("CURRENT");
        let bak = fs.get_root_path().join("db").join("CURRENT.away");
        if fs.rename(&cur, &bak).is_ok() {
            let mut o = opts(&fs, reuse);
            o.create_if_missing = false;
            match DB::open(o) {
                Ok(_d) => fails.push(("c17:open-without-current-succeeds".into(), "DB::open with create_if_missing=false succeeded although CURRENT is missing".into())),
                Err(_) => {}
            }
            let _ = fs.rename(&bak, &cur);
        }
    }
    // after close: racing opens, exactly one wins
    let nrace = rng.range(2, 5) as usize;
    let barrier = Arc::new(Barrier::new(nrace));
    let mut hs = vec![];
    for _ in 0..nrace {
        let (fs2, b) = (fs.clone(), barrier.clone());
        hs.push(std::thread::spawn(move || {
            b.wait();
            DB::open(opts(&fs2, reuse)).ok()
        }));
    }
    let mut winners = vec![];
    for h in hs {
        match h.join() {
            Ok(Some(d)) => winners.push(d),
            Ok(None) => {}
            Err(_) => fails.push(("c17:panic".into(), "a racing open panicked".into())),
        }
    }
    // the model serves the racing attempts in some order: the first wins, the others fail
    for r in 0..nrace {
        observed.push((format!("o{}", 10 + r), r == 0 && winners.len() == 1));
    }
    if drv_path != "none" {
        let mut drv = crate::drv::Drv::spawn(&drv_path);
        let ans = drv.ask(&format!("proto.lock {}", observed.iter().map(|x| x.0.as_str()).collect::<Vec<_>>().join(" ")));
        let want = observed.iter().map(|x| if x.1 { "1" } else { "0" }).collect::<Vec<_>>().join(" ");
        if ans != want && winners.len() == 1 && fails.is_empty() {
            fails.push(("c17:model-drift".into(), format!("lock protocol model predicts [{ans}], implementation did [{want}] for actions {:?}", observed.iter().map(|x| x.0.clone()).collect::<Vec<_>>())));
        }
    }
    if winners.len() != 1 {
        fails.push(("c17:racing-opens".into(), format!("{} of {nrace} racing opens succeeded after the owner closed (expected exactly one)", winners.len())));
    }
    if let Some(w) = winners.first() {
        for (k, v) in &expect {
            match w.get(ReadOptions::default(), k) {
                Ok(g) if &g == v => {}
                other => {
                    fails.push(("c17:contents-after-race".into(), format!("the winner of the race reads {:?}", other.map(|x| x.len()))));
                    break;
                }
            }
        }
    }
    for w in winners {
        w.verif_wait_idle(std::time::Duration::from_secs(20));
        drop(w);
    }
    // destroy now works and refuses nothing
    if rng.chance(1, 2) {
        if let Err(e) = DB::destroy_database(opts(&fs, reuse)) {
            fails.push(("c17:destroy-after-close-fails".into(), format!("destroy_database after close failed: {e}")));
        }
    }
    drop(fs);
    let _ = std::fs::remove_dir_all(&base);
    fails
}

pub fn rule() -> &'static str {
    "disk-backed TmpFileSystem: an owner opens and writes; 2-4 barrier-released threads concurrently try DB::open / destroy_database on the same path (all must fail, the owner keeps reading and writing correctly); in half of the scenarios the owner is closed while its compaction thread is parked in the middle of a flush (scheduling hook) and DB::open / destroy_database are tried until the close has finished (all must fail); after the owner closes, 2-5 barrier-released opens race (exactly one wins and sees every write); destroy_database afterwards. Non-trivial = the scenario ran; distinct by seed."
}

pub fn run(tier: &str, seed: u64, replay: Option<&str>, drv_path: &str) -> Report {
    crate::lsm::install_panic_hook();
    crate::sched::init();
    let mut rep = Report::new("c17", rule());
    let n = if tier == "thorough" { 400 } else { 40 };
    let mut rng = Prng::new(seed ^ 0xC17);
    let seeds: Vec<u64> = match replay {
        Some(line) => line.split_whitespace().find_map(|t| t.strip_prefix("seed=")).and_then(|s| s.parse().ok()).into_iter().collect(),
        None => (0..n).map(|_| rng.next() % 1_000_000_000).collect(),
    };
    for s in seeds {
        let line = format!("c17 seed={s}");
        rep.case(&line, true);
        let dp = drv_path.to_string();
        rep.model_requests += if drv_path != "none" { 1 } else { 0 };
        match with_deadline(60, move || scenario(s, dp)) {
            None => rep.fail("hang", "c17:hang", "scenario did not finish within 60 s", &line),
            Some(fails) => {
                for (sig, what) in fails {
                    if sig == "c17:model-drift" {
                        rep.drift.push(format!("{what} :: {line}"));
                        rep.count("model_drift");
                    } else {
                        rep.fail("oracle", &sig, &what, &line);
                    }
                }
            }
        }
    }
    rep
}
