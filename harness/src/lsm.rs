//! Database-level histories (single client) against the oracle: C01 C03 C07 C10 C11 (+ C09
//! watchdog). One generator with per-property emphasis; every failure carries a signature whose
//! prefix names the property it violates.

use std::sync::Mutex;

use crate::dbsim::{gen_key, gen_val, run_history, with_deadline, Cfg, Checks, History, Obs, Op, RunOut, Stats};
use crate::prng::Prng;
use crate::report::Report;
use crate::shard::{note_progress, ShardArgs};
use crate::simfs::SimFs;

pub static PANICS: Mutex<Vec<(String, String)>> = Mutex::new(Vec::new());

pub fn install_panic_hook() {
    std::panic::set_hook(Box::new(|info| {
        let name = std::thread::current().name().unwrap_or("<unnamed>").to_string();
        let msg = format!("{info}");
        // panics of harness threads (anything that is not a database thread) end the shard: leave a
        // diagnosis on stderr, which the parent keeps with the failing case
        if !name.starts_with("raindb-") {
            eprintln!("harness thread '{name}' panicked: {}", msg.chars().take(600).collect::<String>());
        }
        if let Ok(mut g) = PANICS.lock() {
            g.push((name, msg));
        }
    }));
}

fn take_panics() -> Vec<(String, String)> {
    PANICS.lock().map(|mut g| std::mem::take(&mut *g)).unwrap_or_default()
}

pub struct CaseResult {
    pub drift: Vec<String>,
    pub obs: Vec<Obs>,
    pub stats: Stats,
    pub hung: bool,
}

pub fn run_one(h: &History, checks: &Checks, secs: u64) -> CaseResult {
    let _ = take_panics();
    let h2 = h.clone();
    let c2 = checks.clone();
    let r: Option<RunOut> = with_deadline(secs, move || {
        let fs = SimFs::new();
        run_history(&h2, &c2, &fs)
    });
    let panics = take_panics();
    let mut obs = vec![];
    let mut drift = vec![];
    let (stats, hung) = match r {
        Some(out) => {
            obs = out.obs;
            drift = out.drift;
            (out.stats, false)
        }
        None => (Stats::default(), true),
    };
    for (thread, msg) in panics {
        let short: String = msg.chars().take(300).collect();
        if thread.starts_with("raindb-") {
            obs.insert(0, Obs { sig: "c09:background-thread-panicked".into(), what: format!("the compaction thread panicked: {short}"), at: 0 });
        } else {
            obs.push(Obs { sig: "c09:panic".into(), what: format!("thread {thread} panicked: {short}"), at: 0 });
        }
    }
    if hung {
        obs.push(Obs { sig: "c09:operation-hangs".into(), what: format!("the history did not finish within {secs} s"), at: 0 });
    }
    CaseResult { drift, obs, stats, hung }
}

/// delta-debugging on the operation list: keep removing chunks while a failure with the same
/// signature remains. Bounded by a number of re-executions.
pub fn shrink(h: &History, sig: &str, checks: &Checks, budget: usize, secs: u64) -> History {
    let mut cur = h.clone();
    let mut runs = 0usize;
    let mut chunk = (cur.ops.len() / 2).max(1);
    while chunk >= 1 && runs < budget {
        let mut i = 0;
        let mut progressed = false;
        while i < cur.ops.len() && runs < budget {
            let mut cand = cur.clone();
            let end = (i + chunk).min(cand.ops.len());
            cand.ops.drain(i..end);
            runs += 1;
            let r = run_one(&cand, checks, secs);
            if r.obs.iter().any(|o| o.sig == sig) {
                cur = cand;
                progressed = true;
            } else {
                i += chunk;
            }
        }
        if chunk == 1 && !progressed {
            break;
        }
        if !progressed || chunk > 1 {
            chunk = if chunk == 1 { 1 } else { chunk / 2 };
        }
        if chunk == 1 && !progressed {
            break;
        }
    }
    cur
}

fn gen_history(rng: &mut Prng, prop: &str, thorough: bool) -> History {
    let mut cfg = Cfg::gen(rng);
    // one history in five ends with a close in the middle of a table compaction; half of those use
    // one-entry blocks and output files, so that the loop is between two output files at every
    // iteration (the moment an interrupted compaction has nothing half-written)
    let busy_close = rng.chance(1, 5);
    if busy_close && rng.chance(1, 2) {
        cfg.file = 1;
        cfg.block = 16;
    }
    let nops = if thorough { rng.range(40, 600) } else { rng.range(20, 150) } as usize;
    let space = *rng.pick(&[6u64, 12, 24, 48, 96, 300]);
    let big_ok = rng.chance(1, 4);
    let mut ops = vec![];
    // one history in six starts with a staged layout: two files in level 2 and two in level 1 with a
    // key gap between them, then a manual compaction of that range during which a memtable holding
    // keys inside the gap (or across it) is flushed from inside the compaction loop
    if rng.chance(1, 6) {
        cfg.memtable = *rng.pick(&[512usize, 1024]);
        cfg.file = *rng.pick(&[4096u64, 8192]);
        let key = |i: u64| format!("gap{:03}", i).into_bytes();
        let a = rng.range(0, 5);
        let b = a + rng.range(1, 3);
        let c = b + rng.range(1, 3);
        let m = c + rng.range(3, 9);
        let n = m + rng.range(1, 3);
        let p = n + rng.range(1, 3);
        let force = Op::Compact(Some(b"zzzz".to_vec()), Some(b"zzzzz".to_vec()));
        let small = |rng: &mut Prng| rng.bytes(6);
        for (x, y) in [(a, b), (n, p), (a, c), (m, p)] {
            ops.push(Op::Put(key(x), small(rng)));
            ops.push(Op::Put(key(y), small(rng)));
            ops.push(force.clone());
        }
        // the writes made while the compaction is parked: inside the gap, or spilling over its ends
        let (lo, hi) = match rng.below(4) {
            0 => (c, m),
            1 => (b, n),
            _ => (c + 1, m - 1),
        };
        let mut ws = vec![];
        for j in 0..rng.range(3, 6) {
            let k = lo + (j * (hi - lo)) / 5;
            ws.push((key(k.min(hi)), vec![b'g'; rng.range(200, 420) as usize]));
        }
        ops.push(Op::CompactBusy(Some(key(a)), Some(key(p)), rng.range(1, 4) as u32, ws));
        ops.push(Op::Scan);
    }
    if rng.chance(1, 3) {
        // small level limits: size-triggered compactions of levels >= 1 (compaction pointers)
        ops.push(Op::LevelLimit(*rng.pick(&[512u64, 2048, 8192])));
    }
    if rng.chance(1, 4) {
        ops.push(Op::ListOrder(rng.range(1, 2) as u8));
    }
    if rng.chance(1, 5) {
        ops.push(Op::Foreign);
    }
    let mut next_snap = 0u32;
    let mut live: Vec<u32> = vec![];
    let mut live_iters: Vec<u32> = vec![];
    let mut next_iter = 0u32;
    let mut fill_start = 0u32;
    // weights by property
    let (w_snap, w_compact, w_reopen, w_idle) = match prop {
        "C03" => (14, 8, 2, 6),
        "C07" => (6, 14, 2, 6),
        "C10" => (2, 8, 8, 10),
        "C11" => (3, 8, 4, 12),
        _ => (3, 6, 6, 4),
    };
    for _ in 0..nops {
        let r = rng.below(100);
        let mut acc = 0;
        let mut hit = |w: u64| {
            acc += w;
            r < acc
        };
        if hit(30) {
            ops.push(Op::Put(gen_key(rng, space), gen_val(rng, big_ok)));
        } else if hit(10) {
            ops.push(Op::Del(gen_key(rng, space)));
        } else if hit(6) {
            let es = crate::dbsim::gen_batch_ops(rng, space, 1, 6);
            ops.push(Op::Batch(es));
        } else if hit(14) {
            ops.push(Op::Get(gen_key(rng, space)));
        } else if hit(3) {
            ops.push(Op::Scan);
        } else if hit(6) {
            // force flushes: overlapping (same start) or disjoint (advancing start) key runs
            let n = rng.range(4, 40) as u32;
            let len = *rng.pick(&[10u32, 40, 100, 300]);
            let start = if rng.chance(1, 2) {
                fill_start
            } else {
                rng.below(fill_start as u64 + 1) as u32
            };
            fill_start = fill_start.max(start + n);
            ops.push(Op::Fill(start, n, len));
        } else if hit(w_compact) {
            let a = if rng.chance(1, 3) { None } else { Some(gen_key(rng, space)) };
            let b = if rng.chance(1, 3) { None } else { Some(gen_key(rng, space)) };
            let (a, b) = match (a, b) {
                (Some(x), Some(y)) if x > y => (Some(y), Some(x)),
                o => o,
            };
            ops.push(Op::Compact(a, b));
        } else if hit(w_reopen) {
            for id in live.drain(..) {
                ops.push(Op::Release(id));
            }
            for id in live_iters.drain(..) {
                ops.push(Op::IterClose(id));
            }
            let mut c = Cfg::gen(rng);
            if rng.chance(1, 2) {
                // change only the log-reuse setting
                c = Cfg { reuse: !cfg.reuse, ..cfg.clone() };
            }
            ops.push(Op::Reopen(c));
        } else if hit(w_idle) {
            ops.push(Op::Idle);
        } else if hit(w_snap) {
            if live.len() < 8 && (live.is_empty() || rng.chance(2, 3)) {
                ops.push(Op::Snap(next_snap));
                live.push(next_snap);
                next_snap += 1;
            } else if !live.is_empty() {
                let i = rng.below(live.len() as u64) as usize;
                ops.push(Op::Release(live.remove(i)));
            }
        } else if hit(2) {
            ops.push(Op::GetN(gen_key(rng, space), 130));
        } else if hit(2) {
            ops.push(Op::SeekN(gen_key(rng, space), 130));
        } else if hit(if prop == "C03" || prop == "C11" { 6 } else { 2 }) {
            if live_iters.len() < 3 && (live_iters.is_empty() || rng.chance(1, 2)) {
                ops.push(Op::IterOpen(next_iter));
                live_iters.push(next_iter);
                next_iter += 1;
            } else if !live_iters.is_empty() {
                let i = rng.below(live_iters.len() as u64) as usize;
                ops.push(Op::IterClose(live_iters.remove(i)));
            }
        } else if !live.is_empty() {
            let id = *rng.pick(&live);
            if rng.chance(3, 4) {
                ops.push(Op::GetAt(id, gen_key(rng, space)));
            } else {
                ops.push(Op::ScanAt(id));
            }
        } else {
            ops.push(Op::Get(gen_key(rng, space)));
        }
    }
    for id in live_iters.drain(..) {
        ops.push(Op::IterClose(id));
    }
    if busy_close {
        for id in live.drain(..) {
            ops.push(Op::Release(id));
        }
        let mut c = Cfg { reuse: rng.chance(1, 2), ..cfg.clone() };
        if rng.chance(1, 3) {
            c = Cfg::gen(rng);
        }
        ops.push(Op::CloseBusy(rng.range(1, 40) as u32, c));
        ops.push(Op::Scan);
        for _ in 0..rng.range(1, 6) {
            ops.push(Op::Get(gen_key(rng, space)));
        }
    }
    ops.push(Op::Idle);
    History { cfg, ops }
}

fn add_stats(rep: &mut Report, s: &Stats) {
    rep.add("lsm.gets", s.gets);
    rep.add("lsm.scans", s.scans);
    rep.add("lsm.flushes", s.flushes);
    rep.add("lsm.compactions", s.compactions);
    rep.add("lsm.manual-compactions", s.manual_compactions);
    rep.add("lsm.trivial-moves", s.trivial_moves);
    rep.add("lsm.file-deletions", s.deletes_of_files);
    rep.add("lsm.deletion-passes-compared-with-the-model", s.obsolete_passes);
    rep.add("lsm.make-room-iterations-compared-with-the-model", s.room_iterations);
    rep.add("lsm.make-room-waits", s.room_waits);
    rep.add("lsm.make-room-rotations", s.room_rotations);
    rep.add("lsm.make-room-delays", s.room_delays);
    rep.add("lsm.make-room-forced-iterations", s.room_forced);
    rep.add("lsm.make-room-calls-run-through-the-model", s.room_calls);
    rep.add("lsm.make-room-calls-that-waited", s.room_calls_with_wait);
    rep.add("lsm.deletion-pass-names-decided", s.obsolete_names);
    rep.add("lsm.deletion-pass-names-marked", s.obsolete_deleted);
    rep.add("lsm.deletion-pass-foreign-names", s.obsolete_foreign_names);
    rep.add("lsm.reopens", s.reopens);
    rep.add("lsm.idle-checks", s.idle_checks);
    rep.add("lsm.compactions-with-live-snapshots", s.snapshots_alive_at_compaction);
    rep.add("lsm.obsolete-files-lingering-until-next-pass", s.lingering);
    rep.add("lsm.transitions-validated-against-model", s.events_validated);
    rep.add("lsm.input-selections-on-real-versions-checked-against-model", s.selections_checked);
    rep.add("lsm.scheduling-steps-checked-against-model", s.sched_steps_checked);
    rep.add("lsm.states-validated-against-model", s.states_validated);
    rep.add("lsm.directory-checks-against-retention-model", s.retention_checks);
    rep.add("lsm.entries-dropped-by-compactions", s.entries_dropped);
    rep.add("lsm.potential-lowered-by-compactions", s.potential_drop);
    rep.add("lsm.seek-charges-of-gets-checked-against-model", s.seek_gets_checked);
    rep.add("lsm.seek-charges-of-read-samples-checked-against-model", s.seek_samples_checked);
    rep.add("lsm.seek-charges-applied", s.seek_charges);
    rep.add("lsm.seek-events-skipped-unknown-file", s.seek_events_skipped);
    rep.add("lsm.seek-budgets-checked-against-model", s.seek_budgets_checked);
    rep.add("lsm.dumps-with-a-recorded-seek-compaction", s.seek_compactions_recorded);
    rep.add("lsm.seek-compactions-recorded-according-to-the-model", s.seek_compactions_by_model);
    rep.add("lsm.flush-levels-checked-against-model", s.flush_levels_checked);
    rep.add("lsm.persisted-state-relation-checked-on-real-states", s.persist_relation_checked);
    rep.add("lsm.snapshot-lists-checked-against-the-model-invariant", s.snapshot_lists_checked);
    rep.add("lsm.real-states-whose-directory-is-exact", s.persist_directory_exact);
    rep.add("lsm.flushes-placed-below-level-0", s.flushes_below_level0);
    rep.add("lsm.compaction-output-loops-replayed-in-the-model", s.output_loops_checked);
    rep.add("lsm.grandparent-rule-calls", s.grandparent_rule_calls);
    rep.add("lsm.move-or-merge-decisions-checked-against-model", s.move_decisions_checked);
    rep.add("lsm.compactions-whose-grandparent-answers-were-checked-against-the-model", s.grandparent_rules_checked);
    rep.add("lsm.grandparent-rule-stops", s.grandparent_rule_stops);
    rep.add("lsm.outputs-closed-by-the-size-rule", s.outputs_closed_by_size);
    rep.add("lsm.compact-range-level-searches-checked-against-model", s.manual_ranges_checked);
    rep.add("lsm.manual-compaction-requests", s.manual_requests_checked);
    rep.add("lsm.manual-compaction-rounds-checked-against-model", s.manual_rounds_checked);
    rep.add("lsm.manual-compaction-rounds-that-selected-files", s.manual_rounds_selecting);
    rep.add("lsm.closes-during-a-table-compaction", s.closes_during_table_compaction);
    rep.add("lsm.writes-staged-while-a-table-compaction-is-parked", s.flushes_staged_inside_a_compaction);
    let bump = |rep: &mut Report, k: &str, v: u64| {
        let cur = rep.dist.get(k).copied().unwrap_or(0);
        if v > cur {
            rep.dist.insert(k.to_string(), v);
        }
    };
    bump(rep, "lsm.max-l0-files", s.max_l0 as u64);
    bump(rep, "lsm.max-rounds-of-one-manual-request", s.manual_max_rounds_of_a_request);
    bump(rep, "lsm.deepest-level", s.deepest_level as u64);
    bump(rep, "lsm.max-files-in-a-level>=1", s.max_files_in_level as u64);
}

pub fn corpus(dir: &str) -> Vec<History> {
    let mut v = vec![];
    if let Ok(rd) = std::fs::read_dir(dir) {
        let mut paths: Vec<_> = rd.flatten().map(|e| e.path()).collect();
        paths.sort();
        for p in paths {
            if let Ok(txt) = std::fs::read_to_string(&p) {
                for line in txt.lines() {
                    if line.starts_with("lsm ") {
                        if let Some(h) = History::from_line(line) {
                            v.push(h);
                        }
                    }
                }
            }
        }
    }
    v
}

pub fn rule() -> &'static str {
    "single-client histories over {put, delete, batch, get, get xN, scan, compact_range (random/open-ended ranges), fill (overlapping or disjoint key runs forcing flushes), snapshot take/release/get/scan, idle (wait for background quiescence, check shape + directory + contents), close+reopen with re-drawn options} on SimFs with memtable 256 B-8 KiB, files 256 B-8 KiB, blocks 16 B-4 KiB, Bloom bits 1-64, both log-reuse settings; keys from an alphabet with empty/one-byte/0x00/0xff/shared-prefix/adjacent keys; values empty ... larger than a WAL block; every get/scan compared with a BTreeMap oracle and frozen snapshot copies. Non-trivial = the history caused at least one flush or compaction; distinct by history text."
}

/// child (or in-process) execution of the shard's share of the job list
pub fn run(tier: &str, seed: u64, prop: &str, replay: Option<&str>, corpus_dir: &str, shard: Option<ShardArgs>, drv_path: &str) -> Report {
    install_panic_hook();
    crate::sched::init();
    let mut rep = Report::new("lsm", rule());
    let checks = Checks { drv_path: if drv_path == "none" { None } else { Some(drv_path.to_string()) }, retention_model: prop == "C11", ..Checks::default() };
    let secs = 60;
    if let Some(line) = replay {
        match History::from_line(line) {
            None => rep.fail("oracle", "lsm:bad-replay", "cannot parse replay case", line),
            Some(h) => {
                let r = run_one(&h, &checks, secs);
                rep.case(line, true);
                add_stats(&mut rep, &r.stats);
                for o in &r.obs {
                    rep.fail(if r.hung { "hang" } else { "oracle" }, &o.sig, &format!("{} (at op {})", o.what, o.at), line);
                }
            }
        }
        return rep;
    }
    let thorough = tier == "thorough";
    let mut rng = Prng::new(seed ^ 0x15A ^ (prop.bytes().fold(0u64, |a, b| a.wrapping_mul(31).wrapping_add(b as u64))));
    let mut jobs: Vec<History> = corpus(corpus_dir);
    let n = if thorough { 5000 } else { 160 };
    for _ in 0..n {
        jobs.push(gen_history(&mut rng, prop, thorough));
    }
    let (idx, cnt) = shard.as_ref().map_or((0, 1), |s| (s.index, s.count));
    let shard_opt = shard;
    let mut reported: std::collections::BTreeSet<String> = Default::default();
    for (j, h) in jobs.iter().enumerate() {
        if j % cnt != idx {
            continue;
        }
        let line = h.to_line("lsm");
        note_progress(&shard_opt, &line);
        let r = run_one(h, &checks, secs);
        let nontrivial = r.stats.flushes + r.stats.compactions + r.stats.trivial_moves > 0;
        rep.case(&line, nontrivial);
        add_stats(&mut rep, &r.stats);
        for dmsg in r.drift.iter().take(3) {
            rep.drift.push(format!("{dmsg} :: {line}"));
            rep.count("model_drift");
        }
        rep.count(&format!("lsm.cfg.reuse.{}", h.cfg.reuse));
        let mut sigs: Vec<&Obs> = vec![];
        for o in &r.obs {
            if !sigs.iter().any(|x| x.sig == o.sig) {
                sigs.push(o);
            }
        }
        for o in sigs {
            // shrink the first occurrence of every signature; later ones are reported as found
            let case_line = if !r.hung && reported.insert(o.sig.clone()) {
                let small = shrink(h, &o.sig, &checks, 120, 20);
                small.to_line("lsm")
            } else {
                line.clone()
            };
            rep.fail(if o.sig == "c09:operation-hangs" { "hang" } else { "oracle" }, &o.sig, &format!("{} (at op {})", o.what, o.at), &case_line);
        }
        if r.hung {
            // a hung case leaves threads behind: stop this shard's run here, the parent reports it
            rep.notes.push("a case hung; this shard stopped early".into());
            break;
        }
    }
    rep
}
