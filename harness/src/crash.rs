//! C02 / C16 — crash at every prefix of the stream of mutating filesystem operations (optionally
//! with the last write torn), recovery, further writes, clean reopen.
//!
//! A history runs on a recording SimFs. After every API call the length of the operation log and
//! the oracle state are noted, so for every crash index `i` we know which writes had been
//! acknowledged and which single call was in flight. The image after the first `i` operations
//! (plus, for C16, a byte prefix of operation `i`) is re-opened: the database must open, contain
//! every acknowledged write, contain the in-flight batch entirely or not at all, and nothing else;
//! then more writes, a clean close and another reopen must preserve everything.

use std::collections::BTreeMap;

use raindb::{Batch, ReadOptions, WriteOptions, DB};

use crate::dbsim::{gen_key, gen_val, scan_db, Cfg, History, Op};
use crate::drv::hex;
use crate::prng::Prng;
use crate::report::Report;
use crate::shard::{note_progress, ShardArgs};
use crate::simfs::{Op as FsOp, SimFs};

type Map = BTreeMap<Vec<u8>, Vec<u8>>;

/// oplog length and oracle state after each API call (index 0 = after open)
struct Ack {
    oplog_len: usize,
    state: Map,
}

pub struct Recorded {
    pub fs: SimFs,
    acks: Vec<Ack>,
    /// for API call j (1-based in `acks`), the batch it applies (None for non-writes)
    batches: Vec<Option<Vec<(Vec<u8>, Option<Vec<u8>>)>>>,
    pub final_cfg: Cfg,
}

fn apply_batch(m: &mut Map, b: &[(Vec<u8>, Option<Vec<u8>>)]) {
    for (k, v) in b {
        match v {
            Some(v) => {
                m.insert(k.clone(), v.clone());
            }
            None => {
                m.remove(k);
            }
        }
    }
}

/// run the history, recording acknowledgement points. Returns None if the run itself fails
/// (reported by other checks).
pub fn record(h: &History) -> Result<Recorded, String> {
    let fs = SimFs::new();
    let mut cfg = h.cfg.clone();
    let mut db = Some(DB::open(cfg.options(&fs)).map_err(|e| format!("open: {e}"))?);
    let mut oracle: Map = BTreeMap::new();
    let mut acks = vec![Ack { oplog_len: fs.oplog_len(), state: oracle.clone() }];
    let mut batches = vec![None];
    for op in &h.ops {
        let d = db.as_ref().unwrap();
        let mut batch: Option<Vec<(Vec<u8>, Option<Vec<u8>>)>> = None;
        match op {
            Op::Put(k, v) => batch = Some(vec![(k.clone(), Some(v.clone()))]),
            Op::Del(k) => batch = Some(vec![(k.clone(), None)]),
            Op::Batch(es) => batch = Some(es.clone()),
            Op::Fill(s, n, l) => {
                // a fill is a sequence of single puts: record each separately
                for j in 0..*n {
                    let k = format!("fill-{:05}", s + j).into_bytes();
                    let v = vec![b'f'; *l as usize];
                    d.put(WriteOptions::default(), k.clone(), v.clone()).map_err(|e| format!("put: {e}"))?;
                    oracle.insert(k.clone(), v.clone());
                    acks.push(Ack { oplog_len: fs.oplog_len(), state: oracle.clone() });
                    batches.push(Some(vec![(k, Some(v))]));
                }
                continue;
            }
            Op::Compact(a, b) => {
                d.compact_range(a.as_deref()..b.as_deref());
            }
            Op::Idle => {
                d.verif_wait_idle(std::time::Duration::from_secs(20));
            }
            Op::Reopen(c) => {
                d.verif_wait_idle(std::time::Duration::from_secs(20));
                let old = db.take().unwrap();
                std::panic::catch_unwind(std::panic::AssertUnwindSafe(move || drop(old))).map_err(|_| "panic in close".to_string())?;
                cfg = c.clone();
                db = Some(DB::open(cfg.options(&fs)).map_err(|e| format!("reopen: {e}"))?);
            }
            _ => {}
        }
        if let Some(b) = &batch {
            let d = db.as_ref().unwrap();
            let mut wb = Batch::new();
            for (k, v) in b {
                match v {
                    Some(v) => {
                        wb.add_put(k.clone(), v.clone());
                    }
                    None => {
                        wb.add_delete(k.clone());
                    }
                }
            }
            d.apply(WriteOptions::default(), wb).map_err(|e| format!("apply: {e}"))?;
            apply_batch(&mut oracle, b);
        }
        acks.push(Ack { oplog_len: fs.oplog_len(), state: oracle.clone() });
        batches.push(batch);
    }
    if let Some(d) = db.as_ref() {
        d.verif_wait_idle(std::time::Duration::from_secs(20));
    }
    acks.push(Ack { oplog_len: fs.oplog_len(), state: oracle.clone() });
    batches.push(None);
    if let Some(old) = db.take() {
        let _ = std::panic::catch_unwind(std::panic::AssertUnwindSafe(move || drop(old)));
    }
    Ok(Recorded { fs, acks, batches, final_cfg: cfg })
}

fn read_all(db: &DB, keys: &[Vec<u8>]) -> Result<Map, String> {
    let got = scan_db(db, None)?;
    let m: Map = got.iter().cloned().collect();
    if m.len() != got.len() {
        return Err("scan returned a key twice".into());
    }
    for k in keys {
        match db.get(ReadOptions::default(), k) {
            Ok(v) => {
                if m.get(k) != Some(&v) {
                    return Err(format!("get({}) and the scan disagree", hex(k)));
                }
            }
            Err(raindb::RainDBError::KeyNotFound) => {
                if m.contains_key(k) {
                    return Err(format!("get({}) says KeyNotFound but the scan shows the key", hex(k)));
                }
            }
            Err(e) => return Err(format!("get({}) failed: {e}", hex(k))),
        }
    }
    Ok(m)
}

fn diff(got: &Map, want: &Map) -> String {
    for (k, v) in want {
        match got.get(k) {
            None => return format!("key {} is missing", hex(k)),
            Some(g) if g != v => return format!("key {} has a value of {} bytes, expected {} bytes", hex(k), g.len(), v.len()),
            _ => {}
        }
    }
    for k in got.keys() {
        if !want.contains_key(k) {
            return format!("unexpected key {}", hex(k));
        }
    }
    "equal".into()
}

pub struct CrashOutcome {
    pub sig: Option<(String, String)>,
    pub recovered_inflight: bool,
}

/// Reopen image `img` and check it against (acked, in-flight batch); then write, close, reopen.
pub fn check_image(img: &SimFs, cfg: &Cfg, acked: &Map, inflight: Option<&Vec<(Vec<u8>, Option<Vec<u8>>)>>, all_keys: &[Vec<u8>], tag: &str) -> CrashOutcome {
    let mut out = CrashOutcome { sig: None, recovered_inflight: false };
    let mut with_inflight = acked.clone();
    if let Some(b) = inflight {
        apply_batch(&mut with_inflight, b);
    }
    let opened = std::panic::catch_unwind(std::panic::AssertUnwindSafe(|| DB::open(cfg.options(img))));
    let db = match opened {
        Err(_) => {
            out.sig = Some((format!("{tag}:open-panics"), "opening the crash image panicked".into()));
            return out;
        }
        Ok(Err(e)) => {
            out.sig = Some((format!("{tag}:open-fails"), format!("the crash image does not open: {e}")));
            return out;
        }
        Ok(Ok(d)) => d,
    };
    let got = match read_all(&db, all_keys) {
        Ok(m) => m,
        Err(e) => {
            out.sig = Some((format!("{tag}:read-fails"), format!("reading the recovered database failed: {e}")));
            return out;
        }
    };
    let base: Map;
    if &got == acked {
        base = acked.clone();
    } else if got == with_inflight {
        base = with_inflight.clone();
        out.recovered_inflight = true;
    } else {
        let d1 = diff(&got, acked);
        let d2 = diff(&got, &with_inflight);
        let sig = if d1.contains("missing") || d1.contains("expected") { "lost-or-wrong" } else { "extra" };
        out.sig = Some((
            format!("{tag}:recovered-state-{sig}"),
            format!("recovered contents match neither the acknowledged state ({d1}) nor acknowledged + the whole in-flight batch ({d2})"),
        ));
        return out;
    }
    // usable afterwards: more writes, clean close, reopen
    let mut after = base.clone();
    for j in 0..3u8 {
        let k = vec![b'~', b'p', j];
        let v = vec![j; 5 + j as usize];
        if let Err(e) = db.put(WriteOptions::default(), k.clone(), v.clone()) {
            out.sig = Some((format!("{tag}:write-after-recovery-fails"), format!("put after recovery failed: {e}")));
            return out;
        }
        after.insert(k, v);
    }
    if let Some((k, _)) = base.iter().next() {
        if db.delete(WriteOptions::default(), k.clone()).is_ok() {
            after.remove(k);
        }
    }
    db.verif_wait_idle(std::time::Duration::from_secs(20));
    if std::panic::catch_unwind(std::panic::AssertUnwindSafe(move || drop(db))).is_err() {
        out.sig = Some((format!("{tag}:close-panics"), "closing the recovered database panicked".into()));
        return out;
    }
    let db2 = match std::panic::catch_unwind(std::panic::AssertUnwindSafe(|| DB::open(cfg.options(img)))) {
        Ok(Ok(d)) => d,
        Ok(Err(e)) => {
            out.sig = Some((format!("{tag}:second-open-fails"), format!("after recovery, further writes and a clean close the database does not open: {e}")));
            return out;
        }
        Err(_) => {
            out.sig = Some((format!("{tag}:second-open-panics"), "the second open panicked".into()));
            return out;
        }
    };
    // C11 after a crash: once the freshly opened database is quiescent and BEFORE anybody reads from
    // it (a reader pins a version and the files it releases linger - the recorded finding), the
    // directory holds exactly what the current version, the WAL and the manifest need: tables
    // orphaned by the interrupted flush / compaction, temp files of an interrupted CURRENT switch and
    // old manifests must be gone
    {
        db2.verif_wait_idle(std::time::Duration::from_secs(20));
        let st = db2.verif_state();
        let mut obs = vec![];
        crate::dbsim::check_files(img, &st, true, &mut obs, 0);
        if let Some(o) = obs.first() {
            out.sig = Some((o.sig.clone(), format!("after crash recovery, further writes, a clean close and a reopen (nobody has read from the database yet): {}", o.what)));
            let _ = std::panic::catch_unwind(std::panic::AssertUnwindSafe(move || drop(db2)));
            return out;
        }
    }
    let mut keys2: Vec<Vec<u8>> = all_keys.to_vec();
    keys2.extend(after.keys().cloned());
    match read_all(&db2, &keys2) {
        Ok(m) => {
            if m != after {
                out.sig = Some((
                    format!("{tag}:writes-after-recovery-lost"),
                    format!("after recovery, further acknowledged writes and a clean reopen: {}", diff(&m, &after)),
                ));
            }
        }
        Err(e) => out.sig = Some((format!("{tag}:read-fails"), format!("reading after the second open failed: {e}"))),
    }
    let _ = std::panic::catch_unwind(std::panic::AssertUnwindSafe(move || drop(db2)));
    out
}

/// which API call is in flight at crash index `i` (first ack with oplog_len > i), and the last
/// acknowledged state
fn locate(rec: &Recorded, i: usize) -> (usize, Option<usize>) {
    // acks are non-decreasing in oplog_len
    let mut last = 0;
    for (j, a) in rec.acks.iter().enumerate() {
        if a.oplog_len <= i {
            last = j;
        } else {
            return (last, Some(j));
        }
    }
    (last, None)
}

fn gen_history(rng: &mut Prng, thorough: bool) -> History {
    let mut cfg = Cfg::gen(rng);
    cfg.memtable = *rng.pick(&[256usize, 512, 1024, 4096]);
    let nops = if thorough { rng.range(10, 60) } else { rng.range(6, 30) } as usize;
    let space = *rng.pick(&[6u64, 12, 24]);
    let big = rng.chance(1, 5);
    // one history in six uses a few keys of 17-20 KB: a flushed table whose smallest and largest
    // keys are that long gives a manifest edit that does not fit into the rest of its 32 KiB log
    // block and is written as several fragments (torn continuation fragments, fragmented manifests)
    let bigkeys = rng.chance(1, 6);
    let mut ops = vec![];
    for _ in 0..nops {
        let r = rng.below(100);
        ops.push(if r < 40 {
            let k = if bigkeys && rng.chance(1, 4) {
                let mut k = vec![b'K'; 17_000 + (rng.below(3_000) as usize)];
                k.extend_from_slice(&gen_key(rng, space));
                k
            } else {
                gen_key(rng, space)
            };
            Op::Put(k, gen_val(rng, big))
        } else if r < 52 {
            Op::Del(gen_key(rng, space))
        } else if r < 64 {
            Op::Batch(crate::dbsim::gen_batch_ops(rng, space, 2, 5))
        } else if r < 74 {
            Op::Fill(rng.below(20) as u32, rng.range(3, 12) as u32, *rng.pick(&[20u32, 100, 300]))
        } else if r < 82 {
            Op::Compact(None, None)
        } else if r < 92 {
            let mut c = Cfg::gen(rng);
            c.memtable = *rng.pick(&[256usize, 1024, 4096]);
            if rng.chance(1, 2) {
                c = Cfg { reuse: !cfg.reuse, ..cfg.clone() };
            }
            Op::Reopen(c)
        } else {
            Op::Idle
        });
    }
    History { cfg, ops }
}

pub fn rule(torn: bool) -> &'static str {
    if torn {
        "histories (puts, deletes, multi-key batches, fills, compactions, reopens with re-drawn options incl. both log-reuse settings; one history in six with keys of 17-20 KB so that manifest edits are written as several log fragments) recorded on SimFs; every write operation of the stream is cut at 1 byte, half and all-but-one byte (thorough: more lengths), the image re-opened with either log-reuse setting, checked against acknowledged/in-flight contents, written to, closed and re-opened. Non-trivial = the torn operation is a write of at least 2 bytes to a WAL or manifest; distinct by (history, index, cut)."
    } else {
        "histories (puts, deletes, multi-key batches, values spanning several 32 KiB log blocks, fills forcing flushes, manual compactions, reopens with re-drawn options incl. both log-reuse settings) recorded on SimFs; EVERY prefix of the mutating-operation stream (create/truncate, write, rename, remove, mkdir) becomes a crash image (quick: every prefix of short streams, an even sample of long ones) which is re-opened (with the log-reuse setting of the moment and its opposite), compared with the acknowledged state +/- the whole in-flight batch, written to, cleanly closed and re-opened; crashes during the recovery of a crash image are enumerated one level deep on a sample. Non-trivial = the crash falls after at least one acknowledged write; distinct by (history, index)."
    }
}

pub fn corpus(dir: &str, comp: &str) -> Vec<History> {
    let mut v = vec![];
    if let Ok(rd) = std::fs::read_dir(dir) {
        let mut paths: Vec<_> = rd.flatten().map(|e| e.path()).collect();
        paths.sort();
        for p in paths {
            if let Ok(txt) = std::fs::read_to_string(&p) {
                for line in txt.lines() {
                    if line.starts_with(comp) {
                        if let Some(h) = History::from_line(line) {
                            v.push(h);
                        }
                    }
                }
            }
        }
    }
    v
}

pub fn op_desc_pub(fs: &SimFs, op: &FsOp) -> String {
    op_desc(fs, op)
}

fn op_desc(fs: &SimFs, op: &FsOp) -> String {
    match op {
        FsOp::Write(ino, _, d) => format!("write {} bytes to {}", d.len(), fs.inode_path(*ino).map(|p| p.to_string_lossy().to_string()).unwrap_or_default()),
        FsOp::Create(p, _, t) => format!("create{} {}", if *t { "+truncate" } else { "(append)" }, p.to_string_lossy()),
        FsOp::Rename(a, b) => format!("rename {} -> {}", a.to_string_lossy(), b.to_string_lossy()),
        FsOp::Remove(p) => format!("remove {}", p.to_string_lossy()),
        FsOp::Mkdir(p) => format!("mkdir {}", p.to_string_lossy()),
        FsOp::RemoveDir(p, _) => format!("rmdir {}", p.to_string_lossy()),
    }
}

fn file_class(fs: &SimFs, op: &FsOp) -> &'static str {
    let p = match op {
        FsOp::Write(ino, _, _) => fs.inode_path(*ino).map(|p| p.to_string_lossy().to_string()).unwrap_or_default(),
        FsOp::Create(p, _, _) | FsOp::Remove(p) | FsOp::Mkdir(p) | FsOp::RemoveDir(p, _) => p.to_string_lossy().to_string(),
        FsOp::Rename(a, _) => a.to_string_lossy().to_string(),
    };
    if p.contains("/wal/") {
        "wal"
    } else if p.ends_with(".manifest") {
        "manifest"
    } else if p.ends_with(".rdb") {
        "table"
    } else if p.ends_with("CURRENT") || p.ends_with(".dbtemp") {
        "current"
    } else {
        "other"
    }
}

/// `idx=..,cut=..,reuse=..` suffix used to replay one crash point of a history
fn one_point(rec: &Recorded, h: &History, i: usize, torn: Option<usize>, reuse: Option<bool>, tag: &str, rep: &mut Report, comp: &str, depth2: bool) {
    let ops = rec.fs.oplog();
    let (last, inflight_idx) = locate(rec, i);
    let acked = &rec.acks[last].state;
    let inflight = inflight_idx.and_then(|j| rec.batches[j].as_ref());
    let mut cfg = rec.final_cfg.clone();
    // configuration "of the moment": the cfg of the last Reopen op completed before i is not
    // tracked exactly; recovery must work with every setting, so draw it from the index
    if let Some(r) = reuse {
        cfg.reuse = r;
    }
    let img = rec.fs.image_at(i, torn);
    let mut all_keys: Vec<Vec<u8>> = rec.acks.last().unwrap().state.keys().cloned().collect();
    for b in rec.batches.iter().flatten() {
        for (k, _) in b {
            all_keys.push(k.clone());
        }
    }
    all_keys.sort();
    all_keys.dedup();
    let line = format!("{} idx={} cut={} reuse={}", h.to_line(comp), i, torn.map_or("-".to_string(), |t| t.to_string()), if cfg.reuse { 1 } else { 0 });
    let nontrivial = !acked.is_empty() && (torn.is_none() || matches!(ops.get(i), Some(FsOp::Write(_, _, d)) if d.len() >= 2));
    rep.case(&line, nontrivial);
    if let Some(op) = ops.get(i) {
        rep.count(&format!("{tag}.next-op.{}.{}", op.kind(), file_class(&rec.fs, op)));
    } else {
        rep.count(&format!("{tag}.next-op.end-of-stream"));
    }
    rep.count(&format!("{tag}.inflight.{}", if inflight.is_some() { "write" } else { "none" }));
    let img_for_depth2 = if depth2 { Some(img.snapshot()) } else { None };
    let o = check_image(&img, &cfg, acked, inflight, &all_keys, tag);
    if o.recovered_inflight {
        rep.count(&format!("{tag}.inflight-batch-recovered-whole"));
    }
    if let Some((sig, what)) = o.sig {
        let next = ops.get(i).map(|o| op_desc(&rec.fs, o)).unwrap_or_else(|| "end of stream".into());
        rep.fail("oracle", &sig, &format!("crash before operation {i} of {} ({next}{}), reopened with reuse_log_files={}: {what}", ops.len(), torn.map_or(String::new(), |t| format!(", torn after {t} bytes")), cfg.reuse), &line);
        return;
    }
    // crash during the recovery of this image (one level deep)
    if let Some(img0) = img_for_depth2 {
        // run recovery on a copy to learn its operation stream
        let probe = img0.snapshot();
        let n0 = probe.oplog_len();
        if let Ok(Ok(d)) = std::panic::catch_unwind(std::panic::AssertUnwindSafe(|| DB::open(cfg.options(&probe)))) {
            d.verif_wait_idle(std::time::Duration::from_secs(20));
            let n1 = probe.oplog_len();
            let _ = std::panic::catch_unwind(std::panic::AssertUnwindSafe(move || drop(d)));
            for j in n0..n1 {
                if (j - n0) % 3 != 0 && n1 - n0 > 12 {
                    continue;
                }
                let img2 = probe.image_at(j, None);
                let line2 = format!("{line} idx2={j}");
                rep.case(&line2, nontrivial);
                rep.count(&format!("{tag}.crash-during-recovery"));
                let o2 = check_image(&img2, &cfg, acked, inflight, &all_keys, tag);
                if let Some((sig, what)) = o2.sig {
                    rep.fail("oracle", &format!("{sig}-after-crash-in-recovery"), &format!("crash before operation {i}, then a second crash before operation {j} of the recovery: {what}"), &line2);
                    return;
                }
            }
        }
    }
}

pub fn run(torn_mode: bool, tier: &str, seed: u64, replay: Option<&str>, corpus_dir: &str, shard: Option<ShardArgs>, drv_path: &str) -> Report {
    crate::lsm::install_panic_hook();
    let comp = if torn_mode { "c16" } else { "c02" };
    let tag = comp;
    let mut rep = Report::new(comp, rule(torn_mode));
    let thorough = tier == "thorough";
    if let Some(line) = replay {
        let h = match History::from_line(line) {
            Some(h) => h,
            None => {
                rep.fail("oracle", "crash:bad-replay", "cannot parse replay case", line);
                return rep;
            }
        };
        let get = |name: &str| line.split_whitespace().find_map(|t| t.strip_prefix(&format!("{name}="))).map(|s| s.to_string());
        let idx: usize = get("idx").and_then(|s| s.parse().ok()).unwrap_or(0);
        let cut: Option<usize> = get("cut").and_then(|s| s.parse().ok());
        let reuse: Option<bool> = get("reuse").map(|s| s == "1");
        match record(&h) {
            Err(e) => rep.fail("oracle", "crash:history-fails", &e, line),
            Ok(rec) => one_point(&rec, &h, idx, cut, reuse, tag, &mut rep, comp, false),
        }
        return rep;
    }
    let mut rng = Prng::new(seed ^ if torn_mode { 0xC16 } else { 0xC02 });
    let mut jobs: Vec<History> = corpus(corpus_dir, comp);
    let n = if thorough { 400 } else { 48 };
    for _ in 0..n {
        jobs.push(gen_history(&mut rng, thorough));
    }
    let (idx, cnt) = shard.as_ref().map_or((0, 1), |s| (s.index, s.count));
    let shard_opt = shard;
    for (j, h) in jobs.iter().enumerate() {
        if j % cnt != idx {
            continue;
        }
        let hline = h.to_line(comp);
        note_progress(&shard_opt, &hline);
        let rec = match record(h) {
            Ok(r) => r,
            Err(e) => {
                rep.notes.push(format!("history failed without a crash (reported by the C01/C09 checks): {e}"));
                continue;
            }
        };
        let ops = rec.fs.oplog();
        let nops = ops.len();
        if !torn_mode {
            // the whole recorded stream against the Lean durability monitor
            let mut drv = crate::drv::Drv::spawn(drv_path);
            let (n, bad) = monitor(&rec.fs, &mut drv);
            rep.add("c02.stream-operations-checked-by-the-monitor", n as u64);
            rep.model_requests += drv.requests;
            if n > 0 {
                rep.count("c02.streams-monitored");
            }
            if let Some(what) = bad {
                // the removal of a file recovery still needs is C11's business as well: the monitor's
                // conditions on removeWal / removeTable / removeManifest are the definition of "needed"
                let removal = what.contains(" removeWal ") || what.contains(" removeTable ") || what.contains(" removeManifest ");
                if removal {
                    rep.fail("oracle", "c11:file-needed-by-recovery-removed", &what, &hline);
                } else {
                    rep.fail("contract", "c02:operation-order-outside-the-verified-discipline", &what, &hline);
                }
            }
        }
        let mut prng = Prng::new(seed ^ (j as u64) << 8);
        if !torn_mode {
            // every prefix for short streams, an even sample for long ones
            let budget = if thorough { 400 } else { 90 };
            let stride = (nops / budget).max(1);
            let off = prng.below(stride as u64) as usize;
            let before = rep.failures.len();
            for i in 0..=nops {
                let interesting = matches!(ops.get(i), Some(FsOp::Rename(_, _)) | Some(FsOp::Remove(_)) | Some(FsOp::Create(_, _, _)));
                if i % stride != off && !interesting && i != nops {
                    continue;
                }
                note_progress(&shard_opt, &format!("{hline} idx={i}"));
                let reuse = Some(prng.chance(1, 2));
                let depth2 = prng.below(if thorough { 10 } else { 40 }) == 0;
                one_point(&rec, h, i, None, reuse, tag, &mut rep, comp, depth2);
                if rep.failures.len() > before + 3 {
                    break;
                }
            }
        } else {
            let before = rep.failures.len();
            for (i, op) in ops.iter().enumerate() {
                if let FsOp::Write(_, _, d) = op {
                    let cls = file_class(&rec.fs, op);
                    if cls == "table" && prng.below(6) != 0 {
                        continue;
                    }
                    let mut cuts = vec![1usize, d.len() / 2, d.len().saturating_sub(1)];
                    if thorough {
                        cuts.extend([2, 3, 6, 7, 8, d.len() / 3]);
                    }
                    cuts.retain(|c| *c > 0 && *c < d.len());
                    cuts.sort();
                    cuts.dedup();
                    if !thorough && nops > 150 && prng.below((nops / 150) as u64 + 1) != 0 {
                        continue;
                    }
                    for c in cuts {
                        for reuse in [true, false] {
                            note_progress(&shard_opt, &format!("{hline} idx={i} cut={c}"));
                            one_point(&rec, h, i, Some(c), Some(reuse), tag, &mut rep, comp, false);
                        }
                    }
                    if rep.failures.len() > before + 3 {
                        break;
                    }
                }
            }
        }
    }
    rep
}

// ---------------------------------------------------------------------------------------------
// the recorded operation stream against the Lean durability monitor (`Rain/Durable.lean`)

fn num_between(name: &str, pre: &str, suf: &str) -> Option<u64> {
    name.strip_prefix(pre)?.strip_suffix(suf)?.parse().ok()
}

fn read_log_records(bytes: &[u8]) -> Vec<Vec<u8>> {
    let scratch = SimFs::new();
    scratch.write_file_raw(std::path::Path::new("/x"), bytes.to_vec());
    match raindb::verif::log_read_all(scratch.dyn_fs(), std::path::Path::new("/x")) {
        Ok((recs, _)) => recs,
        Err(_) => vec![],
    }
}

fn table_entries_of(bytes: &[u8]) -> Option<Vec<raindb::verif::Entry>> {
    use raindb::fs::FileSystem;
    let scratch = SimFs::new();
    scratch.create_dir_all(std::path::Path::new("/t/data")).ok()?;
    scratch.write_file_raw(std::path::Path::new("/t/data/1.rdb"), bytes.to_vec());
    let opts = raindb::DbOptions { db_path: "/t".into(), filesystem_provider: scratch.dyn_fs(), ..raindb::DbOptions::default() };
    let t = raindb::verif::table_open(&opts, 1).ok()?;
    let d = t.dump().ok()?;
    Some(d.blocks.into_iter().flat_map(|b| b.entries).collect())
}

/// translate the recorded stream into model operations (token, index in the operation log)
pub fn model_stream(fs: &SimFs) -> Option<Vec<(String, usize)>> {
    use std::collections::BTreeMap as Map;
    let ops = fs.oplog();
    if ops.len() > 2500 {
        return None;
    }
    let mut files: Map<String, Vec<u8>> = Map::new();
    let mut ino_path: Map<u64, String> = Map::new();
    let mut nrecs: Map<String, usize> = Map::new();
    let mut complete: std::collections::BTreeSet<String> = Default::default();
    let mut out: Vec<(String, usize)> = vec![];
    let mut budget: usize = 3_000_000;
    for (i, op) in ops.iter().enumerate() {
        match op {
            FsOp::Create(p, ino, trunc) => {
                let ps = p.to_string_lossy().to_string();
                ino_path.insert(*ino, ps.clone());
                let existed = files.contains_key(&ps);
                if *trunc || !existed {
                    files.insert(ps.clone(), vec![]);
                    nrecs.insert(ps.clone(), 0);
                    complete.remove(&ps);
                }
                let name = p.file_name().map(|n| n.to_string_lossy().to_string()).unwrap_or_default();
                if let Some(n) = num_between(&name, "wal-", ".log") {
                    out.push((if *trunc || !existed { format!("cw:{n}") } else { "no".into() }, i));
                } else if let Some(m) = num_between(&name, "MANIFEST-", ".manifest") {
                    out.push((if *trunc || !existed { format!("cm:{m}") } else { "no".into() }, i));
                } else {
                    out.push(("no".into(), i));
                }
            }
            FsOp::Write(ino, off, data) => {
                let Some(ps) = ino_path.get(ino).cloned() else {
                    out.push(("no".into(), i));
                    continue;
                };
                let f = files.entry(ps.clone()).or_default();
                match off {
                    None => f.extend_from_slice(data),
                    Some(o) => {
                        if f.len() < o + data.len() {
                            f.resize(o + data.len(), 0);
                        }
                        f[*o..o + data.len()].copy_from_slice(data);
                    }
                }
                let name = std::path::Path::new(&ps).file_name().map(|n| n.to_string_lossy().to_string()).unwrap_or_default();
                if let Some(n) = num_between(&name, "wal-", ".log") {
                    let recs = read_log_records(f);
                    let before = *nrecs.get(&ps).unwrap_or(&0);
                    let mut pushed = false;
                    for r in recs.iter().skip(before) {
                        let (start, bops) = raindb::verif::batch_decode(r).ok()?;
                        let body = if bops.is_empty() {
                            "_".to_string()
                        } else {
                            bops.iter().map(|(k, v)| match v { Some(v) => format!("{}={}", hex(k), hex(v)), None => format!("{}!", hex(k)) }).collect::<Vec<_>>().join(",")
                        };
                        budget = budget.saturating_sub(body.len());
                        out.push((format!("aw:{n}:{start}:{body}"), i));
                        pushed = true;
                    }
                    nrecs.insert(ps.clone(), recs.len().max(before));
                    if !pushed {
                        out.push(("no".into(), i));
                    }
                } else if let Some(m) = num_between(&name, "MANIFEST-", ".manifest") {
                    let recs = read_log_records(f);
                    let before = *nrecs.get(&ps).unwrap_or(&0);
                    let mut pushed = false;
                    for r in recs.iter().skip(before) {
                        let e = raindb::verif::edit_decode(r).ok()?;
                        let pairs = |v: Vec<(usize, u64)>| if v.is_empty() { "_".to_string() } else { v.iter().map(|(l, t)| format!("{l}.{t}")).collect::<Vec<_>>().join(",") };
                        out.push((
                            format!(
                                "am:{m}:{}:{}:{}",
                                e.wal_file_number.map_or("-".to_string(), |w| w.to_string()),
                                pairs(e.new_files.iter().map(|(l, f)| (*l, f.number)).collect()),
                                pairs(e.deleted_files.clone())
                            ),
                            i,
                        ));
                        pushed = true;
                    }
                    nrecs.insert(ps.clone(), recs.len().max(before));
                    if !pushed {
                        out.push(("no".into(), i));
                    }
                } else if let Some(t) = num_between(&name, "", ".rdb") {
                    let magic = 1646u64.to_le_bytes();
                    if !complete.contains(&ps) && f.len() >= 48 && f[f.len() - 8..] == magic {
                        match table_entries_of(f) {
                            Some(es) => {
                                complete.insert(ps.clone());
                                let body = if es.is_empty() { "_".to_string() } else { es.iter().map(|e| format!("{}/{}/{}/{}", hex(&e.0), e.1, if e.2 == 1 { "p" } else { "d" }, hex(&e.3))).collect::<Vec<_>>().join(",") };
                                budget = budget.saturating_sub(body.len());
                                out.push((format!("ct:{t}:{body}"), i));
                            }
                            None => out.push(("no".into(), i)),
                        }
                    } else {
                        out.push(("no".into(), i));
                    }
                } else {
                    out.push(("no".into(), i));
                }
            }
            FsOp::Rename(a, b) => {
                let (as_, bs) = (a.to_string_lossy().to_string(), b.to_string_lossy().to_string());
                let content = files.remove(&as_).unwrap_or_default();
                for v in ino_path.values_mut() {
                    if *v == as_ {
                        *v = bs.clone();
                    }
                }
                files.insert(bs.clone(), content.clone());
                if bs.ends_with("/CURRENT") {
                    let txt = String::from_utf8_lossy(&content).trim().to_string();
                    match num_between(&txt, "MANIFEST-", ".manifest") {
                        Some(m) => out.push((format!("sc:{m}"), i)),
                        None => return None,
                    }
                } else {
                    out.push(("no".into(), i));
                }
            }
            FsOp::Remove(p) => {
                let ps = p.to_string_lossy().to_string();
                files.remove(&ps);
                complete.remove(&ps);
                let name = p.file_name().map(|n| n.to_string_lossy().to_string()).unwrap_or_default();
                if let Some(n) = num_between(&name, "wal-", ".log") {
                    out.push((format!("rw:{n}"), i));
                } else if let Some(m) = num_between(&name, "MANIFEST-", ".manifest") {
                    out.push((format!("rm:{m}"), i));
                } else if let Some(t) = num_between(&name, "", ".rdb") {
                    out.push((format!("rt:{t}"), i));
                } else {
                    out.push(("no".into(), i));
                }
            }
            _ => out.push(("no".into(), i)),
        }
        if budget == 0 {
            return None;
        }
    }
    Some(out)
}

/// run the stream through the model's monitor; returns (checked operations, failure)
pub fn monitor(fs: &SimFs, drv: &mut crate::drv::Drv) -> (usize, Option<String>) {
    let Some(stream) = model_stream(fs) else { return (0, None) };
    let req = format!("dur.run {}", stream.iter().map(|x| x.0.as_str()).collect::<Vec<_>>().join(" "));
    let ans = drv.ask(&req);
    if ans == "no-model" {
        return (0, None);
    }
    if ans.starts_with("ok ") {
        // the freshness condition of the version-builder theorems (Rain/Props/Builder.lean): within one
        // manifest no (level, table number) is added twice; a snapshot record starts every manifest
        let mut added: std::collections::BTreeMap<String, std::collections::BTreeSet<String>> = Default::default();
        for (tok, oplog_idx) in &stream {
            let p: Vec<&str> = tok.split(':').collect();
            if p.len() == 2 && p[0] == "cm" {
                // the manifest file is created (or re-created after a failed attempt): it starts empty
                added.remove(p[1]);
            }
            if p.len() == 5 && p[0] == "am" && p[3] != "_" {
                let set = added.entry(p[1].to_string()).or_default();
                for pair in p[3].split(',') {
                    if !set.insert(pair.to_string()) {
                        return (stream.len(), Some(format!("manifest {} adds table (level.number) {pair} a second time (filesystem operation {oplog_idx}): file numbers are re-used, so replaying the manifest with one version builder need not give the version the running instance had (freshness hypothesis of builder_recovery_eq_running)", p[1])));
                    }
                }
            }
        }
        return (stream.len(), None);
    }
    if let Some(rest) = ans.strip_prefix("bad ") {
        let idx: usize = rest.split(' ').next().and_then(|x| x.parse().ok()).unwrap_or(0);
        let oplog_idx = stream.get(idx).map(|x| x.1).unwrap_or(0);
        let tok: String = stream.get(idx).map(|x| x.0.chars().take(120).collect()).unwrap_or_default();
        return (idx, Some(format!("model operation #{idx} (filesystem operation {oplog_idx}: {tok}) is rejected by the durability monitor: {rest}")));
    }
    (0, Some(format!("the durability monitor could not process the stream: {}", ans.chars().take(200).collect::<String>())))
}
