//! The properties on the REAL filesystem implementation (`TmpFileSystem`, the disk-backed
//! `FileSystem` of the crate): everything else in the harness runs on the simulated filesystem, so a
//! defect in src/fs/fs_disk.rs (append-mode create, truncation, listing, rename, locking) would
//! otherwise only be seen by C17. Generated histories (puts, deletes, batches, gets, scans, manual
//! compactions, snapshots, close + reopen with both log-reuse settings) against a BTreeMap oracle,
//! plus the log writer / reader on real files.

use std::collections::BTreeMap;
use std::sync::Arc;

use raindb::fs::TmpFileSystem;
use raindb::{Batch, DbOptions, ReadOptions, WriteOptions, DB};

use crate::dbsim::{gen_key, gen_val, scan_db, with_deadline};
use crate::drv::hex;
use crate::prng::Prng;
use crate::report::Report;

fn opts(fs: &Arc<TmpFileSystem>, memtable: usize, file: u64, reuse: bool) -> DbOptions {
    DbOptions {
        db_path: fs.get_root_path().join("db").to_string_lossy().to_string(),
        filesystem_provider: fs.clone(),
        create_if_missing: true,
        max_memtable_size: memtable,
        max_file_size: file,
        max_block_size: 256,
        reuse_log_files: reuse,
        ..DbOptions::default()
    }
}

fn history(seed: u64) -> Vec<(String, String)> {
    let mut rng = Prng::new(seed);
    let mut fails = vec![];
    let base = std::env::temp_dir().join(format!("rainverif-disk-{}-{}", std::process::id(), seed));
    let _ = std::fs::create_dir_all(&base);
    let fs = Arc::new(TmpFileSystem::new(Some(&base)));
    let memtable = *rng.pick(&[512usize, 2048, 16384]);
    let file = *rng.pick(&[1024u64, 4096]);
    let mut reuse = rng.chance(1, 2);
    let mut oracle: BTreeMap<Vec<u8>, Vec<u8>> = BTreeMap::new();
    let mut db = match DB::open(opts(&fs, memtable, file, reuse)) {
        Ok(d) => Some(d),
        Err(e) => return vec![("disk:open-failed".into(), e.to_string())],
    };
    let space = *rng.pick(&[8u64, 40]);
    let nops = rng.range(20, 120);
    'ops: for i in 0..nops {
        let d = db.as_ref().unwrap();
        match rng.below(100) {
            0..=39 => {
                let (k, v) = (gen_key(&mut rng, space), gen_val(&mut rng, i % 17 == 0));
                match d.put(WriteOptions::default(), k.clone(), v.clone()) {
                    Ok(()) => {
                        oracle.insert(k, v);
                    }
                    Err(e) => {
                        fails.push(("disk:write-failed".into(), format!("put failed on the disk filesystem: {e}")));
                        break 'ops;
                    }
                }
            }
            40..=49 => {
                let k = gen_key(&mut rng, space);
                if d.delete(WriteOptions::default(), k.clone()).is_ok() {
                    oracle.remove(&k);
                }
            }
            50..=57 => {
                let mut b = Batch::new();
                let mut staged = vec![];
                for _ in 0..rng.range(2, 5) {
                    let (k, v) = (gen_key(&mut rng, space), gen_val(&mut rng, false));
                    b.add_put(k.clone(), v.clone());
                    staged.push((k, v));
                }
                if d.apply(WriteOptions { synchronous: rng.chance(1, 2) }, b).is_ok() {
                    for (k, v) in staged {
                        oracle.insert(k, v);
                    }
                }
            }
            58..=77 => {
                let k = gen_key(&mut rng, space);
                let got = d.get(ReadOptions::default(), &k);
                let ok = match (&got, oracle.get(&k)) {
                    (Ok(g), Some(v)) => g == v,
                    (Err(raindb::RainDBError::KeyNotFound), None) => true,
                    _ => false,
                };
                if !ok {
                    fails.push(("c01:get-mismatch".into(), format!("on the disk filesystem get({}) = {:?}, expected {:?}", hex(&k), got.as_ref().map(|v| v.len()).map_err(|e| e.to_string()), oracle.get(&k).map(|v| v.len()))));
                    break 'ops;
                }
            }
            78..=83 => match scan_db(d, None) {
                Ok(got) => {
                    let m: BTreeMap<Vec<u8>, Vec<u8>> = got.into_iter().collect();
                    if m != oracle {
                        fails.push(("c01:scan-mismatch".into(), format!("on the disk filesystem a full scan shows {} keys, the oracle has {}", m.len(), oracle.len())));
                        break 'ops;
                    }
                }
                Err(e) => {
                    fails.push(("c01:scan-error".into(), e));
                    break 'ops;
                }
            },
            84..=89 => {
                d.compact_range(None..None);
            }
            _ => {
                // close and reopen (acknowledged writes must survive; both log-reuse settings)
                d.verif_wait_idle(std::time::Duration::from_secs(20));
                let old = db.take().unwrap();
                drop(old);
                reuse = rng.chance(1, 2);
                match DB::open(opts(&fs, memtable, file, reuse)) {
                    Ok(nd) => {
                        match scan_db(&nd, None) {
                            Ok(got) => {
                                let m: BTreeMap<Vec<u8>, Vec<u8>> = got.into_iter().collect();
                                if m != oracle {
                                    let missing = oracle.keys().find(|k| !m.contains_key(*k)).map(|k| hex(k));
                                    fails.push(("c02:contents-after-clean-reopen".into(), format!("after a clean close and reopen on the disk filesystem (reuse_log_files={reuse}) the database shows {} keys, {} were acknowledged (first missing: {:?})", m.len(), oracle.len(), missing)));
                                    db = Some(nd);
                                    break 'ops;
                                }
                            }
                            Err(e) => {
                                fails.push(("c01:scan-error".into(), e));
                                db = Some(nd);
                                break 'ops;
                            }
                        }
                        db = Some(nd);
                    }
                    Err(e) => {
                        fails.push(("c02:reopen-failed".into(), format!("reopening on the disk filesystem failed: {e}")));
                        break 'ops;
                    }
                }
            }
        }
    }
    if let Some(d) = db.take() {
        d.verif_wait_idle(std::time::Duration::from_secs(20));
        drop(d);
    }
    // the log format on real files: two sessions appending to one file, read back
    let log_path = fs.get_root_path().join("plain.log");
    let first: Vec<Vec<u8>> = (0..rng.range(1, 4)).map(|i| vec![b'a' + i as u8; rng.range(1, 40_000) as usize]).collect();
    let second: Vec<Vec<u8>> = (0..rng.range(1, 4)).map(|i| vec![b'A' + i as u8; rng.range(1, 40_000) as usize]).collect();
    let dynfs: Arc<dyn raindb::fs::FileSystem> = fs.clone();
    let w1 = raindb::verif::log_write(dynfs.clone(), &log_path, false, &first);
    let w2 = raindb::verif::log_write(dynfs.clone(), &log_path, true, &second);
    match (w1, w2, raindb::verif::log_read_all(dynfs.clone(), &log_path)) {
        (Ok(a), Ok(b), Ok((got, err))) if a.iter().all(|r| r.is_ok()) && b.iter().all(|r| r.is_ok()) => {
            let mut want = first.clone();
            want.extend(second.iter().cloned());
            if got != want || err.is_some() {
                fails.push(("c12:disk-log-round-trip".into(), format!("a log written in two sessions on the disk filesystem reads back {} records (error {:?}), {} were appended", got.len(), err, want.len())));
            }
        }
        (a, b, _) => fails.push(("c12:disk-log-write-failed".into(), format!("writing a log on the disk filesystem failed: {:?} {:?}", a.err(), b.err()))),
    }
    drop(fs);
    let _ = std::fs::remove_dir_all(&base);
    fails
}

/// The filesystem contract the database relies on, on the real implementation: random sequences of
/// create (truncating / appending) + writes, reads, sizes, renames, removals and listings are applied
/// to `TmpFileSystem` and to the simulated filesystem the rest of the harness runs on; both must
/// answer alike (this validates the simulation as much as the disk code).
fn fs_conformance(seed: u64) -> Vec<(String, String)> {
    use raindb::fs::FileSystem;
    let mut rng = Prng::new(seed);
    let base = std::env::temp_dir().join(format!("rainverif-fsc-{}-{}", std::process::id(), seed));
    let _ = std::fs::create_dir_all(&base);
    let disk = Arc::new(TmpFileSystem::new(Some(&base)));
    let droot = disk.get_root_path();
    let sim = crate::simfs::SimFs::new();
    let sroot = std::path::PathBuf::from("/r");
    let _ = sim.create_dir_all(&sroot);
    let names = ["a.log", "b.rdb", "c.dbtemp", "CURRENT"];
    let mut fails = vec![];
    let mut trace: Vec<String> = vec![];
    let read_all = |fs: &dyn FileSystem, p: &std::path::Path| -> Result<Vec<u8>, String> {
        let f = fs.open_file(p).map_err(|e| format!("{:?}", e.kind()))?;
        let n = fs.get_file_size(p).map_err(|e| format!("{:?}", e.kind()))? as usize;
        let mut buf = vec![0u8; n];
        let got = f.read_from(&mut buf, 0).map_err(|e| format!("{:?}", e.kind()))?;
        buf.truncate(got);
        Ok(buf)
    };
    for step in 0..rng.range(10, 60) {
        let name = *rng.pick(&names);
        let (dp, sp) = (droot.join(name), sroot.join(name));
        let desc;
        let (a, b): (String, String) = match rng.below(7) {
            0 | 1 => {
                let append = rng.chance(1, 2);
                let chunks: Vec<Vec<u8>> = (0..rng.range(1, 4)).map(|_| { let n = rng.range(1, 60) as usize; rng.bytes(n) }).collect();
                desc = format!("create_file({name}, append={append}) + {} writes of {:?} bytes", chunks.len(), chunks.iter().map(|c| c.len()).collect::<Vec<_>>());
                let run = |fs: &dyn FileSystem, p: &std::path::Path| -> String {
                    match fs.create_file(p, append) {
                        Err(e) => format!("err {:?}", e.kind()),
                        Ok(mut f) => {
                            for c in &chunks {
                                if std::io::Write::write_all(&mut f, c).is_err() {
                                    return "write-error".into();
                                }
                            }
                            let _ = std::io::Write::flush(&mut f);
                            format!("ok len={:?}", f.len().ok())
                        }
                    }
                };
                (run(disk.as_ref(), &dp), run(&sim, &sp))
            }
            2 => {
                desc = format!("read {name}");
                (format!("{:?}", read_all(disk.as_ref(), &dp).map(|v| hex(&v))), format!("{:?}", read_all(&sim, &sp).map(|v| hex(&v))))
            }
            3 => {
                desc = format!("get_file_size {name}");
                (format!("{:?}", disk.get_file_size(&dp).map_err(|e| e.kind())), format!("{:?}", sim.get_file_size(&sp).map_err(|e| e.kind())))
            }
            4 => {
                let to = *rng.pick(&names);
                desc = format!("rename {name} -> {to}");
                (format!("{:?}", disk.rename(&dp, &droot.join(to)).map_err(|e| e.kind())), format!("{:?}", sim.rename(&sp, &sroot.join(to)).map_err(|e| e.kind())))
            }
            5 => {
                desc = format!("remove_file {name}");
                (format!("{:?}", disk.remove_file(&dp).map_err(|e| e.kind())), format!("{:?}", sim.remove_file(&sp).map_err(|e| e.kind())))
            }
            _ => {
                desc = "list_dir".to_string();
                let norm = |r: std::io::Result<Vec<std::path::PathBuf>>| -> String {
                    match r {
                        Err(e) => format!("err {:?}", e.kind()),
                        Ok(v) => {
                            let mut n: Vec<String> = v.iter().filter_map(|p| p.file_name().map(|x| x.to_string_lossy().to_string())).collect();
                            n.sort();
                            n.join(",")
                        }
                    }
                };
                (norm(disk.list_dir(&droot)), norm(sim.list_dir(&sroot)))
            }
        };
        trace.push(desc.clone());
        if a != b {
            fails.push(("disk:filesystem-contract".into(), format!("step {step} ({desc}): the disk filesystem answers [{}], the simulated one [{}]; steps so far: {}", a.chars().take(200).collect::<String>(), b.chars().take(200).collect::<String>(), trace.join("; "))));
            break;
        }
    }
    drop(disk);
    let _ = std::fs::remove_dir_all(&base);
    fails
}

pub fn rule() -> &'static str {
    "the database on the crate's real disk-backed filesystem (TmpFileSystem in a scratch directory that is removed afterwards): histories of 20-120 operations (puts, deletes, batches with and without the synchronous flag, gets, scans, manual compactions, clean close + reopen with both log-reuse settings) against a BTreeMap oracle, plus a log file appended to in two sessions and read back, plus the filesystem contract itself (create with truncation / append, writes, reads, sizes, renames over existing files, removals, listings) compared call by call with the simulated filesystem the rest of the harness uses. Non-trivial = the history ran; distinct by seed."
}

pub fn run(tier: &str, seed: u64, replay: Option<&str>) -> Report {
    crate::lsm::install_panic_hook();
    let mut rep = Report::new("disk", rule());
    let mut rng = Prng::new(seed ^ 0xD15C);
    let seeds: Vec<u64> = match replay {
        Some(line) => line.split_whitespace().find_map(|t| t.strip_prefix("seed=")).and_then(|s| s.parse().ok()).into_iter().collect(),
        None => (0..if tier == "thorough" { 600 } else { 40 }).map(|_| rng.next() % 1_000_000_000).collect(),
    };
    for s in seeds {
        let line = format!("disk seed={s}");
        rep.case(&line, true);
        match with_deadline(120, move || {
            let mut f = history(s);
            for k in 0..4u64 {
                f.extend(fs_conformance(s.wrapping_mul(31).wrapping_add(k)));
            }
            f
        }) {
            None => rep.fail("hang", "c09:operation-hangs", "a history on the disk filesystem did not finish within 120 s", &line),
            Some(fails) => {
                for (sig, what) in fails {
                    rep.fail("oracle", &sig, &what, &line);
                }
            }
        }
    }
    rep
}
